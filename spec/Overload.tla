------------------------------ MODULE Overload ------------------------------
(***************************************************************************)
(* Layer M for the overload plugin (C18).                                  *)
(*  Part 1 (histories): the connection limiter under sequences of connect, *)
(*  disconnect / close of an admitted session, a raise of the limit and a  *)
(*  concurrent burst of connects.  The limiter is modelled as the code has *)
(*  it: a reservation counter tmp and a counter now; PostAccept = take,    *)
(*  PostDisconnect = release.  GuardRelease = TRUE: only sessions that     *)
(*  took a slot release one (repaired plugin); FALSE: PostDisconnect of a  *)
(*  REJECTED connection (ServeConn closes it, which runs the disconnect    *)
(*  hooks) releases a slot that was never taken (pinned commit).           *)
(*  Part 2 (atomic interleavings) is module OverloadAtomic.                *)
(***************************************************************************)
EXTENDS Naturals, Integers, Sequences, FiniteSets, TLC, Json, IOUtils
CONSTANTS Export, MaxOps, GuardRelease, Limits

\* ghost: what has happened so far that a limiter with the wrong bookkeeping would remember although the
\* correct one does not (rejections, sessions without a slot that ended under a limit).  It changes no
\* behaviour of this model; it is part of the VIEW so that one scenario is exported per (state, past) pair
\* and history-dependent deviations of the code are reached, not only state-dependent ones.
\* path: which accept path of the peer admits the connections (ServeConn, or the accept loop behind
\* ListenAndServe); the limiter does not depend on it, the code that calls the hooks and closes rejected
\* connections does
VARIABLES lim, tmp, now, live, n, hist, unl, ghost, path
vars == <<lim, tmp, now, live, n, hist, unl, ghost, path>>
view == <<lim, tmp, now, live, n, unl, ghost, path>>
Cap2(x) == IF x > 2 THEN 2 ELSE x
\* path "dial": the plugin sits on the dialling peer (PostDial takes the slot; a re-dial takes none), which re-dials
\* lost connections.  Blip: the remote end drops the oldest admitted session's connection and the session re-dials
\* successfully: it is one admitted session before and after, and no disconnect hook runs.  (A remote disconnect that
\* ENDS a session needs a failing re-dial; on this path sessions end by Close.)
Init == path \in {"serveconn", "listen", "dial"} /\ lim \in Limits /\ (path = "dial" => lim # 0) /\ tmp = 0 /\ now = 0 /\ live = 0 /\ n = 0 /\ unl = 0 /\ ghost = [rej |-> 0, unlended |-> 0, blips |-> 0] /\ hist = <<[op |-> "limit", k |-> lim, admitted |-> 0, live |-> 0]>>

Rec(op, k, adm) == n < MaxOps /\ n' = n + 1 /\ UNCHANGED path /\ hist' = Append(hist, [op |-> op, k |-> k, admitted |-> adm, live |-> live'])

\* one connect: take; a rejected connection is closed, which runs PostDisconnect
\* lim = 0 models "no connection limit configured" (the limiter does not exist: nobody takes a slot);
\* SetLimit then installs a fresh limiter while sessions admitted without one are still alive (unl of them)
ConnectEffect(t, nw) ==
  IF lim = 0 THEN <<t, nw, 1>>
  ELSE IF t + 1 <= lim THEN <<t + 1, nw + 1, 1>>                          \* admitted
  ELSE IF GuardRelease THEN <<t, nw, 0>> ELSE <<t - 1, nw - 1, 0>>      \* rejected (and, unrepaired, a slot released)
Connect == LET r == ConnectEffect(tmp, now) IN
           /\ tmp' = r[1] /\ now' = r[2] /\ live' = live + r[3] /\ unl' = (IF lim = 0 THEN unl + r[3] ELSE unl) /\ UNCHANGED lim /\ Rec("connect", 1, r[3])
           /\ ghost' = [ghost EXCEPT !.rej = Cap2(@ + 1 - r[3])]
Burst(k) == \* k connects one after the other (the code's atomics serialise them)
           LET r1 == ConnectEffect(tmp, now)
               r2 == ConnectEffect(r1[1], r1[2])
               r3 == ConnectEffect(r2[1], r2[2])
               adm == r1[3] + r2[3] + (IF k = 3 THEN r3[3] ELSE 0)
               fin == IF k = 3 THEN r3 ELSE r2
           IN /\ lim # 0 /\ tmp' = fin[1] /\ now' = fin[2] /\ live' = live + adm /\ UNCHANGED <<lim, unl>> /\ Rec("burst", k, adm)
              /\ ghost' = [ghost EXCEPT !.rej = Cap2(@ + k - adm)]
\* sessions end oldest first; one admitted without a limiter holds no slot and releases none
End(kind) == /\ live > 0 /\ live' = live - 1 /\ (kind = "disc" => path # "dial")
             /\ IF unl > 0 THEN unl' = unl - 1 /\ UNCHANGED <<tmp, now>>
                                 /\ ghost' = [ghost EXCEPT !.unlended = IF lim > 0 THEN Cap2(@ + 1) ELSE @]
                           ELSE tmp' = tmp - 1 /\ now' = now - 1 /\ UNCHANGED <<unl, ghost>>
             /\ UNCHANGED lim /\ Rec(kind, 1, 0)
Raise == /\ lim > 0 /\ lim < 3 /\ lim' = lim + 1 /\ UNCHANGED <<tmp, now, live, unl, ghost>> /\ Rec("raise", lim + 1, 0)
SetLimit(k) == /\ lim = 0 /\ lim' = k /\ UNCHANGED <<tmp, now, live, unl, ghost>> /\ Rec("raise", k, 0)
Blip == /\ path = "dial" /\ live > 0 /\ UNCHANGED <<lim, tmp, now, live, unl>> /\ Rec("blip", 1, 0)
        /\ ghost' = [ghost EXCEPT !.blips = 1]
Next == Blip \/ Connect \/ Burst(2) \/ Burst(3) \/ End("disc") \/ End("close") \/ Raise \/ SetLimit(1) \/ SetLimit(2)
Spec == Init /\ [][Next]_vars

\* C18: never more admitted sessions than the limit; the counters describe the admitted sessions exactly
NeverOver   == lim > 0 => live - unl <= lim
CountsExact == tmp = live - unl /\ now = live - unl
Emit == Export = "" \/ Serialize(ToJson([steps |-> hist', path |-> path]) \o "\n", Export,
          [format |-> "TXT", charset |-> "UTF-8", openOptions |-> <<"WRITE", "CREATE", "APPEND">>]).exitValue = 0
=============================================================================
