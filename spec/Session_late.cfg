SPECIFICATION Spec
CONSTANTS
  Calls = {c1}
  Inb = {h1}
  Closers = {k1}
  AtomicRD = TRUE
  LeakFix = TRUE
  BadReplies = FALSE
PROPERTIES NoLateHandler
CHECK_DEADLOCK FALSE
