------------------------------- MODULE PRedial -------------------------------
(* Layer P trace specification for C13: outcomes of calls around connection losses and the state of   *)
(* the redial-enabled session at quiescent points, against the expectations of spec/Redial.tla.       *)
EXTENDS Naturals, Sequences, FiniteSets, TLC, Json, IOUtils
Trace == ndJsonDeserialize(IOEnv.VERIF_TRACE)
N == Len(Trace)
Prop == IF "VERIF_PROP" \in DOMAIN IOEnv THEN IOEnv.VERIF_PROP ELSE "ALL"
G(p, cond) == (Prop = p \/ Prop = "ALL") => cond
VARIABLES l, fired
Ev == Trace[l]
Is(e) == l <= N /\ Ev.ev = e
Step == l' = l + 1 /\ TLCSet(1, l)
Init == l = 1 /\ fired = {} /\ TLCSet(1, 0)
Reset == Is("Reset") /\ fired' = {} /\ Step
\* C09: each (plugin, stage) fires at most once per message, also when the message is re-written after a redial
Hook == Is("Hook") /\ G("C09", Ev.stage = "PreReadHeader" \/ <<Ev.pl, Ev.stage, Ev.seq>> \notin fired)
        /\ fired' = fired \cup {<<Ev.pl, Ev.stage, Ev.seq>>} /\ Step
ConnErr == {102, 104, 105}
\* calls complete (never hang): with the reply when the session is healthy, with a connection error once it ended
CallDone ==
  /\ Is("CallDone")
  /\ G("C13", CASE Ev.expect = "ok" -> Ev.code = 0 /\ Ev.resok
       [] Ev.expect = "connerr" -> Ev.code \in ConnErr
       [] OTHER -> (Ev.code = 0 /\ Ev.resok) \/ Ev.code \in ConnErr)
  /\ UNCHANGED fired /\ Step
\* quiescent points: the same Session value is healthy again after a loss (dial hooks re-run, user id kept),
\* or it has ended: close notification fired, not in the index
Probe ==
  /\ Is("Probe")
  /\ G("C13", IF Ev.expect = "healthy"
       THEN Ev.health /\ ~Ev.notified /\ Ev.indexed /\ Ev.idok /\ (Ev.losses > 0 /\ Ev.budget # 0 => Ev.redialhooks >= 1)
            /\ Ev.count = 1            \* ... and it is the only entry of the client's index (no entry left under a former id)
       ELSE Ev.notified /\ ~Ev.indexed /\ Ev.count = 0)
  /\ UNCHANGED fired /\ Step
\* a call or a wait that did not come to an end is a matter of C13 only (the same traces also serve C09's hook rule)
Hang == (Is("CallHang") \/ Is("WaitHang") \/ Is("LossUndetected")) /\ Prop # "C13" /\ Prop # "ALL" /\ UNCHANGED fired /\ Step
DialDone == Is("DialDone") /\ Ev.ok /\ UNCHANGED fired /\ Step
Known == {"Reset", "Hook", "CallDone", "Probe", "DialDone", "CallHang", "WaitHang", "LossUndetected"}
Skip == l <= N /\ Ev.ev \notin Known /\ UNCHANGED fired /\ Step
Next == Reset \/ Hook \/ CallDone \/ Probe \/ DialDone \/ Hang \/ Skip
Spec == Init /\ [][Next]_<<l, fired>>
Accepted == PrintT(<<"HWM", TLCGet(1), N>>) /\ TRUE
=============================================================================
