------------------------------- MODULE PRedial -------------------------------
(* Layer P trace specification for C13: outcomes of calls around connection losses and the state of   *)
(* the redial-enabled session at quiescent points, against the expectations of spec/Redial.tla.       *)
EXTENDS Naturals, Sequences, FiniteSets, TLC, Json, IOUtils
Trace == ndJsonDeserialize(IOEnv.VERIF_TRACE)
N == Len(Trace)
VARIABLES l
Ev == Trace[l]
Is(e) == l <= N /\ Ev.ev = e
Step == l' = l + 1 /\ TLCSet(1, l)
Init == l = 1 /\ TLCSet(1, 0)
ConnErr == {102, 104, 105}
\* calls complete (never hang): with the reply when the session is healthy, with a connection error once it ended
CallDone ==
  /\ Is("CallDone")
  /\ CASE Ev.expect = "ok" -> Ev.code = 0 /\ Ev.resok
       [] Ev.expect = "connerr" -> Ev.code \in ConnErr
       [] OTHER -> (Ev.code = 0 /\ Ev.resok) \/ Ev.code \in ConnErr
  /\ Step
\* quiescent points: the same Session value is healthy again after a loss (dial hooks re-run, user id kept),
\* or it has ended: close notification fired, not in the index
Probe ==
  /\ Is("Probe")
  /\ IF Ev.expect = "healthy"
       THEN Ev.health /\ ~Ev.notified /\ Ev.indexed /\ Ev.idok /\ (Ev.losses > 0 /\ Ev.budget # 0 => Ev.redialhooks >= 1)
       ELSE Ev.notified /\ ~Ev.indexed
  /\ Step
DialDone == Is("DialDone") /\ Ev.ok /\ Step
Known == {"CallDone", "Probe", "DialDone", "CallHang", "WaitHang", "LossUndetected"}
Skip == l <= N /\ Ev.ev \notin Known /\ Step
Next == CallDone \/ Probe \/ DialDone \/ Skip
Spec == Init /\ [][Next]_l
Accepted == PrintT(<<"HWM", TLCGet(1), N>>) /\ TRUE
=============================================================================
