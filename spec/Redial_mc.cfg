SPECIFICATION Spec
CONSTANTS
  Export = ""
  MaxOps = 7
  Budgets = {0, 2, 3, 99}
VIEW view
INVARIANT NoRedialEnds
PROPERTY EndedStays
CHECK_DEADLOCK FALSE
