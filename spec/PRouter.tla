------------------------------- MODULE PRouter -------------------------------
(* Layer P trace specification for C10: mapper totality/determinism/table, and dispatch exactness. *)
EXTENDS Naturals, Sequences, FiniteSets, TLC, Json, IOUtils
Trace == ndJsonDeserialize(IOEnv.VERIF_TRACE)
N == Len(Trace)
VARIABLES l, table, unknown, rewrite, uid
vars == <<l, table, unknown, rewrite, uid>>
Ev == Trace[l]
Is(e) == l <= N /\ Ev.ev = e
Step == l' = l + 1 /\ TLCSet(1, l)
\* uid: the identity of the unknown handlers that are current ("unknown" in the scenarios that install one pair at most)
Init == l = 1 /\ table = {} /\ unknown = FALSE /\ rewrite = FALSE /\ uid = "unknown" /\ TLCSet(1, 0)
Reset == Is("Reset") /\ table' = {} /\ unknown' = Ev.unknown /\ rewrite' = ("rewrite" \in DOMAIN Ev /\ Ev.rewrite)
         /\ uid' = (IF "uid" \in DOMAIN Ev /\ Ev.uid # "" THEN Ev.uid ELSE "unknown") /\ Step
\* "live" scenarios (Router.tla): the configuration changes while sessions exist.  Before every round of requests the
\* scenario states which unknown handlers are current at that point (copied from the scenario, "" = none); it holds for
\* the requests that follow, whatever the age of the session they are made on
Phase == Is("Phase") /\ unknown' = (Ev.expunknown # "") /\ uid' = (IF Ev.expunknown # "" THEN Ev.expunknown ELSE "unknown")
         /\ UNCHANGED <<table, rewrite>> /\ Step
\* name mapping: total (no panic), deterministic, equal to the documented table where the table speaks
MapCase == Is("MapCase") /\ ~Ev.panicked /\ Ev.out1 = Ev.out2 /\ (Ev.expected # "" => Ev.out1 = Ev.expected)
           /\ UNCHANGED <<table, unknown, rewrite, uid>> /\ Step
\* a registration returns the names of its handler; two registrations never share a name in one namespace
Registered ==
  /\ Is("Registered")
  /\ \A i \in 1..Len(Ev.names) : ~(\E r \in table : r[1] = Ev.ns /\ r[2] = Ev.names[i])
  /\ table' = table \cup {<<Ev.ns, Ev.names[i], Ev.handlers[i]>> : i \in 1..Len(Ev.names)}
  /\ UNCHANGED <<unknown, rewrite, uid>> /\ Step
Owner(ns, name) == IF \E r \in table : r[1] = ns /\ r[2] = name THEN (CHOOSE r \in table : r[1] = ns /\ r[2] = name)[3] ELSE ""
\* a request for a registered name runs exactly its handler; any other name runs the unknown handler if set,
\* else no handler at all and (for a CALL) Not Found; CALL and PUSH are separate namespaces
Request ==
  /\ Is("Request")
     \* with the ignore-case plugin the name that counts is the rewritten (lower-case) one
  /\ LET own == Owner(Ev.ns, IF rewrite THEN Ev.lname ELSE Ev.name) IN
       IF own # "" THEN Ev.ran = <<own>> /\ (Ev.ns = "call" => Ev.code = 0)
       ELSE IF unknown THEN Ev.ran = <<uid \o "-" \o Ev.ns>>
       ELSE Ev.ran = <<>> /\ (Ev.ns = "call" => Ev.code = 404)
  /\ UNCHANGED <<table, unknown, rewrite, uid>> /\ Step
\* two registrations that map to one name make the registration fail (the process exits), never a silent share
Conflict == Is("Conflict") /\ (IF Ev.expectconflict THEN Ev.exit # 0 ELSE Ev.exit = 0) /\ UNCHANGED <<table, unknown, rewrite, uid>> /\ Step
Known == {"Reset", "MapCase", "Registered", "Request", "Conflict", "Phase"}
Skip == l <= N /\ Ev.ev \notin Known /\ UNCHANGED <<table, unknown, rewrite, uid>> /\ Step
Next == Reset \/ MapCase \/ Registered \/ Request \/ Conflict \/ Phase \/ Skip
Spec == Init /\ [][Next]_vars
Accepted == PrintT(<<"HWM", TLCGet(1), N>>) /\ TRUE
=============================================================================
