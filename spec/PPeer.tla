-------------------------------- MODULE PPeer --------------------------------
(***************************************************************************)
(* Layer P trace specification for the peer-level part of C07.             *)
(* From the recorded operations alone (which path, which hook verdicts,    *)
(* which end was closed) it derives, per end of every connection, whether  *)
(* that end is "none", "rej" (its own accept/dial hooks rejected), "up"    *)
(* or "down", and demands at every quiescent probe:                        *)
(*  - an end is healthy, and listed in its peer's index under its id, iff  *)
(*    it is up -- in particular only after its hooks succeeded, never      *)
(*    after a close / cut / peer Close, and the closed state is not left;  *)
(*  - the peers' session counts are exactly the numbers of up ends;        *)
(*  - the accept/dial hook ran exactly once per attempted end, the         *)
(*    disconnect hook exactly once for an established end that ended, not  *)
(*    at all for a live one (at most once for a rejected one);             *)
(*  - the close notification of an ended session has fired;                *)
(*  - a call on a live pair is served, a call on an ended session fails    *)
(*    fast with the connection-closed status;                              *)
(*  - after the server peer's Close() a Dial yields no working session.    *)
(***************************************************************************)
EXTENDS Naturals, Sequences, FiniteSets, TLC, Json, IOUtils
Trace == ndJsonDeserialize(IOEnv.VERIF_TRACE)
N == Len(Trace)
Slots == 1..3
VARIABLES l, srv, cli, lastop
vars == <<l, srv, cli, lastop>>
Ev == Trace[l]
Is(e) == l <= N /\ Ev.ev = e
Step == l' = l + 1 /\ TLCSet(1, l)
Fresh == [s \in Slots |-> "none"]
Init == l = 1 /\ srv = Fresh /\ cli = Fresh /\ lastop = "" /\ TLCSet(1, 0)
Reset == Is("Reset") /\ srv' = Fresh /\ cli' = Fresh /\ lastop' = "" /\ Step

Down(f) == [s \in Slots |-> IF f[s] = "up" THEN "down" ELSE f[s]]
Op ==
  /\ Is("Op") /\ lastop' = Ev.op
  /\ CASE Ev.op = "establish" ->
            \* (a panicking accept hook counts as a rejection; "idmod" hooks succeed after assigning an id and wrapping the connection)
            /\ srv' = [srv EXCEPT ![Ev.slot] = IF Ev.sv \in {"reject", "panic", "idreject"} THEN "rej" ELSE IF Ev.cv = "reject" THEN "down" ELSE "up"]
            /\ cli' = [cli EXCEPT ![Ev.slot] = IF Ev.cv = "reject" THEN "rej" ELSE IF Ev.sv \in {"reject", "panic", "idreject"} THEN "down" ELSE "up"]
       [] Ev.op \in {"closecli", "closesrv", "cut"} ->
            /\ srv' = [srv EXCEPT ![Ev.slot] = "down"] /\ cli' = [cli EXCEPT ![Ev.slot] = "down"]
       [] Ev.op \in {"peerclosesrv", "peerclosecli"} ->
            \* every session of the closed peer ends, and so does the other end of each of them
            /\ srv' = [s \in Slots |-> IF srv[s] = "up" /\ cli[s] = "up" THEN "down" ELSE srv[s]]
            /\ cli' = [s \in Slots |-> IF srv[s] = "up" /\ cli[s] = "up" THEN "down" ELSE cli[s]]
       [] OTHER -> UNCHANGED <<srv, cli>>
  /\ Step

Count(f) == Cardinality({s \in Slots : f[s] = "up"})
SlotProbe ==
  /\ Is("SlotProbe")
  /\ LET s == Ev.slot IN
       /\ Ev.srvhealth = (srv[s] = "up") /\ Ev.clihealth = (cli[s] = "up")         \* healthy iff established and not ended
       /\ Ev.srvlisted = (srv[s] = "up") /\ Ev.clilisted = (cli[s] = "up")         \* indexed iff live
       /\ (srv[s] = "down" /\ Ev.srvhas => Ev.srvnotified) /\ (srv[s] = "up" => ~Ev.srvnotified)
       /\ (cli[s] = "down" /\ Ev.clihas => Ev.clinotified) /\ (cli[s] = "up" => ~Ev.clinotified)
       /\ (srv[s] # "none" => Ev.srvhook = 1) /\ (cli[s] # "none" => Ev.clihook = 1)   \* accept / dial hook exactly once
       /\ (srv[s] = "down" => Ev.srvdisc = 1) /\ (srv[s] = "up" => Ev.srvdisc = 0) /\ Ev.srvdisc <= 1
       /\ (cli[s] = "down" => Ev.clidisc = 1) /\ (cli[s] = "up" => Ev.clidisc = 0) /\ Ev.clidisc <= 1
  /\ UNCHANGED <<srv, cli, lastop>> /\ Step
Probe == Is("Probe") /\ Ev.srvcount = Count(srv) /\ Ev.clicount = Count(cli) /\ Ev.straydisc = 0
         /\ UNCHANGED <<srv, cli, lastop>> /\ Step
CallDone ==
  /\ Is("CallDone")
  /\ IF srv[Ev.slot] = "up" /\ cli[Ev.slot] = "up" THEN Ev.code = 0 /\ Ev.resok
     ELSE Ev.code = 102 /\ ~Ev.resok /\ Ev.ms < 1000                                  \* fails fast, connection closed
  /\ UNCHANGED <<srv, cli, lastop>> /\ Step
DialClosed == Is("DialClosed") /\ ~Ev.working /\ UNCHANGED <<srv, cli, lastop>> /\ Step
\* CallHang, DialHang, CloseHang are never accepted (Stuck / SetupFailed are harness notes: what led to them was judged before)
\* (SwapLost -- an entry stored in a session's swap by one of several goroutines is gone -- is information for the race
\*  check C14, which runs the same histories under the race detector; it is not a matter of C07 and is skipped here)
Known == {"Reset", "Op", "SlotProbe", "Probe", "CallDone", "DialClosed", "CallHang", "DialHang", "CloseHang"}
Skip == l <= N /\ Ev.ev \notin Known /\ UNCHANGED <<srv, cli, lastop>> /\ Step
Next == Reset \/ Op \/ SlotProbe \/ Probe \/ CallDone \/ DialClosed \/ Skip
Spec == Init /\ [][Next]_vars
Accepted == PrintT(<<"HWM", TLCGet(1), N>>) /\ TRUE
=============================================================================
