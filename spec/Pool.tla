-------------------------------- MODULE Pool --------------------------------
(***************************************************************************)
(* Operation-sequence space for C20 (recycled objects behave like fresh    *)
(* ones): for each pooled kind every sequence of at most MaxMut mutators   *)
(* applied by the previous user before the object returns to its pool,     *)
(* followed by one operation of the next user; the observation vector (all *)
(* public getters, and the bytes produced by packing with only new fields  *)
(* set) of the recycled object must equal that of a freshly constructed    *)
(* one (differential oracle: expect = "fresh").                            *)
(***************************************************************************)
EXTENDS Naturals, Sequences, FiniteSets, TLC, Json, IOUtils
CONSTANTS Export, MaxMut
MsgMut  == {"seq", "mtype", "method", "status", "metaadd", "metaset", "body", "newbody", "codec", "pipe", "ctx", "size"}
\* the previous user obtained its message with GetMessage(settings...): the settings are applied in order; "badpipe" is a
\* setting that panics (WithXferPipe with an unregistered filter id, documented to panic; Session.Push / Call recover
\* from it and report Bad Message) -- whatever the settings before it did must not reach the next user of the pool
GetSet  == {"setmeta", "method", "body", "status", "pipeg", "badpipe"}
ArgsMut == {"add", "addempty", "set", "parse", "parsebare", "del"}
\* "concclose": the previous user closes the socket from two goroutines at the same moment (a reader that
\* gives up on an error while the owner shuts down): the socket must return to the pool once
SockMut == {"setid", "swapstore", "swapreplace", "concclose"}
PipeMut == {"appendg", "appendm", "appendgm"}
\* what request 1 used; "ctxage": it was handled under a session context age (the handler context got a deadline context);
\* "callctx": the peer then made a call of its own with a caller-supplied context, whose reply a pooled context processed
CtxFeat == {"meta", "pipe", "codec", "outmeta", "outcodec", "swap", "status", "ctxage", "callctx"}
\* previous uses that END NOT OK and so leave a status on the pooled context that handled them (process-wide pool): a call
\* answered with the handler's error / "not found" / "bad message" (undecodable argument) -- the status stays on the
\* serving side's context and, through the reply, on the CALLING side's; a push handled with an error / not found; a
\* frame of an unsupported type (the session ends, the next user works on a new session of the same peers).
\* They run after request 1, in the order given; the next user's operation is the first one after them
CtxBad  == {"callerr", "callnotfound", "callbadbody", "pusherr", "pushnotfound", "badmtype"}
\* next = "call" / "push": the next user sends a call / a push; the observation vector is what the serving handler sees
\* of its context, the reply, and what the SENDING side's PreWriteCall / PostWriteCall resp. PreWritePush / PostWritePush
\* plugins see through the WriteCtx they are given (a pooled handler context in the case of a push): status nil-ness and
\* code, StatusOK, the output message's fields, swap length
Seqs(S, n) == UNION {[1..k -> S] : k \in 0..n}
Cases ==
       {[fam |-> "pool", kind |-> "message", muts |-> q, next |-> nx, expect |-> "fresh"] : q \in Seqs(MsgMut, MaxMut), nx \in {"observe", "pack"}}
  \cup {[fam |-> "pool", kind |-> "getmessage", muts |-> q, next |-> nx, expect |-> "fresh"] : q \in Seqs(GetSet, 3), nx \in {"observe", "pack"}}
  \cup {[fam |-> "pool", kind |-> "args", muts |-> q, next |-> nx, expect |-> "fresh"] : q \in Seqs(ArgsMut, MaxMut), nx \in {"observe", "parsebare", "add", "set"}}
  \cup {[fam |-> "pool", kind |-> "socket", muts |-> q, next |-> "observe", expect |-> "fresh"] : q \in Seqs(SockMut, 3)}
  \cup {[fam |-> "pool", kind |-> "xferpipe", muts |-> q, next |-> "observe", expect |-> "fresh"] : q \in Seqs(PipeMut, 2)}
  \cup {[fam |-> "pool", kind |-> "ctx", muts |-> q, next |-> nx, expect |-> "fresh"] :
          q \in {s \in Seqs(CtxFeat, 3) : \A i, j \in 1..Len(s) : i < j => s[i] # s[j]}, nx \in {"call", "push"}}
  \cup {[fam |-> "pool", kind |-> "ctx", muts |-> q, next |-> nx, expect |-> "fresh"] :
          q \in {s \in Seqs(CtxFeat \cup CtxBad, 2) : /\ \E i \in 1..Len(s) : s[i] \in CtxBad
                                                    /\ \A i, j \in 1..Len(s) : i < j /\ s[i] \in CtxBad => s[j] \in CtxBad}, nx \in {"call", "push"}}
VARIABLES c, done
vars == <<c, done>>
Init == c \in Cases /\ done = FALSE
Run == ~done /\ done' = TRUE /\ UNCHANGED c
Spec == Init /\ [][Run]_vars
OracleSane == c.expect = "fresh"
Emit == Export = "" \/ Serialize(ToJson(c) \o "\n", Export,
          [format |-> "TXT", charset |-> "UTF-8", openOptions |-> <<"WRITE", "CREATE", "APPEND">>]).exitValue = 0
=============================================================================
