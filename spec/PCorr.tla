-------------------------------- MODULE PCorr --------------------------------
(***************************************************************************)
(* Layer P trace specification for C01: every handler and push receiver    *)
(* sees exactly the body and metadata its sender supplied (also when read  *)
(* again at handler exit), every OK call result is F(own argument) with    *)
(* the own padding and G(own metadata); no foreign byte is observable.     *)
(* All values are unique tags, so any mix-up makes a comparison fail.      *)
(***************************************************************************)
EXTENDS Naturals, Sequences, FiniteSets, TLC, Json, IOUtils
Trace == ndJsonDeserialize(IOEnv.VERIF_TRACE)
N == Len(Trace)
VARIABLES l, issued, entered, ok, calls, exps
vars == <<l, issued, entered, ok, calls, exps>>
Ev == Trace[l]
Is(e) == l <= N /\ Ev.ev = e
Step == l' = l + 1 /\ TLCSet(1, l)
Init == l = 1 /\ issued = {} /\ entered = {} /\ ok = 0 /\ calls = 0 /\ exps = {} /\ TLCSet(1, 0)

Reset == Is("Reset") /\ issued' = {} /\ entered' = {} /\ ok' = 0 /\ calls' = 0 /\ exps' = {} /\ Step
Exp(e) == IF "exp" \in DOMAIN e THEN e.exp ELSE "ok"
ExpOf(c) == IF \E x \in exps : x[1] = c THEN (CHOOSE x \in exps : x[1] = c)[2] ELSE "ok"
CallStart ==
  /\ Is("CallStart") /\ ~(\E x \in issued : x[2] = Ev.c)
  /\ issued' = issued \cup {<<Ev.kind, Ev.c, Ev.padlen, Ev.padsum>>}
     \* exp: what this call is made to end in ("ok"; "hstat" the handler returns a status of its own; "nf" the route does not exist)
  /\ calls' = calls + (IF Ev.kind = "call" /\ Exp(Ev) = "ok" THEN 1 ELSE 0)
  /\ exps' = exps \cup {<<Ev.c, Exp(Ev)>>}
  /\ UNCHANGED <<entered, ok>> /\ Step
\* the receiver sees exactly one issued message of that kind: same tag, same padding, own metadata
HEnter ==
  /\ Is("HEnter")
  /\ <<Ev.kind, Ev.arg, Ev.padlen, Ev.padsum>> \in issued
  /\ Ev.arg \notin entered
  /\ Ev.metaok        \* the complete metadata (every key in order, empty values, repeated keys) is the sender's
  /\ ExpOf(Ev.arg) # "nf"            \* no handler runs for a route that does not exist
  /\ entered' = entered \cup {Ev.arg} /\ UNCHANGED <<issued, ok, calls, exps>> /\ Step
\* ... and still the same at handler exit
HRecheck == Is("HRecheck") /\ Ev.same /\ UNCHANGED <<issued, entered, ok, calls, exps>> /\ Step
\* an OK result is the reply to this very call
CallDone ==
  /\ Is("CallDone")
  /\ (Ev.code = 0 => Ev.okres /\ Ev.okpad /\ Ev.okmeta /\ Ev.c \in entered)
     \* among concurrent calls each one ends in what ITS handler did: the status (code, message) of its own handler, or Not Found
  /\ CASE ExpOf(Ev.c) = "hstat" -> Ev.code = 1001 /\ Ev.msg = "m-" \o Ev.c /\ Ev.c \in entered
       [] ExpOf(Ev.c) = "nf" -> Ev.code = 404 /\ Ev.c \notin entered
       [] OTHER -> TRUE
  /\ ok' = ok + (IF Ev.code = 0 THEN 1 ELSE 0) /\ UNCHANGED <<issued, entered, calls, exps>> /\ Step
\* non-vacuity: on a healthy connection every call of the workload completed OK
End == Is("End") /\ ok = calls /\ Ev.finished = Ev.started /\ UNCHANGED <<issued, entered, ok, calls, exps>> /\ Step
\* what a finished call handed to its caller (status, reply metadata) is still the same when the workload is over
Held == Is("Held") /\ Ev.changed = 0 /\ UNCHANGED <<issued, entered, ok, calls, exps>> /\ Step
Known == {"Reset", "CallStart", "HEnter", "HRecheck", "CallDone", "End", "Held", "CallHang", "WorkloadHang", "SetupFailed"}
Skip == l <= N /\ Ev.ev \notin Known /\ UNCHANGED <<issued, entered, ok, calls, exps>> /\ Step
Next == Reset \/ CallStart \/ HEnter \/ HRecheck \/ CallDone \/ End \/ Held \/ Skip
Spec == Init /\ [][Next]_vars
Accepted == PrintT(<<"HWM", TLCGet(1), N>>) /\ TRUE
=============================================================================
