SPECIFICATION Spec
CONSTANTS
  Calls = {c1, c2}
  Inb = {h1}
  Closers = {k1}
  AtomicRD = TRUE
  LeakFix = TRUE
  BadReplies = TRUE
  EarlyReplies <- SwitchOn
INVARIANTS TypeOK DoneAtMostOnce HookAtMostOnce NoHang CloseReturns ClosedClean DeadIsClosed GracefulReply CloseWaits ReplyWins
PROPERTIES ClosedStable StatusEdges
CHECK_DEADLOCK FALSE
