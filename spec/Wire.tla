-------------------------------- MODULE Wire --------------------------------
(***************************************************************************)
(* Abstract test space and oracle for C05 (wire protocols round-trip and   *)
(* keep frame sync).  A message is a vector of field classes; the space is *)
(* every vector that differs from the all-default message in at most K     *)
(* fields, for every shipped protocol and three chunkings of the byte      *)
(* stream.  Supported(proto, field, class) is the documented field set of  *)
(* each protocol; a vector inside it must round-trip field by field, keep  *)
(* frame sync in a stream of three back-to-back frames and report a size   *)
(* that does not depend on the preceding traffic.  The receiver decodes    *)
(* every stream twice: into fresh message objects, and into ONE message    *)
(* object that is Reset between frames after it has received an unrelated  *)
(* "primer" frame (what a session's reader does with pooled messages).     *)
(***************************************************************************)
EXTENDS Naturals, Sequences, FiniteSets, TLC, Json, IOUtils
CONSTANTS Export, K

Protos == {"raw", "json", "pb", "thriftbin", "wsjson", "wspb"}
Classes == [ seq    |-> {"one", "zero", "neg1", "max", "min"},
             mtype  |-> {"1", "2", "3"},
             method |-> {"short", "empty", "len255", "special", "utf8"},
             status |-> {"nil", "code", "full", "special", "neg", "maxcode"},
             meta   |-> {"none", "one", "repeated", "emptyval", "emptylast", "special", "big"},
             codec  |-> {"j", "s", "nil0", "p"},
             body   |-> {"b1", "empty", "b255", "b256", "b65535", "quotes", "backslash", "control", "nonutf8"},
             pipe   |-> {"none", "g", "m", "gm"} ]
Fields == DOMAIN Classes
Default == [seq |-> "one", mtype |-> "1", method |-> "short", status |-> "nil", meta |-> "none",
            codec |-> "j", body |-> "b1", pipe |-> "none"]
Diff(v) == Cardinality({f \in Fields : v[f] # Default[f]})
Vectors == {v \in [seq : Classes.seq, mtype : Classes.mtype, method : Classes.method, status : Classes.status,
                   meta : Classes.meta, codec : Classes.codec, body : Classes.body, pipe : Classes.pipe] : Diff(v) <= K}

TextProtos == {"json", "wsjson"}      \* the body travels inside a JSON string
Supported(p, f, cl) ==
  CASE f = "body" /\ p \in TextProtos -> cl \notin {"control", "nonutf8"}
    [] OTHER -> TRUE
VecSupported(p, v) == \A f \in Fields : Supported(p, f, v[f])
Streamed(p) == p \notin {"wsjson", "wspb"}     \* the websocket sub-protocols are framed by websocket messages

Cases == {[fam |-> "wire", proto |-> p, vec |-> v, chunk |-> ch,
           expect |-> IF VecSupported(p, v) THEN "roundtrip" ELSE "unspecified"] :
            p \in Protos, v \in Vectors, ch \in {"one", "mixed", "full"}}

VARIABLES c, done
vars == <<c, done>>
Init == c \in {x \in Cases : Streamed(x.proto) \/ x.chunk = "full"} /\ done = FALSE
Run == ~done /\ done' = TRUE /\ UNCHANGED c
Spec == Init /\ [][Run]_vars
OracleSane == c.expect = "roundtrip" <=> VecSupported(c.proto, c.vec)
Emit == Export = "" \/ Serialize(ToJson(c) \o "\n", Export,
          [format |-> "TXT", charset |-> "UTF-8", openOptions |-> <<"WRITE", "CREATE", "APPEND">>]).exitValue = 0
=============================================================================
