-------------------------------- MODULE Wire --------------------------------
(***************************************************************************)
(* Abstract test space and oracle for C05 (wire protocols round-trip and   *)
(* keep frame sync).  A message is a vector of field classes; the space is *)
(* every vector that differs from the all-default message in at most K     *)
(* fields, for every shipped protocol and three chunkings of the byte      *)
(* stream.  Supported(proto, field, class) is the documented field set of  *)
(* each protocol; a vector inside it must round-trip field by field, keep  *)
(* frame sync in a stream of three back-to-back frames and report a size   *)
(* that does not depend on the preceding traffic.  The receiver decodes    *)
(* every stream twice: into fresh message objects, and into ONE message    *)
(* object that is Reset between frames after it has received an unrelated  *)
(* "primer" frame (what a session's reader does with pooled messages).     *)
(***************************************************************************)
EXTENDS Naturals, Sequences, FiniteSets, TLC, Json, IOUtils
CONSTANTS Export, K

Protos == {"raw", "json", "pb", "thriftbin", "wsjson", "wspb", "http", "thriftstruct"}
Classes == [ seq    |-> {"one", "zero", "neg1", "max", "min"},
             mtype  |-> {"1", "2", "3"},
             method |-> {"short", "empty", "len255", "special", "utf8"},
             status |-> {"nil", "code", "full", "special", "neg", "maxcode"},
             meta   |-> {"none", "one", "repeated", "emptyval", "emptylast", "special", "big"},
             codec  |-> {"j", "s", "nil0", "p"},
             body   |-> {"b1", "empty", "b255", "b256", "b65535", "quotes", "backslash", "control", "nonutf8"},
             pipe   |-> {"none", "g", "m", "gm"} ]
Fields == DOMAIN Classes
Default == [seq |-> "one", mtype |-> "1", method |-> "short", status |-> "nil", meta |-> "none",
            codec |-> "j", body |-> "b1", pipe |-> "none"]
Diff(v) == Cardinality({f \in Fields : v[f] # Default[f]})
Vectors == {v \in [seq : Classes.seq, mtype : Classes.mtype, method : Classes.method, status : Classes.status,
                   meta : Classes.meta, codec : Classes.codec, body : Classes.body, pipe : Classes.pipe] : Diff(v) <= K}

TextProtos == {"json", "wsjson"}      \* the body travels inside a JSON string
Supported(p, f, cl) ==
  CASE f = "body" /\ p \in TextProtos -> cl \notin {"control", "nonutf8"}
    [] OTHER -> TRUE
\* The HTTP-style protocol (documented: CALL and REPLY only, gzip filter only, body codec through the content type, the
\* service method is the request path, a reply carries its status -- an error reply carries the status INSTEAD of a body --,
\* metadata is mapped onto HTTP headers and therefore outside the round-trip claim):
HttpOK(v) == /\ v.mtype \in {"1", "2"} /\ v.codec \in {"j", "s", "p"} /\ v.pipe \in {"none", "g"} /\ v.meta \in {"none", "one"}
             /\ (v.mtype = "1" => v.method \in {"short", "len255"} /\ v.status = "nil")
             /\ (v.mtype = "2" => v.method = "short")
HttpCompare(v) == {"seq", "mtype", "pipe"} \cup (IF v.mtype = "1" THEN {"method", "body", "codec"}
                                                  ELSE {"status"} \cup (IF v.status = "nil" THEN {"body", "codec"} ELSE {}))
\* The thrift struct protocol (documented: the body is a thrift struct encoded in place, metadata supported,
\* body codec and transfer filters not supported): the harness sends its thrift document type, the body bytes are its blob
ThriftStructOK(v) == v.codec \in {"j", "nil0"} /\ v.pipe = "none"
VecSupported(p, v) == CASE p = "http" -> HttpOK(v)
                        [] p = "thriftstruct" -> ThriftStructOK(v)
                        [] OTHER -> \A f \in Fields : Supported(p, f, v[f])
\* the fields the receiver must reproduce (all of them, except where the protocol documents otherwise)
Compare(p, v) == CASE p = "http" -> HttpCompare(v)
                   [] p = "thriftstruct" -> Fields \ {"codec"}
                   [] OTHER -> Fields
Streamed(p) == p \notin {"wsjson", "wspb"}     \* the websocket sub-protocols are framed by websocket messages

Cases == {[fam |-> "wire", proto |-> p, vec |-> v, chunk |-> ch, compare |-> Compare(p, v),
           expect |-> IF VecSupported(p, v) THEN "roundtrip" ELSE "unspecified"] :
            p \in Protos, v \in Vectors, ch \in {"one", "mixed", "full"}}

VARIABLES c, done
vars == <<c, done>>
Init == c \in {x \in Cases : Streamed(x.proto) \/ x.chunk = "full"} /\ done = FALSE
Run == ~done /\ done' = TRUE /\ UNCHANGED c
Spec == Init /\ [][Run]_vars
OracleSane == c.expect = "roundtrip" <=> VecSupported(c.proto, c.vec)
Emit == Export = "" \/ Serialize(ToJson(c) \o "\n", Export,
          [format |-> "TXT", charset |-> "UTF-8", openOptions |-> <<"WRITE", "CREATE", "APPEND">>]).exitValue = 0
=============================================================================
