-------------------------------- MODULE PAuth --------------------------------
(***************************************************************************)
(* Layer P trace specification for C16: with the auth checker installed no *)
(* handler and no message hook runs for a connection whose authentication  *)
(* exchange has not completed successfully, whatever the client sends      *)
(* first; the exchange happens exactly once and precedes every message;    *)
(* a rejected connection is closed and never listed as a session; after a  *)
(* successful exchange the pipelined frames are handled exactly once.      *)
(***************************************************************************)
EXTENDS Naturals, Sequences, FiniteSets, TLC, Json, IOUtils
Trace == ndJsonDeserialize(IOEnv.VERIF_TRACE)
N == Len(Trace)
VARIABLES l, cfg, verdicts, authok, rejected, enters, hooks, complete
vars == <<l, cfg, verdicts, authok, rejected, enters, hooks, complete>>
Ev == Trace[l]
Is(e) == l <= N /\ Ev.ev = e
Step == l' = l + 1 /\ TLCSet(1, l)
Init == l = 1 /\ cfg = [pipe |-> "none"] /\ verdicts = 0 /\ authok = FALSE /\ rejected = FALSE /\ enters = {} /\ hooks = 0 /\ complete = TRUE /\ TLCSet(1, 0)
\* complete: the client has sent (or is just about to send) the last byte of its first frame.  A client that delivers its first
\* frame in two pieces (timing = "split") starts with an incomplete frame.
Reset == Is("Reset") /\ cfg' = Ev /\ verdicts' = 0 /\ authok' = FALSE /\ rejected' = FALSE /\ enters' = {} /\ hooks' = 0
         /\ complete' = ~("timing" \in DOMAIN Ev /\ Ev.timing = "split") /\ Step

\* the exchange happens at most once per connection; it succeeds only for a token that THIS client sent and that is valid
\* (whatever other connections of the process send meanwhile)
GoodFirsts == {"authgood", "authsetidgood", "authgoodbytes"}
\* no verdict of the checker (it follows from bytes this client never sent), no message hook and no handler before the
\* client's first frame is complete; while it pauses after the first piece the client sees no frame of any kind
AuthOK   == Is("AuthOK")   /\ complete /\ cfg.first \in GoodFirsts /\ verdicts = 0 /\ verdicts' = 1 /\ authok' = TRUE /\ UNCHANGED <<cfg, rejected, enters, hooks, complete>> /\ Step
AuthFail == Is("AuthFail") /\ complete /\ verdicts = 0 /\ verdicts' = 1 /\ UNCHANGED <<cfg, authok, rejected, enters, hooks, complete>> /\ Step
HookReject == Is("HookReject") /\ rejected' = TRUE /\ UNCHANGED <<cfg, verdicts, authok, enters, hooks, complete>> /\ Step
Established == authok /\ ~rejected
\* no message hook and no handler without a completed exchange; each pipelined frame handled at most once
Hook   == Is("Hook")   /\ complete /\ Established /\ hooks' = hooks + 1 /\ UNCHANGED <<cfg, verdicts, authok, rejected, enters, complete>> /\ Step
HEnter == Is("HEnter") /\ complete /\ Established /\ Ev.seq \notin enters /\ enters' = enters \cup {Ev.seq}
          /\ UNCHANGED <<cfg, verdicts, authok, rejected, hooks, complete>> /\ Step
NPipe == CASE cfg.pipe = "none" -> 0 [] cfg.pipe = "callpush" -> 2 [] OTHER -> 1
Quiesce ==
  /\ Is("Quiesce")
  /\ IF Established
       THEN /\ Ev.listed /\ Ev.count = 1 /\ ~Ev.clienteof
            /\ Cardinality(enters) = NPipe                              \* handled exactly once
            /\ Ev.authreplies = 1 /\ Ev.callreplies = (IF cfg.pipe \in {"call", "callpush"} THEN 1 ELSE 0)
       ELSE /\ ~Ev.listed /\ Ev.count = 0 /\ Ev.clienteof /\ Ev.serverclosed   \* closed by the server, not listed (under any id)
            /\ enters = {} /\ hooks = 0 /\ Ev.callreplies = 0
  /\ UNCHANGED <<cfg, verdicts, authok, rejected, enters, hooks, complete>> /\ Step
ClientWatch == Is("ClientWatch") /\ (~complete => Ev.authreplies = 0 /\ Ev.callreplies = 0 /\ Ev.otherframes = 0)
               /\ UNCHANGED <<cfg, verdicts, authok, rejected, enters, hooks, complete>> /\ Step
ClientComplete == Is("ClientComplete") /\ complete' = TRUE /\ UNCHANGED <<cfg, verdicts, authok, rejected, enters, hooks>> /\ Step
Known == {"ClientWatch", "ClientComplete", "Reset", "AuthOK", "AuthFail", "HookReject", "Hook", "HEnter", "Quiesce", "ServeHang"}
Skip == l <= N /\ Ev.ev \notin Known /\ UNCHANGED <<cfg, verdicts, authok, rejected, enters, hooks, complete>> /\ Step
Next == Reset \/ ClientWatch \/ ClientComplete \/ AuthOK \/ AuthFail \/ HookReject \/ Hook \/ HEnter \/ Quiesce \/ Skip
Spec == Init /\ [][Next]_vars
Accepted == PrintT(<<"HWM", TLCGet(1), N>>) /\ TRUE
=============================================================================
