SPECIFICATION Spec
CONSTANTS
  Export = ""
INVARIANTS NoHandlerWithoutAuth NoReaderWithoutAuth NotListedWithoutAuth ExchangeOnce RejectedIsClosed
CHECK_DEADLOCK FALSE
