SPECIFICATION Spec
CONSTANTS
  Export = ""
INVARIANTS NoHandlerWithoutAuth NoReaderWithoutAuth NotListedWithoutAuth ExchangeOnce RejectedIsClosed NoVerdictBeforeFrame
CHECK_DEADLOCK FALSE
