----------------------------- MODULE RedialSched -----------------------------
(***************************************************************************)
(* Schedule families for the redial machinery of a dialled session: the    *)
(* generator that binds spec/RedialM.tla (the step-level model, checked    *)
(* exhaustively) to the real code.  RedialM quantifies over all schedules  *)
(* of reader, callers and Close() inside one loss; the real code is driven *)
(* through the families of those schedules that the `vp` hold points can   *)
(* force: the goroutine that handles the loss (the reader, or whoever      *)
(* reaches the point first) is parked at one of the action boundaries of   *)
(* RedialM, the other parties act, the parked goroutine is released, and   *)
(* the session is judged at quiescence by spec/PRedialM.tla with the       *)
(* schedule-independent rules of C13 / C07 / C02 / C08:                    *)
(*   - every call and every Close() comes to an end;                       *)
(*   - the session is then either fully alive (healthy, indexed, not       *)
(*     notified, a fresh call succeeds) or has ended (notified, not        *)
(*     indexed, disconnect hook once), nothing in between;                 *)
(*   - alive if the server was reachable all the time and nobody closed;   *)
(*   - closed for good (unhealthy, calls fail fast) once Close() returned. *)
(*                                                                         *)
(* kind "lossrace":  loss, a goroutine parked at `park`, the operations of *)
(*                   `during` issued (asynchronously) while it is parked,  *)
(*                   optionally a caller parked at `wpark`, then releases. *)
(* kind "closerace": no loss: a call in flight to a slow handler, Close()  *)
(*                   (waits for it), `during` issued meanwhile, then the   *)
(*                   handler replies.                                      *)
(***************************************************************************)
EXTENDS Naturals, Sequences, FiniteSets, TLC, Json, IOUtils
CONSTANTS Export

\* action boundaries of RedialM at which the loss-handling goroutine can be parked (hold point after the action)
ParkPoints == {"none",
               "rd.loaded", "rd.stored", "rd.deleted", "rd.waited", "rd.cancelled", "rd.sock",   \* readDisconnected
               "redial.locked", "redial.begin", "redial.failed", "redial.ok", "redial.indexed", "redial.reader",
               "rd.redialfailed"}
\* points at which a caller can be parked
WParks == {"none", "call.stored", "write.refused"}
\* what the other parties do while the goroutine is parked (in this order, each asynchronously)
Durings == {<<>>, <<"call">>, <<"close">>, <<"call", "close">>, <<"close", "call">>, <<"call", "call">>,
            <<"up">>, <<"call", "up">>, <<"up", "call">>, <<"hookbad">>, <<"call", "hookbad">>, <<"hookbad", "call">>}

Loss == [kind : {"lossrace"}, loss : {"cut", "down"}, park : ParkPoints, wpark : WParks, during : Durings, after : {"stay", "up"}]
Close == [kind : {"closerace"}, loss : {"none"}, park : {"none"}, wpark : {"none"}, during : {<<"call">>, <<"call", "call">>, <<"cut">>, <<"call", "cut">>}, after : {"stay"}]

\* Directed choreographies, each a TLC counterexample of the model with one repair switched off that needs more than one
\* parked goroutine (three connection generations), plus the early reply of a hostile remote (Session.tla, EarlyReplies):
\*   stalereader  reader 0 parked before it closes the socket; a call redials (connection 1); reader 0 closes connection 1;
\*                reader 1 parked with its read error; a call redials again (connection 2); the stale reader 1 goes on
\*   latecancel   the same up to reader 1, with a call in flight on connection 1 and the server refusing new connections:
\*                the second call loses its round, reader 0 ends the session, reader 1 finds it ended
\*   earlyreply   a scripted remote answers a call that is still inside AsyncCall and whose write then fails; later Close()
Directed == {[kind |-> "stalereader", loss |-> "cut", park |-> "none", wpark |-> "none", during |-> <<>>, after |-> "stay"],
             [kind |-> "latecancel", loss |-> "down", park |-> "none", wpark |-> "none", during |-> <<>>, after |-> "up"],
             [kind |-> "earlyreply", loss |-> "redial", park |-> "none", wpark |-> "none", during |-> <<>>, after |-> "stay"],
             [kind |-> "earlyreply", loss |-> "plain", park |-> "none", wpark |-> "none", during |-> <<>>, after |-> "stay"],
             \* nestedcall (no redial; replayed by the check of C02 only): the server calls a handler of this side, which calls the
             \* server back on its own session and waits; the connection is then lost: the nested call is a call in flight
             [kind |-> "nestedcall", loss |-> "cut", park |-> "none", wpark |-> "none", during |-> <<>>, after |-> "stay"]}

Has(c, x) == \E i \in 1..Len(c.during) : c.during[i] = x
OK(c) ==
  /\ (c.kind = "lossrace" =>
        /\ (Has(c, "up") => c.loss = "down")                       \* the server can only come back if it went away
        /\ (c.after = "up" => c.loss = "down" /\ ~Has(c, "up"))
        /\ (c.wpark # "none" => Has(c, "call"))                    \* a caller can only be parked if there is one
        /\ (c.park \in {"redial.failed", "rd.redialfailed"} => c.loss = "down" \/ Has(c, "hookbad")))   \* a round only fails without a server or with a rejecting hook
\* the server was reachable (and the dial hook accepting) during the whole scenario
AlwaysUp(c) == c.loss # "down" /\ ~Has(c, "hookbad")
Closed(c)   == c.kind \in {"closerace", "earlyreply", "nestedcall"} \/ Has(c, "close")

VARIABLES c, done
vars == <<c, done>>
Init == c \in {x \in Loss \cup Close : OK(x)} \cup Directed /\ done = FALSE
Run == ~done /\ done' = TRUE /\ UNCHANGED c
Spec == Init /\ [][Run]_vars
Sane == (c.kind = "closerace" => Closed(c)) /\ (AlwaysUp(c) => c.after = "stay")
Emit == Export = "" \/
  Serialize(ToJson([kind |-> c.kind, loss |-> c.loss, park |-> c.park, wpark |-> c.wpark, during |-> c.during, after |-> c.after,
                    alwaysup |-> AlwaysUp(c), closed |-> Closed(c)]) \o "\n", Export,
            [format |-> "TXT", charset |-> "UTF-8", openOptions |-> <<"WRITE", "CREATE", "APPEND">>]).exitValue = 0
=============================================================================
