------------------------------ MODULE POverload ------------------------------
(***************************************************************************)
(* Layer P trace specification for C18.  Connection limit: a connect is    *)
(* admitted iff fewer than N admitted sessions are live (so a rejected     *)
(* connection consumes no slot and every ended session frees exactly one); *)
(* at every quiescent point the live, working sessions are exactly the     *)
(* admitted ones and never more than N.  Rate limit: the calls admitted in *)
(* a burst never exceed the tokens that can be in the bucket (capacity,    *)
(* refilled by `once` per elapsed tick, one tick of slack); every rejected *)
(* call gets an error reply and no handler.                                *)
(***************************************************************************)
EXTENDS Naturals, Integers, Sequences, FiniteSets, TLC, Json, IOUtils
Trace == ndJsonDeserialize(IOEnv.VERIF_TRACE)
N == Len(Trace)
VARIABLES l, lim, live, tokens, cap, once, unl
vars == <<l, lim, live, tokens, cap, once, unl>>
Ev == Trace[l]
Is(e) == l <= N /\ Ev.ev = e
Step == l' = l + 1 /\ TLCSet(1, l)
\* unl: live sessions that were admitted while no limit was configured (they count against no limit)
Init == l = 1 /\ lim = 0 /\ live = 0 /\ unl = 0 /\ tokens = 0 /\ cap = 0 /\ once = 0 /\ TLCSet(1, 0)
Reset == Is("Reset") /\ lim' = 0 /\ live' = 0 /\ unl' = 0 /\ tokens' = Ev.cap /\ cap' = Ev.cap /\ once' = Ev.once /\ Step
Min(a, b) == IF a < b THEN a ELSE b
Op ==
  /\ Is("Op")
  /\ CASE Ev.op = "limit" -> lim' = Ev.k /\ UNCHANGED <<live, unl>>
       [] Ev.op = "raise" -> lim' = Ev.k /\ UNCHANGED <<live, unl>>
       [] Ev.op \in {"connect", "burst"} ->
            IF lim = 0 THEN Ev.admitted = Ev.k /\ live' = live + Ev.k /\ unl' = unl + Ev.k /\ UNCHANGED lim     \* no limit: everybody is admitted
            ELSE /\ Ev.admitted = Min(Ev.k, lim - (live - unl))      \* admitted iff a slot is free
                 /\ live' = live + Ev.admitted /\ UNCHANGED <<lim, unl>>
       [] Ev.op = "blip" -> UNCHANGED <<lim, live, unl>>       \* a re-dialled session is the same admitted session
       [] Ev.op \in {"disc", "close"} -> live' = live - 1 /\ unl' = (IF unl > 0 THEN unl - 1 ELSE 0) /\ UNCHANGED lim   \* oldest first
  /\ UNCHANGED <<tokens, cap, once>> /\ Step
Probe == Is("Probe") /\ Ev.count = live /\ Ev.working = live /\ (lim > 0 => live - unl <= lim) /\ Ev.rejectedopen = 0
         /\ UNCHANGED <<lim, live, unl, tokens, cap, once>> /\ Step
\* a burst of calls after `ticks` elapsed refill ticks (upper bound, one tick of slack)
Calls ==
  /\ Is("Calls")
  /\ LET avail == Min(cap, tokens + (Ev.ticks + 1) * once) IN
       /\ Ev.admitted <= avail + 1
       /\ Ev.handlers = Ev.admitted                    \* rejected calls are not handled
       /\ Ev.rejected = Ev.sent - Ev.admitted /\ Ev.rejectederr = Ev.rejected   \* ... and get an error reply
       /\ tokens' = IF avail - Ev.admitted < 0 THEN 0 ELSE avail - Ev.admitted
  /\ UNCHANGED <<lim, live, unl, cap, once>> /\ Step
\* a new plugin instance: its bucket starts full
Fresh == Is("Fresh") /\ tokens' = cap /\ UNCHANGED <<lim, live, unl, cap, once>> /\ Step
Known == {"Reset", "Op", "Probe", "Calls", "Stuck", "Fresh"}
Skip == l <= N /\ Ev.ev \notin Known /\ UNCHANGED <<lim, live, unl, tokens, cap, once>> /\ Step
Next == Reset \/ Op \/ Probe \/ Calls \/ Fresh \/ Skip
Spec == Init /\ [][Next]_vars
Accepted == PrintT(<<"HWM", TLCGet(1), N>>) /\ TRUE
=============================================================================
