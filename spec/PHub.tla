-------------------------------- MODULE PHub --------------------------------
(***************************************************************************)
(* Layer P trace specification for the session index part of C07:          *)
(* "At every quiescent point the peer's session index contains exactly the *)
(* live sessions, each under its current id, including after id changes    *)
(* and after a newer session takes over an id (which closes the older      *)
(* one)"; closed sessions are unhealthy, notified, hooked exactly once.    *)
(* The expectation is computed from the recorded operations alone.         *)
(***************************************************************************)
EXTENDS Naturals, Sequences, FiniteSets, TLC, Json, IOUtils

Trace == ndJsonDeserialize(IOEnv.VERIF_TRACE)
N == Len(Trace)
Prop == IF "VERIF_PROP" \in DOMAIN IOEnv THEN IOEnv.VERIF_PROP ELSE "ALL"
ON(p) == Prop = p \/ Prop = "ALL"
G(p, cond) == ON(p) => cond
VARIABLES l, live, idOf, known
vars == <<l, live, idOf, known>>
Ev == Trace[l]
Is(e) == l <= N /\ Ev.ev = e
Step == l' = l + 1 /\ TLCSet(1, l)
Init == l = 1 /\ live = {} /\ idOf = <<>> /\ known = {} /\ TLCSet(1, 0)

Reset == Is("Reset") /\ live' = {} /\ idOf' = <<>> /\ known' = {} /\ Step

SetId(s, u) == (s :> u) @@ idOf

Op ==
  /\ Is("Op")
  /\ CASE Ev.op = "accept" -> /\ live' = live \cup {Ev.s} /\ idOf' = SetId(Ev.s, Ev.u) /\ known' = known \cup {Ev.u}
       [] Ev.op = "setid"  -> /\ live' = {t \in live : t = Ev.s \/ idOf[t] # Ev.u}     \* takeover closes the older session
                              /\ idOf' = SetId(Ev.s, Ev.u) /\ known' = known \cup {Ev.u}
       [] Ev.op \in {"close", "disc"} -> /\ live' = live \ {Ev.s} /\ UNCHANGED <<idOf, known>>
       [] Ev.op \in {"starth", "endh"} -> UNCHANGED <<live, idOf, known>>    \* a handler starts / returns
  /\ Step

SeqSet(q) == {q[i] : i \in 1..Len(q)}
Holder(u) == IF \E s \in live : idOf[s] = u THEN CHOOSE s \in live : idOf[s] = u ELSE ""

ProbeOK ==
  /\ SeqSet(Ev.range) = {<<idOf[s], s>> : s \in live}          \* RangeSession
  /\ Len(Ev.range) = Cardinality(live)                         \* no duplicates
  /\ Ev.count = Cardinality(live)                              \* CountSession
  /\ \A i \in 1..Len(Ev.gets) : Ev.gets[i][2] = Holder(Ev.gets[i][1])   \* GetSession for every id ever used
  /\ {Ev.gets[i][1] : i \in 1..Len(Ev.gets)} = known
  /\ \A i \in 1..Len(Ev.sess) :
        LET e == Ev.sess[i] IN
        IF e.s \in live THEN e.health /\ ~e.notified /\ e.hooks = 0
                        ELSE ~e.health /\ e.notified /\ e.hooks = 1 /\ e.postcall = 102
Probe == Is("Probe") /\ G("C07", ProbeOK) /\ UNCHANGED <<live, idOf, known>> /\ Step

\* C08 at the end of a history: Peer.Close() is called while handlers of live sessions are still running (busylive of
\* them): it returns only after they have finished -- whichever session holds which id by now
PeerClose == Is("PeerClose") /\ G("C08", (Ev.busylive > 0 => ~Ev.early) /\ Ev.returned)
             /\ UNCHANGED <<live, idOf, known>> /\ Step

Skip == l <= N /\ Ev.ev \notin {"Reset", "Op", "Probe", "PeerClose"} /\ UNCHANGED <<live, idOf, known>> /\ Step
Next == Reset \/ Op \/ Probe \/ PeerClose \/ Skip
Spec == Init /\ [][Next]_vars
Accepted == PrintT(<<"HWM", TLCGet(1), N>>) /\ TRUE
=============================================================================
