SPECIFICATION Spec
CONSTANTS
  Calls = {c1, c2}
  Inb = {h1, h2}
  Closers = {k1, k2}
  AtomicRD = TRUE
  LeakFix = TRUE
  BadReplies = TRUE
INVARIANTS TypeOK DoneAtMostOnce HookAtMostOnce NoHang CloseReturns ClosedClean DeadIsClosed GracefulReply CloseWaits ReplyWins
PROPERTIES ClosedStable StatusEdges
CHECK_DEADLOCK FALSE
