SPECIFICATION Spec
CONSTANTS
  Threads = {t1, t2, t3}
  Lim = 2
INVARIANTS NeverOver Bounded
CHECK_DEADLOCK FALSE
