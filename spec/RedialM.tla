------------------------------- MODULE RedialM -------------------------------
(***************************************************************************)
(* Layer M: code-shaped model of a client session created by Peer.Dial     *)
(* with redial enabled (session.go redialForClient / readDisconnected /    *)
(* write / AsyncCall / closeLocked, peer.go redial closure, dialer.go      *)
(* dialWithRetry).  It complements spec/Redial.tla, which enumerates fault *)
(* HISTORIES one operation at a time: here the quantifier is over the      *)
(* SCHEDULES inside one loss -- "loss detected by the reader, by a writer, *)
(* or both at once", a local Close() racing with either.                   *)
(*                                                                         *)
(* One action per critical section; the comment on each action names the   *)
(* `vp` hold point (build tag verif) that follows it in the code.          *)
(*                                                                         *)
(* Threads: one reader per connection generation g (startReadAndHandle +   *)
(* the deferred readDisconnected), one goroutine per outbound call c       *)
(* (AsyncCall), one Close() invocation.  The server and the network are    *)
(* the environment.  A redial round (the closure built in Peer.Dial) runs  *)
(* under session.lock, so there is one set of round variables (dpc ...). *)
(*                                                                         *)
(* Constants that select "the code as it was" versus "as repaired":        *)
(*   FixCloseLock  a call refused because of a local Close() does not wait *)
(*                 for the session lock that Close() holds                 *)
(*   FixLostClose  a Close() that finds the session in the middle of a     *)
(*                 disconnect / redial still ends the session              *)
(*   FixStaleEnd   a reader whose own redial round failed ends the session *)
(*                 by compare-and-swap, so that a round another goroutine  *)
(*                 has won in the meantime is not overwritten              *)
(*   FixStaleReader  a reader whose connection a redial has replaced does  *)
(*                 not take the session over; it only cancels pending calls*)
(*   FixLateCancel a reader that finds the session already ended still     *)
(*                 cancels the calls waiting for a reply                   *)
(***************************************************************************)
EXTENDS Naturals, Integers, Sequences, FiniteSets, TLC

CONSTANTS Calls,       \* outbound calls
          MaxGen,      \* connection generations 0..MaxGen (0 = the connection made by Dial)
          Retries,     \* PeerConfig.RedialTimes: attempts after the first one of a round
          MaxCuts,     \* connection losses the environment may cause
          WithClose,   \* the application calls Close() once
          MayReject,   \* the client's dial hook may reject a re-established connection
          MayDown,     \* the server may become unreachable (and come back)
          FixCloseLock, FixLostClose, FixStaleEnd, FixStaleReader, FixLateCancel

Gens == 0..MaxGen
NoT  == <<"none", 0>>
RT(g) == <<"r", g>>
WT(c) == <<"w", c>>
KT    == <<"k", 0>>

VARIABLES
  status, lock, cur, cs, sockClosed, indexed, notified, discHooks, dialHooks, noRedial,
  up, hookok, cuts,
  rpc, rdSeen, rdTodo, rold, stale, stale,
  wpc, wconn, mu, pending, cstat, doneCnt, wrote,
  dpc, downer, dold, dleft, dnew,
  rfres,
  kpc,
  ended,       \* history: the session has ended once (PassiveClosed / ActiveClosed reached)
  revived,     \* history: a call on an ended session started a further redial round
  odd          \* history: one of the two situations described under "Open observations" below has occurred

vars == <<status, lock, cur, cs, sockClosed, indexed, notified, discHooks, dialHooks, noRedial, up, hookok, cuts,
          rpc, rdSeen, rdTodo, rold, stale, stale, wpc, wconn, mu, pending, cstat, doneCnt, wrote,
          dpc, downer, dold, dleft, dnew, rfres, kpc, ended, revived, odd>>

sessV == <<status, lock, cur, cs, sockClosed, indexed, notified, discHooks, dialHooks, noRedial>>
envV  == <<up, hookok, cuts>>
rdV   == <<rpc, rdSeen, rdTodo, rold, stale, stale>>
callV == <<wpc, wconn, mu, pending, cstat, doneCnt, wrote>>
dialV == <<dpc, downer, dold, dleft, dnew>>

Init ==
  /\ status = "Ok" /\ lock = NoT /\ cur = 0 /\ cs = [g \in Gens |-> IF g = 0 THEN "up" ELSE "none"]
  /\ sockClosed = FALSE /\ indexed = TRUE /\ notified = FALSE /\ discHooks = 0 /\ dialHooks = 0 /\ noRedial = FALSE
  /\ up = TRUE /\ hookok = TRUE /\ cuts = 0
  /\ rpc = [g \in Gens |-> IF g = 0 THEN "read" ELSE "none"] /\ rdSeen = [g \in Gens |-> "-"]
  /\ rdTodo = [g \in Gens |-> {}] /\ rold = [g \in Gens |-> g] /\ stale = [g \in Gens |-> FALSE]
  /\ wpc = [c \in Calls |-> "idle"] /\ wconn = [c \in Calls |-> 0] /\ mu = [c \in Calls |-> "free"]
  /\ pending = {} /\ cstat = [c \in Calls |-> "-"] /\ doneCnt = [c \in Calls |-> 0] /\ wrote = [c \in Calls |-> -1]
  /\ dpc = "idle" /\ downer = NoT /\ dold = 0 /\ dleft = 0 /\ dnew = 0
  /\ rfres = [t \in {<<"r", g>> : g \in Gens} \cup {<<"w", c>> : c \in Calls} |-> "-"]
  /\ kpc = "idle" /\ ended = FALSE /\ revived = FALSE /\ odd = FALSE

Complete(c, st) ==
  /\ pending' = pending \ {c}
  /\ cstat'   = [cstat EXCEPT ![c] = st]
  /\ doneCnt' = [doneCnt EXCEPT ![c] = @ + 1]

\* socket.Close(): marks the socket closed and closes the connection that is installed NOW
SockClose == /\ sockClosed' = TRUE
             /\ cs' = IF ~sockClosed /\ cs[cur] \in {"up", "cut"} THEN [cs EXCEPT ![cur] = "closed"] ELSE cs

-----------------------------------------------------------------------------
(* Environment                                                             *)

Cut ==          \* the connection in use is lost (the server stays reachable)
  /\ cuts < MaxCuts /\ cuts' = cuts + 1 /\ \E g \in Gens : cs[g] = "up" /\ cs' = [cs EXCEPT ![g] = "cut"]
  /\ UNCHANGED <<status, lock, cur, sockClosed, indexed, notified, discHooks, dialHooks, noRedial, up, hookok, rdV, callV, dialV, rfres, kpc, ended, revived, odd>>

Down ==         \* the server goes away: unreachable, and the connection in use is lost
  /\ MayDown /\ up /\ cuts < MaxCuts /\ up' = FALSE /\ cuts' = cuts + 1
  /\ cs' = [g \in Gens |-> IF cs[g] = "up" THEN "cut" ELSE cs[g]]
  /\ UNCHANGED <<status, lock, cur, sockClosed, indexed, notified, discHooks, dialHooks, noRedial, hookok, rdV, callV, dialV, rfres, kpc, ended, revived, odd>>

Up == /\ MayDown /\ ~up /\ up' = TRUE
      /\ UNCHANGED <<sessV, hookok, cuts, rdV, callV, dialV, rfres, kpc, ended, revived, odd>>

HookFlip == /\ MayReject /\ hookok /\ dpc = "idle" /\ hookok' = FALSE      \* from now on the dial hook rejects
            /\ UNCHANGED <<sessV, up, cuts, rdV, callV, dialV, rfres, kpc, ended, revived, odd>>

\* the server answers a call that reached it over a connection that is still intact
Reply(c) ==
  /\ c \in pending /\ wpc[c] = "waiting" /\ wrote[c] >= 0 /\ cs[wrote[c]] = "up" /\ rpc[wrote[c]] = "read" /\ mu[c] = "free"
  /\ status \in {"Ok", "ActiveClosing"} /\ up
  /\ Complete(c, "ok")
  /\ UNCHANGED <<sessV, envV, rdV, wpc, wconn, mu, wrote, dialV, rfres, kpc, ended, revived, odd>>

-----------------------------------------------------------------------------
(* redialForClient(oldConn) as called by thread t (reader or writer)       *)
(*   pcs of the caller: "rfwant" -> "rflocked" -> (round) -> result        *)

OwnerPc(t) == IF t[1] = "r" THEN rpc[t[2]] ELSE wpc[t[2]]
OldOf(t)   == IF t[1] = "r" THEN rold[t[2]] ELSE wconn[t[2]]
SetOwnerPc(t, v) ==
  IF t[1] = "r" THEN rpc' = [rpc EXCEPT ![t[2]] = v] /\ UNCHANGED wpc
                ELSE wpc' = [wpc EXCEPT ![t[2]] = v] /\ UNCHANGED rpc
Threads == {RT(g) : g \in Gens} \cup {WT(c) : c \in Calls}

\* s.lock.Lock()  -> redial.locked      (the repaired code does not queue for the lock behind a local Close())
RfLock(t) ==
  /\ OwnerPc(t) = "rfwant"
  /\ IF FixCloseLock /\ status \in {"ActiveClosing", "ActiveClosed"}
       THEN /\ SetOwnerPc(t, "rfdone") /\ UNCHANGED lock     \* gives up: no redial for a closing session;
            /\ rfres' = [rfres EXCEPT ![t] = IF OldOf(t) # cur THEN "true" ELSE "false"]   \* "somebody else redialed" is still a success
       ELSE /\ lock = NoT /\ lock' = t /\ SetOwnerPc(t, "rflocked") /\ UNCHANGED rfres
  /\ UNCHANGED <<status, cur, cs, sockClosed, indexed, notified, discHooks, dialHooks, noRedial, envV, rdSeen, rdTodo, rold, stale,
                 wconn, mu, pending, cstat, doneCnt, wrote, dialV, kpc, ended, revived, odd>>

\* the test on the connection identity and the CAS into Redialing; -> redial.begin | return
RfDecide(t) ==
  /\ OwnerPc(t) = "rflocked" /\ lock = t
  /\ IF FixLostClose /\ noRedial
       THEN /\ SetOwnerPc(t, "rfdone") /\ rfres' = [rfres EXCEPT ![t] = "false"] /\ lock' = NoT
            /\ UNCHANGED <<status, dialV, revived, odd>>
       ELSE IF OldOf(t) # cur
         THEN /\ SetOwnerPc(t, "rfdone") /\ rfres' = [rfres EXCEPT ![t] = IF status = "RedialFailed" THEN "false" ELSE "true"]
              /\ lock' = NoT /\ UNCHANGED <<status, dialV, revived, odd>>
         ELSE IF status \in {"Ok", "PassiveClosing", "PassiveClosed", "RedialFailed"}
           THEN /\ status' = "Redialing" /\ SetOwnerPc(t, "rfround") /\ revived' = (revived \/ ended) /\ UNCHANGED odd
                /\ dpc' = "try" /\ downer' = t /\ dold' = cur /\ dleft' = Retries /\ UNCHANGED <<dnew, rfres, lock>>
           ELSE /\ SetOwnerPc(t, "rfdone") /\ rfres' = [rfres EXCEPT ![t] = "false"] /\ lock' = NoT
                /\ UNCHANGED <<status, dialV, revived, odd>>
  /\ UNCHANGED <<cur, cs, sockClosed, indexed, notified, discHooks, dialHooks, noRedial, envV, rdSeen, rdTodo, rold, stale,
                 wconn, mu, pending, cstat, doneCnt, wrote, kpc, ended>>

-----------------------------------------------------------------------------
(* The redial round (closure of Peer.Dial + dialWithRetry), under the lock *)

FreshGen == IF \E g \in Gens : cs[g] = "none" THEN CHOOSE g \in Gens : cs[g] = "none" /\ \A h \in Gens : cs[h] = "none" => g <= h ELSE -1

DTry ==         \* dialOne
  /\ dpc = "try"
  /\ IF up /\ FreshGen >= 0
       THEN /\ dnew' = FreshGen /\ cs' = [cs EXCEPT ![FreshGen] = "up"] /\ dpc' = "reset"
       ELSE /\ dpc' = "retry" /\ UNCHANGED <<dnew, cs>>
  /\ UNCHANGED <<status, lock, cur, sockClosed, indexed, notified, discHooks, dialHooks, noRedial, envV, rdV, callV, downer, dold, dleft, rfres, kpc, ended, revived, odd>>

DReset ==       \* socket.Reset(conn); changeStatus(Preparing)
  /\ dpc = "reset" /\ cur' = dnew /\ sockClosed' = FALSE /\ status' = "Preparing" /\ dpc' = "hook"
  /\ UNCHANGED <<lock, cs, indexed, notified, discHooks, dialHooks, noRedial, envV, rdV, callV, downer, dold, dleft, dnew, rfres, kpc, ended, revived, odd>>

DHook ==        \* postDial(sess, true)
  /\ dpc = "hook" /\ dialHooks' = dialHooks + 1
  /\ IF hookok THEN dpc' = "won" /\ UNCHANGED <<cs, status>>
               ELSE /\ dpc' = "retry" /\ status' = "Redialing"
                    /\ cs' = IF cs[dnew] \in {"up", "cut"} THEN [cs EXCEPT ![dnew] = "closed"] ELSE cs
  /\ UNCHANGED <<lock, cur, sockClosed, indexed, notified, discHooks, noRedial, envV, rdV, callV, downer, dold, dleft, dnew, rfres, kpc, ended, revived, odd>>

DRetry ==       \* redialCounter.Next(); Sleep(interval)
  /\ dpc = "retry"
  /\ IF dleft > 0 THEN dleft' = dleft - 1 /\ dpc' = "try" ELSE dpc' = "lost" /\ UNCHANGED dleft
  /\ UNCHANGED <<sessV, envV, rdV, callV, downer, dold, dnew, rfres, kpc, ended, revived, odd>>

DLost ==        \* -> redial.failed: closeLocked() (no-op unless Ok / Preparing); CAS Redialing -> RedialFailed; return false
  /\ dpc = "lost" /\ dpc' = "idle"
  /\ status' = IF status = "Redialing" THEN "RedialFailed" ELSE status
  /\ rfres' = [rfres EXCEPT ![downer] = "false"] /\ lock' = NoT /\ SetOwnerPc(downer, "rfdone") /\ downer' = NoT
  /\ UNCHANGED <<cur, cs, sockClosed, indexed, notified, discHooks, dialHooks, noRedial, envV, rdSeen, rdTodo, rold, stale,
                 wconn, mu, pending, cstat, doneCnt, wrote, dold, dleft, dnew, kpc, ended, revived, odd>>

DWon ==         \* oldConn.Close(); changeStatus(Ok)  -> redial.ok
  /\ dpc = "won" /\ dpc' = "index" /\ status' = "Ok"
  /\ cs' = IF cs[dold] \in {"up", "cut"} THEN [cs EXCEPT ![dold] = "closed"] ELSE cs
  /\ UNCHANGED <<lock, cur, sockClosed, indexed, notified, discHooks, dialHooks, noRedial, envV, rdV, callV, downer, dold, dleft, dnew, rfres, kpc, ended, revived, odd>>

DIndex ==       \* sessHub.set  -> redial.indexed
  /\ dpc = "index" /\ dpc' = "reader" /\ indexed' = TRUE
  /\ UNCHANGED <<status, lock, cur, cs, sockClosed, notified, discHooks, dialHooks, noRedial, envV, rdV, callV, downer, dold, dleft, dnew, rfres, kpc, ended, revived, odd>>

DReader ==      \* go startReadAndHandle; return true (deferred Unlock)  -> redial.reader
  /\ dpc = "reader" /\ dpc' = "idle"
  /\ rfres' = [rfres EXCEPT ![downer] = "true"] /\ lock' = NoT /\ downer' = NoT
  /\ IF downer[1] = "r"
       THEN rpc' = [rpc EXCEPT ![downer[2]] = "rfdone", ![cur] = "read"] /\ UNCHANGED wpc
       ELSE rpc' = [rpc EXCEPT ![cur] = "read"] /\ wpc' = [wpc EXCEPT ![downer[2]] = "rfdone"]
  /\ rold' = [rold EXCEPT ![cur] = cur]
  /\ UNCHANGED <<status, cur, cs, sockClosed, indexed, notified, discHooks, dialHooks, noRedial, envV, rdSeen, rdTodo, stale,
                 wconn, mu, pending, cstat, doneCnt, wrote, dold, dleft, dnew, kpc, ended, revived, odd>>

-----------------------------------------------------------------------------
(* Reader of generation g                                                  *)

GoonRead == status \in {"Ok", "ActiveClosing"}

RExit(g) ==     \* ReadMessage fails on this reader's connection (or the loop condition fails): deferred readDisconnected loads the status -> rd.loaded
  /\ rpc[g] = "read" /\ cs[g] # "up"
  /\ rpc' = [rpc EXCEPT ![g] = "loaded"] /\ rdSeen' = [rdSeen EXCEPT ![g] = status]
  /\ stale' = [stale EXCEPT ![g] = FixStaleReader /\ rold[g] # cur]
  /\ UNCHANGED <<sessV, envV, rdTodo, rold, callV, dialV, rfres, kpc, ended, revived, odd>>

\* a reply arrives while the status no longer lets the loop go on: the reply is delivered (fix 770ce9a) and the reader leaves
RExitReply(g, c) ==
  /\ rpc[g] = "read" /\ cs[g] = "up" /\ ~GoonRead
  /\ c \in pending /\ wpc[c] = "waiting" /\ wrote[c] = g /\ mu[c] = "free" /\ up
  /\ Complete(c, "ok")
  /\ rpc' = [rpc EXCEPT ![g] = "loaded"] /\ rdSeen' = [rdSeen EXCEPT ![g] = status]
  /\ stale' = [stale EXCEPT ![g] = FixStaleReader /\ rold[g] # cur]
  /\ UNCHANGED <<sessV, envV, rdTodo, rold, wpc, wconn, mu, wrote, dialV, rfres, kpc, ended, revived, odd>>

RdSwitch(g) ==  \* -> (return) | rd.stored
  /\ rpc[g] = "loaded"
  /\ IF rdSeen[g] \in {"PassiveClosed", "ActiveClosed", "PassiveClosing"}
       THEN /\ rpc' = [rpc EXCEPT ![g] = IF FixLateCancel THEN "cancelonly" ELSE "end"] /\ UNCHANGED <<status, rdSeen>>
       ELSE IF rdSeen[g] = "ActiveClosing"
         THEN rpc' = [rpc EXCEPT ![g] = "stored"] /\ UNCHANGED <<status, rdSeen>>
         ELSE IF stale[g]
           THEN rpc' = [rpc EXCEPT ![g] = "stored"] /\ UNCHANGED <<status, rdSeen>>       \* stale: no takeover
         ELSE IF status # rdSeen[g]
           THEN rdSeen' = [rdSeen EXCEPT ![g] = status] /\ UNCHANGED <<status, rpc>>      \* CAS failed: RELOAD
           ELSE status' = "PassiveClosing" /\ rpc' = [rpc EXCEPT ![g] = "stored"] /\ UNCHANGED rdSeen
  /\ odd' = (odd \/ (rpc'[g] = "stored" /\ (rdSeen[g] \in {"Redialing", "Preparing", "RedialFailed"} \/ (FixStaleReader /\ ~stale[g] /\ rold[g] # cur))))   \* (O2) a reader takes the session over in the middle of (or right after) somebody else's round
  /\ UNCHANGED <<lock, cur, cs, sockClosed, indexed, notified, discHooks, dialHooks, noRedial, envV, rdTodo, rold, stale, callV, dialV, rfres, kpc, ended, revived>>

RdLate(g) ==    \* the session was ended by somebody else: cancelPendingCalls only, then return
  /\ rpc[g] = "cancelonly" /\ rpc' = [rpc EXCEPT ![g] = "cancel"] /\ rdTodo' = [rdTodo EXCEPT ![g] = pending]
  /\ stale' = [stale EXCEPT ![g] = TRUE]
  /\ UNCHANGED <<sessV, envV, rdSeen, rold, callV, dialV, rfres, kpc, ended, revived, odd>>

RdDelete(g) ==  \* sessHub.deleteSession(s) (by identity: the same Session value is re-indexed by a redial)  -> rd.deleted; graceCtxWait -> rd.waited
  /\ rpc[g] = "stored" /\ rpc' = [rpc EXCEPT ![g] = "cancel"] /\ indexed' = (IF stale[g] THEN indexed ELSE FALSE) /\ rdTodo' = [rdTodo EXCEPT ![g] = pending]
  /\ UNCHANGED <<status, lock, cur, cs, sockClosed, notified, discHooks, dialHooks, noRedial, envV, rdSeen, rold, stale, callV, dialV, rfres, kpc, ended, revived, odd>>

RdCancelOne(g, c) ==  \* one iteration of callCmdMap.Range: Lock; cancel if no reply and still OK; Unlock
  /\ rpc[g] = "cancel" /\ c \in rdTodo[g] /\ mu[c] = "free"
  /\ rdTodo' = [rdTodo EXCEPT ![g] = @ \ {c}]
  /\ IF c \in pending /\ cstat[c] = "-" THEN Complete(c, "err") ELSE UNCHANGED <<pending, cstat, doneCnt>>
  /\ UNCHANGED <<sessV, envV, rpc, rdSeen, rold, stale, wpc, wconn, mu, wrote, dialV, rfres, kpc, ended, revived, odd>>

RdSock(g) ==    \* -> rd.cancelled; ActiveClosing seen: return; else socket.Close() -> rd.sock; redialForClient(oldConn)
  /\ rpc[g] = "cancel" /\ rdTodo[g] = {}
  /\ IF rdSeen[g] = "ActiveClosing" \/ stale[g]
       THEN rpc' = [rpc EXCEPT ![g] = "end"] /\ UNCHANGED <<sockClosed, cs>>
       ELSE rpc' = [rpc EXCEPT ![g] = "rfwant"] /\ SockClose
  /\ UNCHANGED <<status, lock, cur, indexed, notified, discHooks, dialHooks, noRedial, envV, rdSeen, rdTodo, rold, stale, callV, dialV, rfres, kpc, ended, revived, odd>>

RdAfter(g) ==   \* redialForClient returned: true -> return; false -> PassiveClosed, notifyClosed, postDisconnect  -> rd.closed, rd.hooked
  /\ rpc[g] = "rfdone"
  /\ IF rfres[RT(g)] = "true"
       THEN rpc' = [rpc EXCEPT ![g] = "end"] /\ UNCHANGED <<status, notified, discHooks, ended>>
       ELSE IF FixStaleEnd
              THEN rpc' = [rpc EXCEPT ![g] = "endwant"] /\ UNCHANGED <<status, notified, discHooks, ended>>
              ELSE rpc' = [rpc EXCEPT ![g] = "end"] /\ status' = "PassiveClosed" /\ notified' = TRUE /\ discHooks' = discHooks + 1 /\ ended' = TRUE
  /\ UNCHANGED <<lock, cur, cs, sockClosed, indexed, dialHooks, noRedial, envV, rdSeen, rdTodo, rold, stale, callV, dialV, rfres, kpc, revived, odd>>

\* repaired code: the session is ended under the session lock (a round another goroutine started in the meantime is
\* over by then) and only if that round has not won: CAS PassiveClosing | RedialFailed -> PassiveClosed
REnd(g) ==
  /\ rpc[g] = "endwant" /\ lock = NoT /\ rpc' = [rpc EXCEPT ![g] = "end"]
  /\ IF status \in {"PassiveClosing", "RedialFailed"}
       THEN status' = "PassiveClosed" /\ notified' = TRUE /\ discHooks' = discHooks + 1 /\ ended' = TRUE /\ indexed' = FALSE
       ELSE UNCHANGED <<status, notified, discHooks, ended, indexed>>
  /\ UNCHANGED <<lock, cur, cs, sockClosed, dialHooks, noRedial, envV, rdSeen, rdTodo, rold, stale, callV, dialV, rfres, kpc, revived, odd>>

-----------------------------------------------------------------------------
(* AsyncCall for call c                                                    *)

CStore(c) ==    \* wg.Add(1); cmd.mu.Lock(); callCmdMap.Store  -> call.stored
  /\ wpc[c] = "idle" /\ wpc' = [wpc EXCEPT ![c] = "stored"] /\ mu' = [mu EXCEPT ![c] = "caller"] /\ pending' = pending \cup {c}
  /\ UNCHANGED <<sessV, envV, rdV, wconn, cstat, doneCnt, wrote, dialV, rfres, kpc, ended, revived, odd>>

CCheck(c) ==    \* label W: write(): usedConn := getConn(); status test  -> write.checked | write.refused
  /\ wpc[c] = "stored" /\ wconn' = [wconn EXCEPT ![c] = cur]
  /\ wpc' = [wpc EXCEPT ![c] = IF status = "Ok" THEN "checked" ELSE "rfwant"]
  /\ odd' = (odd \/ status = "Preparing")       \* (O1) refused inside another goroutine's round, after the socket was reset
  /\ UNCHANGED <<sessV, envV, rdV, mu, pending, cstat, doneCnt, wrote, dialV, rfres, kpc, ended, revived>>

CWrite(c) ==    \* writeLock; WriteMessage  -> call.written | cmd.done | redialForClient
  /\ wpc[c] = "checked"
  /\ \/ /\ cs[cur] = "up" /\ wpc' = [wpc EXCEPT ![c] = "written"] /\ wrote' = [wrote EXCEPT ![c] = cur]
     \/ /\ cs[cur] = "cut"                       \* the bytes vanish (buffered by the kernel) or the write fails with a network error
        /\ \/ wpc' = [wpc EXCEPT ![c] = "written"] /\ wrote' = [wrote EXCEPT ![c] = cur]
           \/ wpc' = [wpc EXCEPT ![c] = "failing"] /\ UNCHANGED wrote
     \/ /\ cs[cur] = "closed"                    \* closed locally: ErrProactivelyCloseSocket -> statConnClosed when the socket is marked closed
        /\ wpc' = [wpc EXCEPT ![c] = IF sockClosed THEN "rfwant" ELSE "failing"] /\ UNCHANGED wrote
  /\ UNCHANGED <<sessV, envV, rdV, wconn, mu, pending, cstat, doneCnt, dialV, rfres, kpc, ended, revived, odd>>

CRfAfter(c) ==  \* true -> goto W; false -> cmd.done()
  /\ wpc[c] = "rfdone"
  /\ wpc' = [wpc EXCEPT ![c] = IF rfres[WT(c)] = "true" THEN "stored" ELSE "failing"]
  /\ UNCHANGED <<sessV, envV, rdV, wconn, mu, pending, cstat, doneCnt, wrote, dialV, rfres, kpc, ended, revived, odd>>

CFail(c) ==     \* cmd.done() with an error status; return (deferred cmd.mu.Unlock)
  /\ wpc[c] = "failing" /\ wpc' = [wpc EXCEPT ![c] = "returned"] /\ mu' = [mu EXCEPT ![c] = "free"]
  /\ IF c \in pending /\ cstat[c] = "-" THEN Complete(c, "err") ELSE UNCHANGED <<pending, cstat, doneCnt>>
  /\ UNCHANGED <<sessV, envV, rdV, wconn, wrote, dialV, rfres, kpc, ended, revived, odd>>

CReturn(c) ==   \* postWriteCall; return (deferred cmd.mu.Unlock)
  /\ wpc[c] = "written" /\ wpc' = [wpc EXCEPT ![c] = "waiting"] /\ mu' = [mu EXCEPT ![c] = "free"]
  /\ UNCHANGED <<sessV, envV, rdV, wconn, pending, cstat, doneCnt, wrote, dialV, rfres, kpc, ended, revived, odd>>

-----------------------------------------------------------------------------
(* Close()                                                                 *)

KCall == /\ WithClose /\ kpc = "idle" /\ kpc' = "want"
         /\ UNCHANGED <<sessV, envV, rdV, callV, dialV, rfres, ended, revived, odd>>

KLock ==        \* s.lock.Lock(); CAS Ok|Preparing -> ActiveClosing  -> close.cas | return
  /\ kpc = "want" /\ lock = NoT
  /\ IF status \in {"Ok", "Preparing"}
       THEN status' = "ActiveClosing" /\ lock' = KT /\ kpc' = "cas" /\ UNCHANGED noRedial
       ELSE /\ UNCHANGED <<status, lock>> /\ kpc' = "ret"
            /\ noRedial' = IF FixLostClose THEN TRUE ELSE noRedial
  /\ UNCHANGED <<cur, cs, sockClosed, indexed, notified, discHooks, dialHooks, envV, rdV, callV, dialV, rfres, ended, revived, odd>>

KDelete ==      \* deleteSession; notifyClosed  -> close.deleted, close.notified
  /\ kpc = "cas" /\ kpc' = "notified" /\ indexed' = FALSE /\ notified' = TRUE
  /\ UNCHANGED <<status, lock, cur, cs, sockClosed, discHooks, dialHooks, noRedial, envV, rdV, callV, dialV, rfres, ended, revived, odd>>

KWait ==        \* graceCtxWait; graceCallCmdWaitGroup.Wait  -> close.waitedCalls
  /\ kpc = "notified" /\ pending = {} /\ kpc' = "waited"
  /\ UNCHANGED <<sessV, envV, rdV, callV, dialV, rfres, ended, revived, odd>>

KClosed ==      \* changeStatus(ActiveClosed); socket.Close; postDisconnect; return (Unlock)
  /\ kpc = "waited" /\ kpc' = "ret" /\ status' = "ActiveClosed" /\ SockClose /\ discHooks' = discHooks + 1 /\ lock' = NoT /\ ended' = TRUE
  /\ UNCHANGED <<cur, indexed, notified, dialHooks, noRedial, envV, rdV, callV, dialV, rfres, revived, odd>>

-----------------------------------------------------------------------------
Env == Cut \/ Down \/ Up \/ HookFlip
App == (\E c \in Calls : CStore(c)) \/ KCall
Fw  == \/ \E c \in Calls : Reply(c) \/ CCheck(c) \/ CWrite(c) \/ CRfAfter(c) \/ CFail(c) \/ CReturn(c)
       \/ \E g \in Gens : \/ RExit(g) \/ RdSwitch(g) \/ RdLate(g) \/ RdDelete(g) \/ RdSock(g) \/ RdAfter(g) \/ REnd(g)
                          \/ \E c \in Calls : RdCancelOne(g, c) \/ RExitReply(g, c)
       \/ \E t \in Threads : RfLock(t) \/ RfDecide(t)
       \/ DTry \/ DReset \/ DHook \/ DRetry \/ DLost \/ DWon \/ DIndex \/ DReader
       \/ KLock \/ KDelete \/ KWait \/ KClosed
Next == Env \/ App \/ Fw
Spec == Init /\ [][Next]_vars /\ WF_vars(Fw)

-----------------------------------------------------------------------------
(* Properties                                                              *)

TypeOK ==
  /\ status \in {"Preparing", "Ok", "ActiveClosing", "ActiveClosed", "PassiveClosing", "PassiveClosed", "Redialing", "RedialFailed"}
  /\ cur \in Gens /\ discHooks \in 0..4 /\ dleft \in 0..Retries

DoneAtMostOnce == \A c \in Calls : doneCnt[c] <= 1

Quiescent == ~ENABLED Fw
\* the environment cannot help any more either: no spare connection generation is a bound of the model, not of the code
Spare == \E g \in Gens : cs[g] = "none"

\* C02 / C13: no call hangs: once nothing more can happen every call that was started is complete
NoHang == Quiescent => \A c \in Calls : wpc[c] # "idle" => doneCnt[c] = 1
\* C08 / C07: a Close() that was called returns
CloseReturns == Quiescent => kpc \in {"idle", "ret"}
\* nobody is left waiting for the session lock or inside a redial round
NoStuckThread == Quiescent => /\ lock = NoT /\ dpc = "idle"
                               /\ \A g \in Gens : rpc[g] \in {"none", "read", "end"}
                               /\ \A c \in Calls : wpc[c] \in {"idle", "waiting", "returned"}

Alive == status = "Ok" /\ indexed /\ ~sockClosed /\ cs[cur] = "up" /\ rpc[cur] = "read"
Ended == status \in {"PassiveClosed", "ActiveClosed", "RedialFailed"} /\ ~indexed /\ notified
\* C13 / C07: at quiescence the session is either fully alive (healthy, indexed, its reader running on the installed
\* connection) or has ended (close notification fired, not indexed); nothing in between
AliveOrEnded == Quiescent /\ (Spare \/ ~up) => Alive \/ Ended
\* C13: while the server is reachable, the hook accepts and the budget of generations is not used up, a lost
\* connection is re-established: the session does not end
SurvivesLoss == (~MayDown /\ ~MayReject /\ ~WithClose) => (Quiescent /\ Spare => Alive)
\* C07: a local Close() that has returned leaves an unhealthy session that stays closed
CloseEffective == Quiescent /\ kpc = "ret" => status # "Ok" /\ ~Alive
\* C07: the disconnect hook runs exactly once for a session that ended once and was not used afterwards
HookOnce == ~revived => discHooks <= 1
HookIffEnded == Quiescent /\ Ended /\ status # "RedialFailed" => discHooks >= 1
\* C13: calls succeed on a healthy session: a completed OK call was written on a connection of this session
OkWasWritten == \A c \in Calls : cstat[c] = "ok" => wrote[c] >= 0

(* Open observations (model level; not reproduced on the real code, hence neither violations nor findings):        *)
(*  (O1) a call whose write is refused while ANOTHER goroutine's round is between socket.Reset and the end of the   *)
(*       round captures the NEW connection as "the connection it used"; the test "somebody else has redialed"       *)
(*       then fails and the call starts a round of its own on a healthy session;                                    *)
(*  (O2) a reader that leaves its loop while a round is in progress or has just failed (status Redialing /         *)
(*       Preparing / RedialFailed) moves the                                                                        *)
(*       session to PassiveClosing by CAS from that status; the round then ends without touching the status, and    *)
(*       with the connection replaced the reader takes the round for a success: the session can stay in             *)
(*       PassiveClosing, not notified.                                                                              *)
(*  (O3) a redial replaces the connection between a reader's staleness test and its CAS (two adjacent statements).  *)
(* All need a loss inside a window of a few instructions of somebody else's round.  TLC finds behaviours with      *)
(* `odd` (the invariant NotOdd is violated, see RedialM_odd.cfg); the properties are claimed for the others.        *)
NotOdd == ~odd
G(P) == ~odd => P
NoHangG == G(NoHang)
CloseReturnsG == G(CloseReturns)
NoStuckThreadG == G(NoStuckThread)
AliveOrEndedG == G(AliveOrEnded)
SurvivesLossG == G(SurvivesLoss)
CloseEffectiveG == G(CloseEffective)
HookOnceG == G(HookOnce)
HookIffEndedG == G(HookIffEnded)

\* liveness (under WF on Fw): every started call completes
EventuallyDone == \A c \in Calls : (wpc[c] # "idle") ~> (doneCnt[c] = 1)
=============================================================================
