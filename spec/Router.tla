------------------------------- MODULE Router -------------------------------
(***************************************************************************)
(* Case space for C10.                                                     *)
(*  kind "map":  the name mappers as total deterministic functions of      *)
(*    (prefix, Go identifier): every identifier string of length <= MaxLen *)
(*    over the alphabet {A,B,a,b,_,1}, four prefixes, both mappers; the    *)
(*    documented table rows carry their expected result.                   *)
(*  kind "reg":  registration scenarios: a subset of the harness's handler *)
(*    inventory (controller structs and functions, CALL and PUSH, two of   *)
(*    them mapping to the same name in the two namespaces), a router group *)
(*    prefix, a mapper, with / without unknown handlers.  The harness then *)
(*    requests every returned name, near misses of it and unregistered     *)
(*    names, as CALL and as PUSH.                                          *)
(*  kind "conflict": two registrations mapping to one name: registration   *)
(*    must fail (observed in a child process).                             *)
(*  kind "live": WHEN a piece of the routing configuration was installed,  *)
(*    relative to the sessions it has to serve.  `when` says how the       *)
(*    unknown handlers came to be: "before" the first session (the usual   *)
(*    start-up order), "after" it (first installation on a peer with a     *)
(*    live session), "replaced" (U1 before, U2 after: requests must reach  *)
(*    the current one), "never"; `late` is the part of the route set that  *)
(*    is registered only after the first session exists.  The scenario is  *)
(*    a list of steps (configure, connect, request round); every request   *)
(*    round is made on the OLD session (before and after the late          *)
(*    configuration) and on a NEW one, and carries the unknown handler     *)
(*    that is current at that point (`expunknown`, "" = none: Not Found).  *)
(***************************************************************************)
EXTENDS Naturals, Sequences, FiniteSets, TLC, Json, IOUtils
CONSTANTS Export, MaxLen
Alpha == {"A", "B", "a", "b", "_", "1"}
RECURSIVE Strs(_)
Strs(n) == IF n = 0 THEN {""} ELSE LET s == Strs(n - 1) IN s \cup {x \o a : x \in {y \in s : TRUE}, a \in Alpha}
Idents == Strs(MaxLen) \ {""}
Prefixes == {"", "g", "G_h", "/x/"}
\* the documented mapping table (router.go): <<mapper, identifier, expected>>
Table == { <<"http", "AaBb", "/aa_bb">>, <<"http", "ABcXYz", "/abc_xyz">>, <<"http", "Aa__Bb", "/aa_bb">>, <<"http", "aa__bb", "/aa_bb">>,
           <<"http", "ABC__XYZ", "/abc_xyz">>, <<"http", "Aa_Bb", "/aa/bb">>, <<"http", "aa_bb", "/aa/bb">>, <<"http", "ABC_XYZ", "/abc/xyz">>,
           <<"rpc", "AaBb", "AaBb">>, <<"rpc", "ABcXYz", "ABcXYz">>, <<"rpc", "Aa__Bb", "Aa_Bb">>, <<"rpc", "aa__bb", "aa_bb">>,
           <<"rpc", "ABC__XYZ", "ABC_XYZ">>, <<"rpc", "Aa_Bb", "Aa.Bb">>, <<"rpc", "aa_bb", "aa.bb">>, <<"rpc", "ABC_XYZ", "ABC.XYZ">> }
Inventory == {"CtlA", "Ctl_B", "PshA", "FnCall", "FnPush", "SameCall", "SamePush"}
MapCases == {[fam |-> "router", kind |-> "map", mapper |-> m, prefix |-> p, name |-> n, expected |-> ""] : m \in {"http", "rpc"}, p \in Prefixes, n \in Idents}
      \cup {[fam |-> "router", kind |-> "map", mapper |-> r[1], prefix |-> "", name |-> r[2], expected |-> r[3]] : r \in Table}
\* rewrite = TRUE: the peer runs the shipped ignore-case plugin, which rewrites the requested name to lower case in the
\* header stage; dispatch then goes by the rewritten name (the registered names of the http mapper are lower case)
RegCases == {[fam |-> "router", kind |-> "reg", mapper |-> m, group |-> g, set |-> s, unknown |-> u, rewrite |-> FALSE] :
               m \in {"http", "rpc"}, g \in {"", "g", "g/h"}, s \in (SUBSET Inventory) \ {{}}, u \in BOOLEAN}
       \cup {[fam |-> "router", kind |-> "reg", mapper |-> "http", group |-> g, set |-> s, unknown |-> u, rewrite |-> TRUE] :
               g \in {"", "g/h"}, s \in {{"CtlA", "PshA"}, {"Ctl_B", "FnCall", "FnPush"}, {"SameCall", "SamePush", "CtlA"}}, u \in BOOLEAN}
\* "CtlTwin" / "PshTwin": ONE controller whose methods AaBb and Aa__Bb map to the same name under the http mapper
\* (table rows 1 and 3) and to different names under the rpc mapper (rows 9 and 11)
ConflictCases == {[fam |-> "router", kind |-> "conflict", mapper |-> m, pair |-> p, expectconflict |-> (p # "none" /\ (p = "CtlA+Ctl__A" => m = "http"))] :   \* Ctl__A maps onto CtlA only under the http mapper
               m \in {"http", "rpc"}, p \in {"CtlA+Ctl__A", "CtlA+CtlA", "FnCall+FnCall", "PshA+PshA", "none"}}
            \cup {[fam |-> "router", kind |-> "conflict", mapper |-> m, pair |-> p, expectconflict |-> (m = "http")] :
               m \in {"http", "rpc"}, p \in {"CtlTwin", "PshTwin"}}
\* --- kind "live": configuration installed before / after a session exists -------------------------------------
LiveSets == {{"CtlA", "PshA"}, {"Ctl_B", "FnCall", "FnPush"}, {"SameCall", "SamePush", "CtlA"}}
Whens == {"before", "after", "replaced", "never"}
\* the unknown handler that is current in phase 1 (before the late configuration) and in phase 2 (after it)
UnknownAt(w, phase) == CASE w = "never" -> ""
                         [] w = "before" -> "U1"
                         [] w = "after" -> IF phase = 1 THEN "" ELSE "U1"
                         [] w = "replaced" -> IF phase = 1 THEN "U1" ELSE "U2"
St(op, id, items, sess, exp) == [op |-> op, id |-> id, items |-> items, sess |-> sess, expunknown |-> exp]
LiveSteps(w, pre, lt) ==
     (IF w \in {"before", "replaced"} THEN <<St("unknown", "U1", {}, "", "")>> ELSE <<>>)
  \o <<St("route", "", pre, "", ""), St("connect", "", {}, "old", ""), St("requests", "", {}, "old", UnknownAt(w, 1))>>
  \o <<St("route", "", lt, "", "")>>
  \o (IF w \in {"after", "replaced"} THEN <<St("unknown", IF w = "replaced" THEN "U2" ELSE "U1", {}, "", "")>> ELSE <<>>)
  \o <<St("requests", "", {}, "old", UnknownAt(w, 2)), St("connect", "", {}, "new", ""),
       St("requests", "", {}, "new", UnknownAt(w, 2)), St("requests", "", {}, "old", UnknownAt(w, 2))>>
LiveSplits == UNION {{<<s \ lt, lt>> : lt \in SUBSET s} : s \in LiveSets}      \* <<registered before the first session, after it>>
LiveCases == {[fam |-> "router", kind |-> "live", mapper |-> m, group |-> g, when |-> w, set |-> sp[1], late |-> sp[2],
               steps |-> LiveSteps(w, sp[1], sp[2])] :
               m \in {"http", "rpc"}, g \in {"", "g/h"}, w \in Whens, sp \in LiveSplits}
VARIABLES c, done
vars == <<c, done>>
Init == c \in MapCases \cup RegCases \cup ConflictCases \cup LiveCases /\ done = FALSE
Run == ~done /\ done' = TRUE /\ UNCHANGED c
Spec == Init /\ [][Run]_vars
OracleSane == c.kind \in {"map", "reg", "conflict", "live"}
Emit == Export = "" \/ Serialize(ToJson(c) \o "\n", Export,
          [format |-> "TXT", charset |-> "UTF-8", openOptions |-> <<"WRITE", "CREATE", "APPEND">>]).exitValue = 0
=============================================================================
