------------------------------ MODULE History ------------------------------
(***************************************************************************)
(* Histories for C15 (framework statuses are immutable) and the failure    *)
(* placements of C19 (proxy transparency).  The alphabet is the set of     *)
(* whole-process operations that produce framework statuses; TLC           *)
(* enumerates every history of at most MaxLen operations.  After every     *)
(* operation the harness snapshots all package-level statuses and repeats  *)
(* a fixed set of failing probes (call on a closed session -> 102, unknown *)
(* route -> 404, undecodable body -> 400, handler panic -> 500): the       *)
(* observable (code, message, cause) of each probe and the snapshot must   *)
(* never change.                                                           *)
(***************************************************************************)
EXTENDS Naturals, Sequences, FiniteSets, TLC, Json, IOUtils
CONSTANTS Export, MaxLen
\* Operations whose REPLY WRITE fails with something other than "connection closed" (the serving side then takes its
\* fallback path: second reply with 500 and the cause of the failure; the handling status may be one of the shared
\* statuses, e.g. 404 for an unknown route):
\*   unencodable  known route, the handler's result cannot be encoded (the codec reports an error)
\*   agedunknown  unknown route on a serving peer whose context age (1 ns) has run out when the reply is written
\*   agedknown    the same for a known route (handler succeeds, the reply is refused by the expired handling context)
\*   wfailunknown unknown route, the serving side's connection fails every write with a reset error while it still reads
\*                (reply and fallback reply both fail; the call ends when the serving side closes)
\*   wfailknown   the same for a known route
\* All of them are full members of the alphabet (every pair with every other operation, both orders): 20 operations give
\* 20 + 400 histories of length <= 2 instead of 15 + 225; each costs a few milliseconds, so no pair is left out.
ReplyFail == {"unencodable", "agedunknown", "agedknown", "wfailunknown", "wfailknown"}
Ops == {"okcall", "unknownroute", "undecodable", "handlerpanic", "callclosed", "pushclosed",
        "proxyok", "proxybackenddown", "proxypushbackenddown", "proxycut", "authreject", "overloadreject", "securemismatch",
        "latepre", "userstatus"} \cup ReplyFail
VARIABLES hist
Init == hist = <<>>
Step(o) == Len(hist) < MaxLen /\ hist' = Append(hist, o)
Next == \E o \in Ops : Step(o)
Spec == Init /\ [][Next]_hist
\* the abstract sentinel state: no operation of the alphabet is allowed to change it (checked on the real code)
Emit == Export = "" \/ Serialize(ToJson([ops |-> hist']) \o "\n", Export,
          [format |-> "TXT", charset |-> "UTF-8", openOptions |-> <<"WRITE", "CREATE", "APPEND">>]).exitValue = 0
=============================================================================
