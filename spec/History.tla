------------------------------ MODULE History ------------------------------
(***************************************************************************)
(* Histories for C15 (framework statuses are immutable) and the failure    *)
(* placements of C19 (proxy transparency).  The alphabet is the set of     *)
(* whole-process operations that produce framework statuses; TLC           *)
(* enumerates every history of at most MaxLen operations.  After every     *)
(* operation the harness snapshots all package-level statuses and repeats  *)
(* a fixed set of failing probes (call on a closed session -> 102, unknown *)
(* route -> 404, undecodable body -> 400, handler panic -> 500): the       *)
(* observable (code, message, cause) of each probe and the snapshot must   *)
(* never change.                                                           *)
(***************************************************************************)
EXTENDS Naturals, Sequences, FiniteSets, TLC, Json, IOUtils
CONSTANTS Export, MaxLen
Ops == {"okcall", "unknownroute", "undecodable", "handlerpanic", "callclosed", "pushclosed",
        "proxyok", "proxybackenddown", "proxypushbackenddown", "proxycut", "authreject", "overloadreject", "securemismatch",
        "latepre", "userstatus"}
VARIABLES hist
Init == hist = <<>>
Step(o) == Len(hist) < MaxLen /\ hist' = Append(hist, o)
Next == \E o \in Ops : Step(o)
Spec == Init /\ [][Next]_hist
\* the abstract sentinel state: no operation of the alphabet is allowed to change it (checked on the real code)
Emit == Export = "" \/ Serialize(ToJson([ops |-> hist']) \o "\n", Export,
          [format |-> "TXT", charset |-> "UTF-8", openOptions |-> <<"WRITE", "CREATE", "APPEND">>]).exitValue = 0
=============================================================================
