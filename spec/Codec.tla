-------------------------------- MODULE Codec --------------------------------
(***************************************************************************)
(* Abstract value domain and oracle for C11 (body codecs).  A shape is a   *)
(* string of a small grammar the Go harness turns into a reflect type and  *)
(* a value:  scalar "type:valueclass", slice "[]elem:len", array "[n]elem",*)
(* struct "{f1;f2;...}" (nesting allowed).  The capability matrix says     *)
(* which shapes each codec documents as supported; for those, decoding the *)
(* encoding must yield an equal value, element order included (roundtrip). *)
(* For every codec, decoding garbage must return an error or a value,      *)
(* never panic, never touch memory around the destination (clean).         *)
(***************************************************************************)
EXTENDS Naturals, Sequences, FiniteSets, TLC, Json, IOUtils
CONSTANTS Export, MaxFields

Ints   == {"int", "int8", "int16", "int32", "int64"}
Uints  == {"uint", "uint8", "uint16", "uint32", "uint64"}
Floats == {"float32", "float64"}
ValC(t) == IF t = "bool" THEN {"zero", "one"}
           ELSE IF t \in Ints THEN {"zero", "one", "neg", "min", "max"}
           ELSE IF t \in Uints THEN {"zero", "one", "max"}
           ELSE IF t \in Floats THEN {"zero", "one", "neg", "frac", "max"}
           ELSE IF t = "string" THEN {"empty", "ascii", "special", "utf8"}
           ELSE {"empty", "rand"}          \* bytes
ScalarT == {"bool"} \cup Ints \cup Uints \cup Floats \cup {"string", "bytes"}
Scalars == {t \o ":" \o v : t \in ScalarT, v \in {"zero", "one", "neg", "min", "max", "frac", "empty", "ascii", "special", "utf8", "rand"}}
ScalarOK(s) == \E t \in ScalarT : \E v \in ValC(t) : s = t \o ":" \o v
Elems  == {"string", "int32", "int64", "float64", "bool", "uint16"}
Num(n) == CASE n = 0 -> "0" [] n = 1 -> "1" [] n = 2 -> "2" [] n = 3 -> "3"
Slices == {"[]" \o e \o ":" \o Num(n) : e \in Elems, n \in 0..3}
Arrays == {"[" \o Num(n) \o "]" \o e : e \in Elems, n \in 1..3}
\* representative field shapes for structs
Rep     == {"int32:neg", "string:special", "bool:one", "float64:frac", "uint64:max", "[]string:2", "[3]int32", "bytes:rand"}
RepXml  == Rep \ {"[3]int32", "bytes:rand"}
RepForm == Rep \ {"bytes:rand"}
RECURSIVE Join(_)
Join(q) == IF Len(q) = 1 THEN q[1] ELSE q[1] \o ";" \o Join(Tail(q))
Structs(R) == {"{" \o Join(q) \o "}" : q \in UNION {[1..k -> R] : k \in 1..MaxFields}}
Nested == {"{int32:one;{string:utf8;[]int32:2}}", "{{bool:one};{float64:neg;{uint8:max}}}", "{[]string:3;{[2]int64;string:ascii}}"}

RT(cd, sh) == [fam |-> "codec", kind |-> "roundtrip", codec |-> cd, shape |-> sh, expect |-> "roundtrip"]
IL(cd, sh) == [fam |-> "codec", kind |-> "interleave", codec |-> cd, shape |-> sh, expect |-> "roundtrip"]
Garbage == {"empty", "random", "truncate", "flip", "overflow", "wrongtype"}
GB(cd, sh, g) == [fam |-> "codec", kind |-> "garbage", codec |-> cd, shape |-> sh, gclass |-> g, expect |-> "clean"]
Dest == {"{int32:one;string:ascii;[2]int32}", "{[]string:2;bool:one}", "string:ascii", "int64:one", "{float64:frac;{uint8:max}}"}

Cases ==
       {RT("plain", s) : s \in {x \in Scalars : ScalarOK(x)} \cup {"named:ascii", "named:utf8", "namedbytes:rand"}}
  \cup {RT("json", s) : s \in {x \in Scalars : ScalarOK(x)} \cup Slices \cup Arrays \cup Structs(Rep) \cup Nested}
  \cup {RT("xml", s) : s \in Structs(RepXml) \cup {"{" \o x \o "}" : x \in {y \in Scalars : ScalarOK(y) /\ y \notin {"bytes:rand", "bytes:empty"}} \cup Slices}}
  \cup {RT("form", s) : s \in Structs(RepForm) \cup {"{" \o x \o "}" : x \in {y \in Scalars : ScalarOK(y) /\ y \notin {"bytes:rand", "bytes:empty"}} \cup Slices \cup Arrays} \cup {"urlvalues"}}
  \cup {RT("protobuf", s) : s \in {"pb:empty", "pb:full", "pb:big"}}
  \cup {RT("thrift", s) : s \in {"thriftempty", "thriftdoc:small", "thriftdoc:big"}}
  \* the encoding of a value is not disturbed by later encodings (encode A, B, A', then decode all three)
  \cup {IL(cd, s) : cd \in {"json"}, s \in {"{int32:neg;string:special;[]string:2}", "[]int64:3"}}
  \cup {IL("xml", "{int32:neg;string:special;[]string:2}"), IL("form", "{int32:neg;string:special;[]string:2}"), IL("plain", "string:utf8"),
        IL("protobuf", "pb:full"), IL("protobuf", "pb:big"), IL("thrift", "thriftdoc:small"), IL("thrift", "thriftdoc:big")}
  \cup {GB(cd, s, g) : cd \in {"json", "xml", "form", "plain"}, s \in Dest, g \in Garbage}
  \cup {GB(cd, s, g) : cd \in {"protobuf"}, s \in {"pb:full"}, g \in {"empty", "random", "truncate", "flip"}}
  \cup {GB(cd, s, g) : cd \in {"thrift"}, s \in {"thriftempty"}, g \in {"empty", "random"}}
  \cup {GB("thrift", "thriftdoc:small", g) : g \in {"empty", "random", "truncate", "flip"}}

\* decoding into a destination that is a window of a larger buffer (a []byte with spare capacity, as a caller that
\* reuses an arena hands it in): nothing outside the window may change, whatever the length of the input
Window == {[fam |-> "codec", kind |-> "window", codec |-> "plain", shape |-> sh, expect |-> "clean"] : sh \in {"short", "fit", "long", "empty"}}

(***************************************************************************)
(* Capability matrix, continued: what a codec does with the memory it is   *)
(* given.                                                                  *)
(*                                                                         *)
(* (a) Every codec COPIES out of its input.  The framework hands a codec a *)
(* view of a pooled receive buffer that is reused for the next message of  *)
(* any session of the process, so a decoded value that still points into   *)
(* the input is rewritten later: decode(encode(v)) must stay equal to v    *)
(* after every byte of the input buffer has been overwritten.  AliasShapes *)
(* lists, per codec and within the matrix above, the shapes that hold      *)
(* reference data (strings, byte slices, slices / arrays / maps of strings,*)
(* structs of these); "pblist:*" is a protobuf message with repeated       *)
(* fields (the messages shipped in the repository have none), "map:*" are  *)
(* map[string]string / map[string][]string.                                *)
(***************************************************************************)
Codecs == {"json", "xml", "form", "plain", "protobuf", "thrift"}
RefScalar == {"string:ascii", "string:special", "string:utf8"}
RefSeq    == {"[]string:1", "[]string:3"}
RefArr    == {"[2]string"}
RefStruct == {"{string:ascii;[]string:2;int32:neg}", "{[]string:3;string:utf8;[2]string}"}
PbList    == {"pblist:empty", "pblist:one", "pblist:some"}
Wrap(S)   == {"{" \o x \o "}" : x \in S}
AliasShapes(cd) ==
  CASE cd = "plain"    -> RefScalar \cup {"bytes:rand", "named:ascii", "named:utf8", "namedbytes:rand"}
    [] cd = "json"     -> RefScalar \cup {"bytes:rand"} \cup RefSeq \cup RefArr \cup RefStruct \cup {"{bytes:rand;string:ascii}"} \cup Nested
                          \cup {"map:string", "map:strings"}
    [] cd = "xml"      -> Wrap(RefScalar \cup RefSeq) \cup {"{string:ascii;[]string:2;int32:neg}"}
    [] cd = "form"     -> Wrap(RefScalar \cup RefSeq \cup RefArr) \cup RefStruct \cup {"urlvalues", "map:strings"}
    [] cd = "protobuf" -> {"pb:full", "pb:big"} \cup PbList
    [] cd = "thrift"   -> {"thriftdoc:small", "thriftdoc:big"}
AL(cd, sh) == [fam |-> "codec", kind |-> "alias", codec |-> cd, shape |-> sh, expect |-> "roundtrip"]
Alias == UNION {{AL(cd, s) : s \in AliasShapes(cd)} : cd \in Codecs}

(***************************************************************************)
(* (b) "resets destination": decoding encode(v) into a destination that    *)
(* was used before (a caller that polls with ONE reply object) yields v,   *)
(* whatever the destination held.  Measured on the unchanged tree          *)
(* (2026-09-24, driver kind "reuse" run for all six codecs):               *)
(*   protobuf  TRUE   proto.Unmarshal resets the message first (a proto3   *)
(*                    encoding omits zero fields and repeated fields are   *)
(*                    appended to, so without the reset the result depends *)
(*                    on the past)                                         *)
(*   plain     TRUE   every destination kind is assigned as a whole        *)
(*                    (a byte slice is resized to the input)               *)
(*   thrift    TRUE   the codec itself does not reset, but a thrift struct *)
(*                    writes every field and its Read assigns every field  *)
(*                    it reads (lists are rebuilt), which holds for the    *)
(*                    struct types used here                               *)
(*   json      FALSE  encoding/json merges by Go convention: map entries   *)
(*                    and fields absent from the input keep what they held *)
(*   xml       FALSE  encoding/xml APPENDS to a slice that is not empty    *)
(*   form      FALSE  fields whose key is absent keep their value, and an  *)
(*                    empty slice is encoded as an absent key              *)
(* For the merging codecs the property statement ("decoding the encoding   *)
(* of a value yields an equal value") is read for a fresh destination only;*)
(* nothing is demanded of them here.  prev = what the destination received *)
(* before: "full" every field non-zero and every sequence longer than in v,*)
(* "same" another value of the same shape class.                           *)
(***************************************************************************)
ResetsDest == [json |-> FALSE, xml |-> FALSE, form |-> FALSE, plain |-> TRUE, protobuf |-> TRUE, thrift |-> TRUE]
Prev == {"full", "same"}
ReuseShapes(cd) ==
  CASE cd = "plain"    -> {x \in Scalars : ScalarOK(x)} \cup {"named:ascii", "named:utf8", "namedbytes:rand"}
    [] cd = "protobuf" -> {"pb:empty", "pb:full", "pb:big"} \cup PbList
    [] cd = "thrift"   -> {"thriftempty", "thriftdoc:small", "thriftdoc:big"}
    [] OTHER -> {}
RU(cd, sh, pv) == [fam |-> "codec", kind |-> "reuse", codec |-> cd, shape |-> sh, prev |-> pv, expect |-> "roundtrip"]
Reuse == UNION {{RU(cd, s, pv) : s \in ReuseShapes(cd), pv \in Prev} : cd \in {x \in Codecs : ResetsDest[x]}}
\* the added shapes also take part in the plain round trip / interleaving classes
Added == {RT("protobuf", s) : s \in PbList} \cup {IL("protobuf", "pblist:some")}
         \cup {RT("json", s) : s \in {"map:string", "map:strings"}} \cup {RT("form", "map:strings")}

\* byte-slice bodies bypass the codec whose id the message carries (message.UnmarshalBody copies them into the *[]byte
\* receiver): a receiver kept across calls (longer / shorter / equally long previous content, or spare capacity only) must
\* hold exactly the new, non-empty body afterwards
BytesReuse == {[fam |-> "codec", kind |-> "bytesreuse", codec |-> cd, shape |-> sh, prev |-> pv, expect |-> "roundtrip"] :
                 cd \in Codecs, sh \in {"short", "long"}, pv \in {"longer", "shorter", "equal", "spare"}}

VARIABLES c, done
vars == <<c, done>>
Init == c \in Cases \cup Window \cup Alias \cup Reuse \cup Added \cup BytesReuse /\ done = FALSE
Run == ~done /\ done' = TRUE /\ UNCHANGED c
Spec == Init /\ [][Run]_vars
OracleSane == (c.kind \in {"garbage", "window"}) <=> (c.expect = "clean")
Emit == Export = "" \/ Serialize(ToJson(c) \o "\n", Export,
          [format |-> "TXT", charset |-> "UTF-8", openOptions |-> <<"WRITE", "CREATE", "APPEND">>]).exitValue = 0
=============================================================================
