-------------------------------- MODULE Codec --------------------------------
(***************************************************************************)
(* Abstract value domain and oracle for C11 (body codecs).  A shape is a   *)
(* string of a small grammar the Go harness turns into a reflect type and  *)
(* a value:  scalar "type:valueclass", slice "[]elem:len", array "[n]elem",*)
(* struct "{f1;f2;...}" (nesting allowed).  The capability matrix says     *)
(* which shapes each codec documents as supported; for those, decoding the *)
(* encoding must yield an equal value, element order included (roundtrip). *)
(* For every codec, decoding garbage must return an error or a value,      *)
(* never panic, never touch memory around the destination (clean).         *)
(***************************************************************************)
EXTENDS Naturals, Sequences, FiniteSets, TLC, Json, IOUtils
CONSTANTS Export, MaxFields

Ints   == {"int", "int8", "int16", "int32", "int64"}
Uints  == {"uint", "uint8", "uint16", "uint32", "uint64"}
Floats == {"float32", "float64"}
ValC(t) == IF t = "bool" THEN {"zero", "one"}
           ELSE IF t \in Ints THEN {"zero", "one", "neg", "min", "max"}
           ELSE IF t \in Uints THEN {"zero", "one", "max"}
           ELSE IF t \in Floats THEN {"zero", "one", "neg", "frac", "max"}
           ELSE IF t = "string" THEN {"empty", "ascii", "special", "utf8"}
           ELSE {"empty", "rand"}          \* bytes
ScalarT == {"bool"} \cup Ints \cup Uints \cup Floats \cup {"string", "bytes"}
Scalars == {t \o ":" \o v : t \in ScalarT, v \in {"zero", "one", "neg", "min", "max", "frac", "empty", "ascii", "special", "utf8", "rand"}}
ScalarOK(s) == \E t \in ScalarT : \E v \in ValC(t) : s = t \o ":" \o v
Elems  == {"string", "int32", "int64", "float64", "bool", "uint16"}
Num(n) == CASE n = 0 -> "0" [] n = 1 -> "1" [] n = 2 -> "2" [] n = 3 -> "3"
Slices == {"[]" \o e \o ":" \o Num(n) : e \in Elems, n \in 0..3}
Arrays == {"[" \o Num(n) \o "]" \o e : e \in Elems, n \in 1..3}
\* representative field shapes for structs
Rep     == {"int32:neg", "string:special", "bool:one", "float64:frac", "uint64:max", "[]string:2", "[3]int32", "bytes:rand"}
RepXml  == Rep \ {"[3]int32", "bytes:rand"}
RepForm == Rep \ {"bytes:rand"}
RECURSIVE Join(_)
Join(q) == IF Len(q) = 1 THEN q[1] ELSE q[1] \o ";" \o Join(Tail(q))
Structs(R) == {"{" \o Join(q) \o "}" : q \in UNION {[1..k -> R] : k \in 1..MaxFields}}
Nested == {"{int32:one;{string:utf8;[]int32:2}}", "{{bool:one};{float64:neg;{uint8:max}}}", "{[]string:3;{[2]int64;string:ascii}}"}

RT(cd, sh) == [fam |-> "codec", kind |-> "roundtrip", codec |-> cd, shape |-> sh, expect |-> "roundtrip"]
IL(cd, sh) == [fam |-> "codec", kind |-> "interleave", codec |-> cd, shape |-> sh, expect |-> "roundtrip"]
Garbage == {"empty", "random", "truncate", "flip", "overflow", "wrongtype"}
GB(cd, sh, g) == [fam |-> "codec", kind |-> "garbage", codec |-> cd, shape |-> sh, gclass |-> g, expect |-> "clean"]
Dest == {"{int32:one;string:ascii;[2]int32}", "{[]string:2;bool:one}", "string:ascii", "int64:one", "{float64:frac;{uint8:max}}"}

Cases ==
       {RT("plain", s) : s \in {x \in Scalars : ScalarOK(x)} \cup {"named:ascii", "named:utf8", "namedbytes:rand"}}
  \cup {RT("json", s) : s \in {x \in Scalars : ScalarOK(x)} \cup Slices \cup Arrays \cup Structs(Rep) \cup Nested}
  \cup {RT("xml", s) : s \in Structs(RepXml) \cup {"{" \o x \o "}" : x \in {y \in Scalars : ScalarOK(y) /\ y \notin {"bytes:rand", "bytes:empty"}} \cup Slices}}
  \cup {RT("form", s) : s \in Structs(RepForm) \cup {"{" \o x \o "}" : x \in {y \in Scalars : ScalarOK(y) /\ y \notin {"bytes:rand", "bytes:empty"}} \cup Slices \cup Arrays} \cup {"urlvalues"}}
  \cup {RT("protobuf", s) : s \in {"pb:empty", "pb:full", "pb:big"}}
  \cup {RT("thrift", s) : s \in {"thriftempty", "thriftdoc:small", "thriftdoc:big"}}
  \* the encoding of a value is not disturbed by later encodings (encode A, B, A', then decode all three)
  \cup {IL(cd, s) : cd \in {"json"}, s \in {"{int32:neg;string:special;[]string:2}", "[]int64:3"}}
  \cup {IL("xml", "{int32:neg;string:special;[]string:2}"), IL("form", "{int32:neg;string:special;[]string:2}"), IL("plain", "string:utf8"),
        IL("protobuf", "pb:full"), IL("protobuf", "pb:big"), IL("thrift", "thriftdoc:small"), IL("thrift", "thriftdoc:big")}
  \cup {GB(cd, s, g) : cd \in {"json", "xml", "form", "plain"}, s \in Dest, g \in Garbage}
  \cup {GB(cd, s, g) : cd \in {"protobuf"}, s \in {"pb:full"}, g \in {"empty", "random", "truncate", "flip"}}
  \cup {GB(cd, s, g) : cd \in {"thrift"}, s \in {"thriftempty"}, g \in {"empty", "random"}}
  \cup {GB("thrift", "thriftdoc:small", g) : g \in {"empty", "random", "truncate", "flip"}}

\* decoding into a destination that is a window of a larger buffer (a []byte with spare capacity, as a caller that
\* reuses an arena hands it in): nothing outside the window may change, whatever the length of the input
Window == {[fam |-> "codec", kind |-> "window", codec |-> "plain", shape |-> sh, expect |-> "clean"] : sh \in {"short", "fit", "long", "empty"}}
VARIABLES c, done
vars == <<c, done>>
Init == c \in Cases \cup Window /\ done = FALSE
Run == ~done /\ done' = TRUE /\ UNCHANGED c
Spec == Init /\ [][Run]_vars
OracleSane == (c.kind \in {"garbage", "window"}) <=> (c.expect = "clean")
Emit == Export = "" \/ Serialize(ToJson(c) \o "\n", Export,
          [format |-> "TXT", charset |-> "UTF-8", openOptions |-> <<"WRITE", "CREATE", "APPEND">>]).exitValue = 0
=============================================================================
