-------------------------------- MODULE Peer --------------------------------
(***************************************************************************)
(* Layer M: life of the sessions of two peers (a "server" and a "client")  *)
(* under histories of peer-level operations (C07: accept, dial, hook       *)
(* reject, call, local Close, cut, peer Close).                            *)
(*                                                                         *)
(* A session pair is brought up along one of the three code paths:         *)
(*   "serveconn": Peer.ServeConn on both ends of a connection;             *)
(*   "listen"   : the accept loop behind ListenAndServe on the server end, *)
(*                ServeConn on the client end;                             *)
(*   "dial"     : Peer.Dial over loopback TCP to the accept loop.          *)
(* Each end runs its connection hooks (PostAccept / PostDial) first; a     *)
(* scripted plugin makes them succeed or reject (sv, cv).  As in the code, *)
(* an end whose own hooks reject never becomes a session (it is closed);   *)
(* the other end, whose hooks succeeded, is established and then sees the  *)
(* connection go away.  Only when both succeed the pair is live.           *)
(* Per end of each slot: "none" (not tried), "rej" (own hooks rejected),   *)
(* "up" (established, healthy, indexed), "down" (was established, ended).  *)
(***************************************************************************)
EXTENDS Naturals, Sequences, FiniteSets, TLC, Json, IOUtils
CONSTANTS Export, MaxOps, Slots

Paths == {"serveconn", "listen", "dial"}
\* how[s]: the way the pair of slot s ended -- it changes nothing in this model, but it is part of the VIEW so
\* that what follows an ending is explored (and exported) after each kind of ending, not after the first one found
VARIABLES srv, cli, path, sclosed, cclosed, n, hist, how
vars == <<srv, cli, path, sclosed, cclosed, n, hist, how>>
view == <<srv, cli, path, sclosed, cclosed, n, how>>

Init == /\ srv = [s \in Slots |-> "none"] /\ cli = [s \in Slots |-> "none"] /\ path = [s \in Slots |-> "none"]
        /\ sclosed = FALSE /\ cclosed = FALSE /\ n = 0 /\ hist = <<>> /\ how = [s \in Slots |-> ""]

Up(s) == srv[s] = "up" /\ cli[s] = "up"
Count(f) == Cardinality({s \in Slots : f[s] = "up"})
\* what every probe after the operation must show
Rec(op, s, p, sv, cv, exp) ==
  /\ n < MaxOps /\ n' = n + 1
  /\ hist' = Append(hist, [op |-> op, slot |-> s, path |-> p, sv |-> sv, cv |-> cv, expect |-> exp,
                           srvcount |-> Count(srv'), clicount |-> Count(cli'),
                           srvst |-> [x \in Slots |-> srv'[x]], clist |-> [x \in Slots |-> cli'[x]]])

\* slots are used in order (symmetry)
Fresh(s) == srv[s] = "none" /\ cli[s] = "none" /\ \A t \in Slots : t < s => srv[t] # "none" \/ cli[t] # "none"

\* server hook verdicts: "ok"; "reject"; "panic" (the hook panics: the same as a rejection); "idmod" (the hooks succeed, and on the
\* way one of them assigns a session id of its own and a later one wraps the connection with ModifySocket)
\* "idreject": like idmod, but a later hook of the chain rejects the connection (the session was already given an id)
SrvRej(sv) == sv \in {"reject", "panic", "idreject"}
Establish(s, p, sv, cv) ==
  /\ Fresh(s) /\ ~sclosed /\ ~cclosed
  /\ srv' = [srv EXCEPT ![s] = IF SrvRej(sv) THEN "rej" ELSE IF cv = "reject" THEN "down" ELSE "up"]
  /\ cli' = [cli EXCEPT ![s] = IF cv = "reject" THEN "rej" ELSE IF SrvRej(sv) THEN "down" ELSE "up"]
  /\ path' = [path EXCEPT ![s] = p]
  /\ how' = [how EXCEPT ![s] = IF SrvRej(sv) THEN "rejsrv" ELSE IF cv = "reject" THEN "rejcli" ELSE ""]
  /\ UNCHANGED <<sclosed, cclosed>>
  /\ Rec("establish", s, p, sv, cv, IF ~SrvRej(sv) /\ cv = "ok" THEN "live" ELSE "notlive")

\* a Dial to a peer whose Close() has run: the listener is gone
DialClosed(s) ==
  /\ Fresh(s) /\ sclosed /\ ~cclosed
  /\ UNCHANGED <<srv, cli, path, sclosed, cclosed, how>>
  /\ Rec("dialclosed", s, "dial", "ok", "ok", "dialfailed")

End(op, s) ==   \* Session.Close() on one end, or the connection is cut: both ends end
  /\ Up(s)
  /\ srv' = [srv EXCEPT ![s] = "down"] /\ cli' = [cli EXCEPT ![s] = "down"]
  /\ how' = [how EXCEPT ![s] = op]
  /\ UNCHANGED <<path, sclosed, cclosed>>
  /\ Rec(op, s, path[s], "ok", "ok", "ended")

Call(s) ==      \* a call from the client end of the slot: served iff the pair is live, refused at once otherwise
  /\ cli[s] \in {"up", "down"}
  /\ UNCHANGED <<srv, cli, path, sclosed, cclosed, how>>
  /\ Rec("call", s, path[s], "ok", "ok", IF Up(s) THEN "ok" ELSE "closed")

PeerClose(side) ==   \* Peer.Close(): every session of that peer is closed, so every live pair ends
  /\ IF side = "srv" THEN ~sclosed ELSE ~cclosed
  /\ srv' = [s \in Slots |-> IF srv[s] = "up" THEN "down" ELSE srv[s]]
  /\ cli' = [s \in Slots |-> IF cli[s] = "up" THEN "down" ELSE cli[s]]
  /\ sclosed' = (sclosed \/ side = "srv") /\ cclosed' = (cclosed \/ side = "cli")
  /\ how' = [s \in Slots |-> IF Up(s) THEN "peerclose" \o side ELSE how[s]]
  /\ UNCHANGED path
  /\ Rec("peerclose" \o side, 0, "none", "ok", "ok", "ended")

Next == \/ \E s \in Slots, p \in Paths, sv \in {"ok", "reject", "panic", "idmod", "idreject"}, cv \in {"ok", "reject"} : Establish(s, p, sv, cv)
        \/ \E s \in Slots : DialClosed(s) \/ End("closecli", s) \/ End("closesrv", s) \/ End("cut", s) \/ Call(s)
        \/ PeerClose("srv") \/ PeerClose("cli")
Spec == Init /\ [][Next]_vars

\* C07 on the model
BothOrNeither == \A s \in Slots : (srv[s] = "up") <=> (cli[s] = "up")           \* a pair is live on both ends or on none (quiescent points)
ClosedStays   == [][\A s \in Slots : (srv[s] \in {"down", "rej"} => srv'[s] = srv[s]) /\ (cli[s] \in {"down", "rej"} => cli'[s] = cli[s])]_vars
NothingAfterPeerClose == sclosed => Count(srv) = 0

Emit == Export = "" \/ Serialize(ToJson([steps |-> hist']) \o "\n", Export,
          [format |-> "TXT", charset |-> "UTF-8", openOptions |-> <<"WRITE", "CREATE", "APPEND">>]).exitValue = 0
=============================================================================
