----------------------------- MODULE QpsAtomic -----------------------------
(* qpsLimiter.take at the granularity of its atomic operations -- a look at the token count, then an atomic  *)
(* decrement whose RESULT decides -- for Threads concurrent takers on a bucket of Cap tokens and no refill    *)
(* in between: design-level check that no interleaving admits more takers than there are tokens.            *)
(* (DecideOnLook = TRUE models the variant that trusts the look and ignores the result of the decrement.)    *)
EXTENDS Naturals, Integers, FiniteSets, TLC
CONSTANTS Threads, Cap, DecideOnLook
VARIABLES tokens, pc
vars == <<tokens, pc>>
Init == tokens = Cap /\ pc = [t \in Threads |-> "look"]
Look(t) == pc[t] = "look" /\ pc' = [pc EXCEPT ![t] = IF tokens <= 0 THEN "rejected" ELSE "dec"] /\ UNCHANGED tokens
Dec(t)  == pc[t] = "dec" /\ tokens' = tokens - 1
           /\ pc' = [pc EXCEPT ![t] = IF DecideOnLook \/ tokens - 1 >= 0 THEN "admitted" ELSE "rejected"]
Next == \E t \in Threads : Look(t) \/ Dec(t)
Spec == Init /\ [][Next]_vars
NeverOver == Cardinality({t \in Threads : pc[t] = "admitted"}) <= Cap
=============================================================================
