SPECIFICATION Spec
CONSTANTS
  Calls = {c1}
  MaxGen = 2
  Retries = 1
  MaxCuts = 2
  WithClose = TRUE
  MayReject = TRUE
  MayDown = TRUE
  FixCloseLock = TRUE
  FixLostClose = FALSE
  FixStaleEnd = TRUE
  FixStaleReader = TRUE
  FixLateCancel = TRUE
INVARIANT CloseEffectiveG
CHECK_DEADLOCK FALSE
