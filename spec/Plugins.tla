------------------------------ MODULE Plugins ------------------------------
(***************************************************************************)
(* Plugin placement trees for C09: global-left plugins (NewPeer), global-  *)
(* right plugins (AppendRight before any route), a chain of 0..3 nested    *)
(* router groups with 0..1 plugin each, 1..2 sibling handlers under the    *)
(* innermost group with 0..1 plugin each, optionally one global plugin     *)
(* appended AFTER the routes exist (left or right).  One CALL is sent to   *)
(* the target handler; at most one (plugin, stage) vetoes.                 *)
(* The expected hook sequence is the documented one: header stage on the   *)
(* global container (left ++ right), body stages on the matched route's    *)
(* chain left ++ groups (outer to inner) ++ handler ++ right, reply-write  *)
(* stages on the same chain.  For the late global plugin the statement     *)
(* leaves open whether already registered routes pick it up: its hooks on  *)
(* the route chain are optional (but, if they fire, in the right place).   *)
(***************************************************************************)
EXTENDS Naturals, Sequences, FiniteSets, TLC, Json, IOUtils
CONSTANTS Export

Num(n) == CASE n = 0 -> "0" [] n = 1 -> "1" [] n = 2 -> "2" [] n = 3 -> "3"
Names(prefix, n) == [i \in 1..n |-> prefix \o Num(i)]
Cfgs == {c \in [nl : 0..2, nr : 0..2, depth : 0..3, gp : [1..3 -> 0..1], sib : 1..2, hp : [1..2 -> 0..1],
                late : {"none", "left", "right"}, target : 1..2, vidx : 0..9, vstage : {"PostReadCallHeader", "PreReadCallBody", "PostReadCallBody"}] :
           /\ c.target <= c.sib
           /\ \A i \in 1..3 : i > c.depth => c.gp[i] = 0
           /\ (c.sib = 1 => c.hp[2] = 0)}

Left(c)  == (IF c.late = "left" THEN <<"LL">> ELSE <<>>) \o Names("L", c.nl)
Right(c) == Names("R", c.nr) \o (IF c.late = "right" THEN <<"LR">> ELSE <<>>)
Groups(c) == SelectSeq(Names("G", c.depth), LAMBDA g : \E i \in 1..c.depth : g = "G" \o Num(i) /\ c.gp[i] = 1)
Handler(c) == IF c.hp[c.target] = 1 THEN <<"H" \o Num(c.target)>> ELSE <<>>
Global(c) == Left(c) \o Right(c)
Chain(c)  == Left(c) \o Groups(c) \o Handler(c) \o Right(c)
Optional(c) == {"LL", "LR"}          \* on the route chain only

\* the vetoing plugin: the vidx-th element of the list that runs the veto stage (0 = no veto)
VetoList(c) == IF c.vstage = "PostReadCallHeader" THEN Global(c) ELSE Chain(c)
VetoOK(c) == c.vidx <= Len(VetoList(c)) /\ (c.vidx > 0 => VetoList(c)[c.vidx] \notin Optional(c) \/ c.vstage = "PostReadCallHeader")
VetoPl(c) == IF c.vidx = 0 THEN "none" ELSE VetoList(c)[c.vidx]

Stage(list, stage, c) ==     \* hooks of one stage, cut after the vetoing plugin
  LET cut == IF c.vidx > 0 /\ c.vstage = stage THEN c.vidx ELSE Len(list)
  IN  [i \in 1..cut |-> list[i] \o "." \o stage]
Vetoed(c, stage) == c.vidx > 0 /\ c.vstage = stage
Expected(c) ==
  LET h1 == Stage(Global(c), "PostReadCallHeader", c)
      b1 == IF Vetoed(c, "PostReadCallHeader") THEN <<>> ELSE Stage(Chain(c), "PreReadCallBody", c)
      b2 == IF Vetoed(c, "PostReadCallHeader") \/ Vetoed(c, "PreReadCallBody") THEN <<>> ELSE Stage(Chain(c), "PostReadCallBody", c)
      \* reply-write stages run on the container current at that point: the chain once the route matched
      wl == IF Vetoed(c, "PostReadCallHeader") THEN Global(c) ELSE Chain(c)
      w1 == [i \in 1..Len(wl) |-> wl[i] \o ".PreWriteReply"]
      w2 == [i \in 1..Len(wl) |-> wl[i] \o ".PostWriteReply"]
  IN  h1 \o b1 \o b2 \o w1 \o w2
OptionalHooks(c) == {p \o "." \o s : p \in Optional(c), s \in {"PreReadCallBody", "PostReadCallBody", "PreWriteReply", "PostWriteReply"}}
Invoked(c) == c.vidx = 0

VARIABLES c, done
vars == <<c, done>>
Init == c \in {x \in Cfgs : VetoOK(x)} /\ done = FALSE
Run == ~done /\ done' = TRUE /\ UNCHANGED c
Spec == Init /\ [][Run]_vars
\* sanity: registration order is respected in the expected chain and no plugin appears twice
NoDup == \A i, j \in 1..Len(Chain(c)) : i # j => Chain(c)[i] # Chain(c)[j]
Emit == Export = "" \/
  Serialize(ToJson([nl |-> c.nl, nr |-> c.nr, depth |-> c.depth, gp |-> c.gp, sib |-> c.sib, hp |-> c.hp, late |-> c.late,
                    target |-> c.target, vetopl |-> VetoPl(c), vstage |-> c.vstage,
                    exphooks |-> Expected(c), optional |-> OptionalHooks(c), invoked |-> Invoked(c)]) \o "\n", Export,
            [format |-> "TXT", charset |-> "UTF-8", openOptions |-> <<"WRITE", "CREATE", "APPEND">>]).exitValue = 0
=============================================================================
