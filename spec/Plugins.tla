------------------------------ MODULE Plugins ------------------------------
(***************************************************************************)
(* Plugin placement trees for C09: global-left plugins (NewPeer), global-  *)
(* right plugins (AppendRight before any route), a chain of 0..3 nested    *)
(* router groups with 0..1 plugin each, 1..2 sibling handlers under the    *)
(* innermost group with 0..1 plugin each, optionally one global plugin     *)
(* appended AFTER the routes exist (left or right).  One CALL is sent to   *)
(* the target handler; at most one (plugin, stage) vetoes.                 *)
(* The expected hook sequence is the documented one: header stage on the   *)
(* global container (left ++ right), body stages on the matched route's    *)
(* chain left ++ groups (outer to inner) ++ handler ++ right, reply-write  *)
(* stages on the same chain.  For the late global plugin the statement     *)
(* leaves open whether already registered routes pick it up: its hooks on  *)
(* the route chain are optional (but, if they fire, in the right place).   *)
(*                                                                         *)
(* Second class (records with an `origin` field): HOW the global lists     *)
(* came into being, with the same final lists judged the same way.         *)
(* origin = "literal" (plugins as literal arguments of NewPeer, as above), *)
(* "sparecap" (NewPeer is handed a slice that has room to spare),          *)
(* "removedleft" / "removedright" (one more global plugin LX / RX, at      *)
(* either end of its list, removed by name before the routes exist),       *)
(* "twoleft" / "tworight" (two plugins appended at once onto a peer that   *)
(* already has some on that side).  `build` lists the construction steps   *)
(* for the driver.  These scenarios always have two sibling handlers with  *)
(* different handler-level plugins and call BOTH routes, in either order   *)
(* (`calls`, each with its own expected hook sequence); at most one        *)
(* handler-level plugin vetoes at a body stage, so a veto concerns exactly *)
(* one of the two routes.                                                  *)
(***************************************************************************)
EXTENDS Naturals, Sequences, FiniteSets, TLC, Json, IOUtils
CONSTANTS Export

Num(n) == CASE n = 0 -> "0" [] n = 1 -> "1" [] n = 2 -> "2" [] n = 3 -> "3"
Names(prefix, n) == [i \in 1..n |-> prefix \o Num(i)]
Cfgs == {c \in [nl : 0..2, nr : 0..2, depth : 0..3, gp : [1..3 -> 0..1], sib : 1..2, hp : [1..2 -> 0..1],
                late : {"none", "left", "right"}, target : 1..2, vidx : 0..9, vstage : {"PostReadCallHeader", "PreReadCallBody", "PostReadCallBody"}] :
           /\ c.target <= c.sib
           /\ \A i \in 1..3 : i > c.depth => c.gp[i] = 0
           /\ (c.sib = 1 => c.hp[2] = 0)}

Left(c)  == (IF c.late = "left" THEN <<"LL">> ELSE <<>>) \o Names("L", c.nl)
Right(c) == Names("R", c.nr) \o (IF c.late = "right" THEN <<"LR">> ELSE <<>>)
Groups(c) == SelectSeq(Names("G", c.depth), LAMBDA g : \E i \in 1..c.depth : g = "G" \o Num(i) /\ c.gp[i] = 1)
Handler(c) == IF c.hp[c.target] = 1 THEN <<"H" \o Num(c.target)>> ELSE <<>>
Global(c) == Left(c) \o Right(c)
Chain(c)  == Left(c) \o Groups(c) \o Handler(c) \o Right(c)
Optional(c) == {"LL", "LR"}          \* on the route chain only

\* the vetoing plugin: the vidx-th element of the list that runs the veto stage (0 = no veto)
VetoList(c) == IF c.vstage = "PostReadCallHeader" THEN Global(c) ELSE Chain(c)
VetoOK(c) == c.vidx <= Len(VetoList(c)) /\ (c.vidx > 0 => VetoList(c)[c.vidx] \notin Optional(c) \/ c.vstage = "PostReadCallHeader")
VetoPl(c) == IF c.vidx = 0 THEN "none" ELSE VetoList(c)[c.vidx]

Stage(list, stage, c) ==     \* hooks of one stage, cut after the vetoing plugin
  LET cut == IF c.vidx > 0 /\ c.vstage = stage THEN c.vidx ELSE Len(list)
  IN  [i \in 1..cut |-> list[i] \o "." \o stage]
Vetoed(c, stage) == c.vidx > 0 /\ c.vstage = stage
Expected(c) ==
  LET h1 == Stage(Global(c), "PostReadCallHeader", c)
      b1 == IF Vetoed(c, "PostReadCallHeader") THEN <<>> ELSE Stage(Chain(c), "PreReadCallBody", c)
      b2 == IF Vetoed(c, "PostReadCallHeader") \/ Vetoed(c, "PreReadCallBody") THEN <<>> ELSE Stage(Chain(c), "PostReadCallBody", c)
      \* reply-write stages run on the container current at that point: the chain once the route matched
      wl == IF Vetoed(c, "PostReadCallHeader") THEN Global(c) ELSE Chain(c)
      w1 == [i \in 1..Len(wl) |-> wl[i] \o ".PreWriteReply"]
      w2 == [i \in 1..Len(wl) |-> wl[i] \o ".PostWriteReply"]
  IN  h1 \o b1 \o b2 \o w1 \o w2
OptionalHooks(c) == {p \o "." \o s : p \in Optional(c), s \in {"PreReadCallBody", "PostReadCallBody", "PreWriteReply", "PostWriteReply"}}
Invoked(c) == c.vidx = 0

\* --- second class: origin of the global lists, both sibling routes called --------------------------------------
Origins == {"literal", "sparecap", "removedleft", "removedright", "twoleft", "tworight"}
OCfgs == {c \in [origin : Origins, xpos : 0..2, nl : 0..2, nr : 0..2, depth : 0..2, gp : [1..3 -> 0..1], sib : {2}, hp : [1..2 -> 0..1],
                 late : {"none", "left", "right"}, order : {<<1, 2>>, <<2, 1>>}, vetopl : {"none", "H1", "H2"},
                 vstage : {"PreReadCallBody", "PostReadCallBody"}] :
           /\ c.hp[1] + c.hp[2] >= 1                                   \* the siblings differ in their handler-level plugins
           /\ \A i \in 1..3 : i > c.depth => c.gp[i] = 0
           /\ (c.vetopl = "H1" => c.hp[1] = 1) /\ (c.vetopl = "H2" => c.hp[2] = 1)
           /\ (c.vetopl = "none" => c.vstage = "PreReadCallBody")
           /\ (c.origin = "twoleft" => c.nl >= 1) /\ (c.origin = "tworight" => c.nr >= 1)
           /\ c.xpos \in (CASE c.origin = "removedleft" -> {0, c.nl} [] c.origin = "removedright" -> {0, c.nr} [] OTHER -> {0})}
IsO(c) == "origin" \in DOMAIN c
InsertAt(s, k, x) == SubSeq(s, 1, k) \o <<x>> \o SubSeq(s, k + 1, Len(s))
\* the final lists
OLeft(c)  == (IF c.late = "left" THEN <<"LL">> ELSE <<>>) \o (IF c.origin = "twoleft" THEN <<"LA", "LB">> ELSE <<>>) \o Names("L", c.nl)
ORight(c) == Names("R", c.nr) \o (IF c.origin = "tworight" THEN <<"RA", "RB">> ELSE <<>>) \o (IF c.late = "right" THEN <<"LR">> ELSE <<>>)
OGlobal(c) == OLeft(c) \o ORight(c)
OChain(c, t) == OLeft(c) \o Groups(c) \o (IF c.hp[t] = 1 THEN <<"H" \o Num(t)>> ELSE <<>>) \o ORight(c)
\* how they are built before the routes are registered (the late plugin comes after the routes, as in the first class)
BStep(op, how, names) == [op |-> op, how |-> how, names |-> names]
Build(c) ==
  LET l0 == IF c.origin = "removedleft" THEN InsertAt(Names("L", c.nl), c.xpos, "LX") ELSE Names("L", c.nl)
      r0 == IF c.origin = "removedright" THEN InsertAt(Names("R", c.nr), c.xpos, "RX") ELSE Names("R", c.nr)
  IN  <<BStep("newpeer", IF c.origin = "sparecap" THEN "sparecap" ELSE "literal", l0)>>
   \o [i \in 1..Len(r0) |-> BStep("appendright", "", <<r0[i]>>)]
   \o (IF c.origin = "twoleft" THEN <<BStep("appendleft", "", <<"LA", "LB">>)>> ELSE <<>>)
   \o (IF c.origin = "tworight" THEN <<BStep("appendright", "", <<"RA", "RB">>)>> ELSE <<>>)
   \o (IF c.origin = "removedleft" THEN <<BStep("remove", "", <<"LX">>)>> ELSE <<>>)
   \o (IF c.origin = "removedright" THEN <<BStep("remove", "", <<"RX">>)>> ELSE <<>>)
Pos(list, p) == IF \E i \in 1..Len(list) : list[i] = p THEN CHOOSE i \in 1..Len(list) : list[i] = p ELSE 0
\* the vetoing plugin stops a message only if it is on the list that runs the stage for THAT message
OStage(list, stage, c) ==
  LET k == IF c.vstage = stage THEN Pos(list, c.vetopl) ELSE 0
      cut == IF k > 0 THEN k ELSE Len(list)
  IN  [i \in 1..cut |-> list[i] \o "." \o stage]
OVetoed(c, t, stage) == c.vstage = stage /\ Pos(OChain(c, t), c.vetopl) > 0
OExpected(c, t) ==
  LET ch == OChain(c, t)
      h1 == [i \in 1..Len(OGlobal(c)) |-> OGlobal(c)[i] \o ".PostReadCallHeader"]
      b1 == OStage(ch, "PreReadCallBody", c)
      b2 == IF OVetoed(c, t, "PreReadCallBody") THEN <<>> ELSE OStage(ch, "PostReadCallBody", c)
      w1 == [i \in 1..Len(ch) |-> ch[i] \o ".PreWriteReply"]
      w2 == [i \in 1..Len(ch) |-> ch[i] \o ".PostWriteReply"]
  IN  h1 \o b1 \o b2 \o w1 \o w2
OCalls(c) == [i \in 1..2 |-> [target |-> c.order[i], exphooks |-> OExpected(c, c.order[i]),
                              invoked |-> ~(OVetoed(c, c.order[i], "PreReadCallBody") \/ OVetoed(c, c.order[i], "PostReadCallBody"))]]

VARIABLES c, done
vars == <<c, done>>
Init == c \in {x \in Cfgs : VetoOK(x)} \cup OCfgs /\ done = FALSE
Run == ~done /\ done' = TRUE /\ UNCHANGED c
Spec == Init /\ [][Run]_vars
\* sanity: registration order is respected in the expected chain and no plugin appears twice
NoDup == IF IsO(c) THEN \A t \in 1..2 : \A i, j \in 1..Len(OChain(c, t)) : i # j => OChain(c, t)[i] # OChain(c, t)[j]
         ELSE \A i, j \in 1..Len(Chain(c)) : i # j => Chain(c)[i] # Chain(c)[j]
EmitO ==
  Serialize(ToJson([origin |-> c.origin, xpos |-> c.xpos, build |-> Build(c), nl |-> c.nl, nr |-> c.nr, depth |-> c.depth, gp |-> c.gp,
                    sib |-> c.sib, hp |-> c.hp, late |-> c.late, order |-> c.order, vetopl |-> c.vetopl, vstage |-> c.vstage,
                    left |-> OLeft(c), right |-> ORight(c), calls |-> OCalls(c), optional |-> OptionalHooks(c)]) \o "\n", Export,
            [format |-> "TXT", charset |-> "UTF-8", openOptions |-> <<"WRITE", "CREATE", "APPEND">>]).exitValue = 0
EmitT ==
  Serialize(ToJson([nl |-> c.nl, nr |-> c.nr, depth |-> c.depth, gp |-> c.gp, sib |-> c.sib, hp |-> c.hp, late |-> c.late,
                    target |-> c.target, vetopl |-> VetoPl(c), vstage |-> c.vstage,
                    exphooks |-> Expected(c), optional |-> OptionalHooks(c), invoked |-> Invoked(c)]) \o "\n", Export,
            [format |-> "TXT", charset |-> "UTF-8", openOptions |-> <<"WRITE", "CREATE", "APPEND">>]).exitValue = 0
Emit == Export = "" \/ (IsO(c) /\ EmitO) \/ (~IsO(c) /\ EmitT)
=============================================================================
