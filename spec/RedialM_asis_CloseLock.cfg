SPECIFICATION Spec
CONSTANTS
  Calls = {c1, c2}
  MaxGen = 2
  Retries = 1
  MaxCuts = 2
  WithClose = TRUE
  MayReject = TRUE
  MayDown = TRUE
  FixCloseLock = FALSE
  FixLostClose = TRUE
  FixStaleEnd = TRUE
  FixStaleReader = TRUE
  FixLateCancel = TRUE
INVARIANT NoHangG
CHECK_DEADLOCK FALSE
