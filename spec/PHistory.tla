------------------------------ MODULE PHistory ------------------------------
(* Layer P trace specification for C15: every snapshot of the package-level statuses equals the first *)
(* one of the process, and every repetition of a failing probe yields the same (code, msg, cause).      *)
EXTENDS Naturals, Sequences, FiniteSets, TLC, Json, IOUtils
Trace == ndJsonDeserialize(IOEnv.VERIF_TRACE)
N == Len(Trace)
VARIABLES l, first, probes
vars == <<l, first, probes>>
Ev == Trace[l]
Is(e) == l <= N /\ Ev.ev = e
Step == l' = l + 1 /\ TLCSet(1, l)
Init == l = 1 /\ first = "" /\ probes = <<>> /\ TLCSet(1, 0)
\* the snapshot is process-wide: it is NOT reset between traces of one process
Reset == Is("Reset") /\ UNCHANGED <<first, probes>> /\ Step
Sentinels == Is("Sentinels") /\ (first = "" \/ Ev.v = first) /\ Ev.v = Ev.expected
             /\ first' = (IF first = "" THEN Ev.v ELSE first) /\ UNCHANGED probes /\ Step
Known(name) == \E i \in 1..Len(probes) : probes[i][1] = name
Val(name) == (CHOOSE i \in 1..Len(probes) : probes[i][1] = name)
Probe == Is("Probe") /\ (Known(Ev.name) => probes[Val(Ev.name)][2] = Ev.v) /\ Ev.v = Ev.expected
         /\ probes' = (IF Known(Ev.name) THEN probes ELSE Append(probes, <<Ev.name, Ev.v>>)) /\ UNCHANGED first /\ Step
Skip == l <= N /\ Ev.ev \notin {"Reset", "Sentinels", "Probe"} /\ UNCHANGED <<first, probes>> /\ Step
Next == Reset \/ Sentinels \/ Probe \/ Skip
Spec == Init /\ [][Next]_vars
Accepted == PrintT(<<"HWM", TLCGet(1), N>>) /\ TRUE
=============================================================================
