------------------------------- MODULE Redial -------------------------------
(***************************************************************************)
(* Fault-sequence space and expectations for C13 (a redial-enabled client  *)
(* session survives connection loss).  Abstract state: is the server       *)
(* reachable (up), is the client's current connection intact (conn), has   *)
(* the session ended (ended), is a call in flight (inflight), was a user   *)
(* id assigned.  Operations: call, calllong (a call whose handler is held, *)
(* so that the next fault hits it in flight), cut (the connection is lost, *)
(* the server stays reachable), down (server unreachable and connection    *)
(* lost), up, setid, wait (quiescence: long enough for a complete round of *)
(* redial attempts).  Each step carries what the statement of C13 demands  *)
(* at that point; "any" where it leaves the outcome open.                  *)
(*   budget 0 = no redial, n = at most n attempts, 99 = unlimited.         *)
(* Budget 3 is the "blip" configuration (slow redial interval): the only   *)
(* fault is a blip, an outage shorter than the budget allows (it needs two *)
(* of the three attempts); the budget is per loss, so any number of blips  *)
(* must leave the session healthy.                                         *)
(***************************************************************************)
EXTENDS Naturals, Integers, Sequences, FiniteSets, TLC, Json, IOUtils
CONSTANTS Export, MaxOps, Budgets
\* The client's own dial hook does what such hooks are for: it configures the connection through the PreSession it is
\* given (ControlFD), on the first dial and on every re-dial.
\* hok: the client's own dial hook (PostDial with isRedial) accepts re-established connections; when it does not, a
\* redial attempt that reaches the server still fails, exactly as if the server were away
VARIABLES budget, up, conn, ended, inflight, uid, n, hist, quiet, hok
vars == <<budget, up, conn, ended, inflight, uid, n, hist, quiet, hok>>
view == <<budget, up, conn, ended, inflight, uid, n, quiet, hok>>
Reach == up /\ hok     \* a redial attempt can succeed
Init == budget \in Budgets /\ hok = TRUE /\ up = TRUE /\ conn = "ok" /\ ended = FALSE /\ inflight = FALSE /\ uid = FALSE /\ n = 0 /\ quiet = TRUE
        /\ hist = <<[op |-> "dial", expect |-> "ok", budget |-> budget]>>
Rec(op, e) == n < MaxOps /\ n' = n + 1 /\ hist' = Append(hist, [op |-> op, expect |-> e, budget |-> budget])
Redials == budget # 0
\* a plain call
Call ==
  /\ ~inflight
  /\ (~Reach /\ ~ended /\ conn = "lost" => budget # 99)          \* with unlimited attempts a call would wait for the server: not generated
  /\ (ended => ~Reach)     \* a call on an ended session starts one further round of attempts: with the server back its outcome is left open
  /\ IF ended THEN Rec("call", "connerr") /\ UNCHANGED <<conn, ended>>
     ELSE IF conn = "ok" /\ up THEN Rec("call", IF quiet THEN "ok" ELSE "any") /\ UNCHANGED <<conn, ended>>
     ELSE IF Reach /\ Redials THEN Rec("call", "any") /\ conn' = "ok" /\ UNCHANGED ended     \* redial on the way: reply or connection error
     ELSE Rec("call", "connerr") /\ ended' = TRUE /\ UNCHANGED conn                       \* no server (or no redial): the session ends
  /\ UNCHANGED <<budget, up, inflight, uid, quiet, hok>>
CallLong == /\ ~inflight /\ ~ended /\ conn = "ok" /\ up /\ quiet
            /\ inflight' = TRUE /\ Rec("calllong", "started") /\ UNCHANGED <<budget, up, conn, ended, uid, quiet, hok>>
\* collecting the in-flight call after the fault: it must be complete, with a connection error if the connection was lost
Collect == /\ inflight /\ inflight' = FALSE
           /\ Rec("collect", IF conn = "lost" \/ ended \/ ~quiet THEN "connerr" ELSE "ok")
           /\ UNCHANGED <<budget, up, conn, ended, uid, quiet, hok>>
\* a call that is being launched (already registered as pending, not yet written) at the moment the reader
\* detects the loss of the connection; the server stays reachable.  The call must complete -- with the reply
\* after a redial, or with a connection error --, and the session must recover (or end, without redial).
CallTorn == /\ ~inflight /\ ~ended /\ conn = "ok" /\ up /\ quiet /\ budget \notin {3, 99}
            /\ IF Redials /\ Reach THEN Rec("calltorn", "any") /\ conn' = "lost" /\ UNCHANGED ended
                                    ELSE Rec("calltorn", "connerr") /\ ended' = TRUE /\ conn' = "lost"   \* no redial can succeed: the round fails, the session ends
            /\ quiet' = FALSE /\ UNCHANGED <<budget, up, inflight, uid, hok>>
Cut  == /\ ~ended /\ conn = "ok" /\ conn' = "lost" /\ quiet' = FALSE /\ Rec("cut", "-") /\ UNCHANGED <<budget, up, ended, inflight, uid, hok>>
Down == /\ up /\ up' = FALSE /\ conn' = (IF ended THEN conn ELSE "lost") /\ quiet' = FALSE /\ Rec("down", "-") /\ UNCHANGED <<budget, ended, inflight, uid, hok>>
Up   == /\ ~up /\ up' = TRUE /\ Rec("up", "-") /\ UNCHANGED <<budget, conn, ended, inflight, uid, quiet, hok>>
SetID == /\ ~uid /\ ~ended /\ conn = "ok" /\ quiet /\ uid' = TRUE /\ Rec("setid", "-") /\ UNCHANGED <<budget, up, conn, ended, inflight, quiet, hok>>
\* the client's dial hook starts / stops rejecting re-established connections (the connection in use is not touched)
\* (only at quiescent points: a redial in progress would race with the change)
HooksBad == /\ hok /\ quiet /\ conn = "ok" /\ budget \notin {3, 99} /\ hok' = FALSE /\ Rec("hooksbad", "-") /\ UNCHANGED <<budget, up, conn, ended, inflight, uid, quiet>>
HooksOk  == /\ ~hok /\ quiet /\ hok' = TRUE /\ Rec("hooksok", "-") /\ UNCHANGED <<budget, up, conn, ended, inflight, uid, quiet>>
\* quiescence: a complete round of redial attempts has passed
Wait == /\ ~inflight
        /\ (conn = "lost" /\ ~ended /\ ~Reach => budget # 99)     \* unlimited attempts against a dead server never quiesce
        /\ IF conn = "lost" /\ ~ended
             THEN IF Reach /\ Redials THEN conn' = "ok" /\ UNCHANGED ended
                  ELSE ended' = TRUE /\ UNCHANGED conn
             ELSE UNCHANGED <<conn, ended>>
        /\ quiet' = TRUE
        /\ Rec("wait", IF ended' THEN "ended" ELSE "healthy")
        /\ UNCHANGED <<budget, up, inflight, uid, hok>>
Blip == /\ budget = 3 /\ ~ended /\ conn = "ok" /\ up /\ quiet /\ conn' = "lost" /\ quiet' = FALSE /\ Rec("blip", "-")
        /\ UNCHANGED <<budget, up, ended, inflight, uid, hok>>
Next == IF budget = 3 THEN Blip \/ Wait \/ (quiet /\ Call) \/ SetID
        ELSE Call \/ CallLong \/ Collect \/ Cut \/ Down \/ Up \/ SetID \/ Wait \/ CallTorn \/ HooksBad \/ HooksOk
Spec == Init /\ [][Next]_vars
\* sanity of the expectation model: an ended session never becomes healthy again; without redial every loss ends the session
EndedStays == [][ended => ended']_vars
NoRedialEnds == budget = 0 /\ conn = "lost" /\ quiet => ended
Emit == Export = "" \/ Serialize(ToJson([steps |-> hist']) \o "\n", Export,
          [format |-> "TXT", charset |-> "UTF-8", openOptions |-> <<"WRITE", "CREATE", "APPEND">>]).exitValue = 0
=============================================================================
