---------------------------- MODULE HostileRecv ----------------------------
(* Receiver automaton behind C06 (design level): read the announced size, refuse it before consuming *)
(* the payload if it exceeds the read limit, otherwise buffer at most that many bytes, then decode;   *)
(* every run ends functional or disconnected, and never buffers more than the limit.                  *)
EXTENDS Naturals, TLC
CONSTANTS Limit
VARIABLES st, alloc, announced
vars == <<st, alloc, announced>>
Sizes == {0, 1, Limit - 1, Limit, Limit + 1, 2 * Limit, 2147483647}
Init == st = "size" /\ alloc = 0 /\ announced = 0
ReadSize == /\ st = "size" /\ announced' \in Sizes
            /\ IF announced' > Limit THEN st' = "disconnected" /\ UNCHANGED alloc     \* refused before the payload is consumed
                                     ELSE st' = "payload" /\ alloc' = announced'
ReadPayload == st = "payload" /\ st' \in {"functional", "disconnected"} /\ UNCHANGED <<alloc, announced>>   \* decoded | EOF, garbage
NextFrame == st = "functional" /\ st' = "size" /\ alloc' = 0 /\ UNCHANGED announced
Next == ReadSize \/ ReadPayload \/ NextFrame
Spec == Init /\ [][Next]_vars /\ WF_vars(ReadSize \/ ReadPayload)
BoundedAlloc == alloc <= Limit
NoWedge == [](st = "payload" => <>(st \in {"functional", "disconnected"}))
=============================================================================
