-------------------------------- MODULE PPlug --------------------------------
(***************************************************************************)
(* Layer P trace specification for plugin placement trees (C09): the hooks *)
(* recorded for one CALL must follow the documented stage and registration *)
(* order (global-left, router groups outer to inner, handler-level,        *)
(* global-right), each (plugin, stage) at most once, only plugins of the   *)
(* global container or of the matched route's chain; a veto before the     *)
(* handler prevents it and becomes the caller's status.  Hooks of a global *)
(* plugin appended after the routes exist are optional on route chains.    *)
(***************************************************************************)
EXTENDS Naturals, Sequences, FiniteSets, TLC, Json, IOUtils
Trace == ndJsonDeserialize(IOEnv.VERIF_TRACE)
N == Len(Trace)
VARIABLES l, cfg, sp, enters, vetoed
vars == <<l, cfg, sp, enters, vetoed>>
Ev == Trace[l]
Is(e) == l <= N /\ Ev.ev = e
Step == l' = l + 1 /\ TLCSet(1, l)
Init == l = 1 /\ cfg = [exphooks |-> <<>>] /\ sp = 0 /\ enters = 0 /\ vetoed = FALSE /\ TLCSet(1, 0)
Reset == Is("Reset") /\ cfg' = Ev /\ sp' = 0 /\ enters' = 0 /\ vetoed' = FALSE /\ Step

Opt(x) == \E i \in 1..Len(cfg.optional) : cfg.optional[i] = x
\* the observed hook is the next expected one, possibly after skipping optional expected hooks
Match(obs) == {j \in (sp + 1)..Len(cfg.exphooks) : cfg.exphooks[j] = obs /\ \A k \in (sp + 1)..(j - 1) : Opt(cfg.exphooks[k])}
Hook ==
  /\ Is("Hook") /\ Ev.side = "srv"
  /\ IF Ev.stage = "PreReadHeader" THEN UNCHANGED <<sp, vetoed>>
     ELSE /\ Match(Ev.pl \o "." \o Ev.stage) # {}
          /\ sp' = CHOOSE j \in Match(Ev.pl \o "." \o Ev.stage) : \A k \in Match(Ev.pl \o "." \o Ev.stage) : j <= k
          /\ vetoed' = (vetoed \/ Ev.verdict = "veto")
  /\ UNCHANGED <<cfg, enters>> /\ Step
HEnter == Is("HEnter") /\ enters = 0 /\ ~vetoed /\ enters' = 1 /\ UNCHANGED <<cfg, sp, vetoed>> /\ Step
CallDone ==
  /\ Is("CallDone")
  /\ IF vetoed THEN Ev.code = 777 /\ Ev.msg = "veto-msg" /\ Ev.cause = "veto-cause" /\ enters = 0
               ELSE Ev.code = 0 /\ Ev.resok /\ enters = 1
  /\ UNCHANGED <<cfg, sp, enters, vetoed>> /\ Step
\* nothing mandatory is missing
Quiesce == Is("Quiesce") /\ (\A k \in (sp + 1)..Len(cfg.exphooks) : Opt(cfg.exphooks[k])) /\ UNCHANGED <<cfg, sp, enters, vetoed>> /\ Step
\* scenarios that call several routes of one peer: every CALL is announced with the hook sequence expected for it; the
\* previous exchange must be complete (nothing mandatory missing), the rules above then apply to the new one
Target == Is("Target") /\ (\A k \in (sp + 1)..Len(cfg.exphooks) : Opt(cfg.exphooks[k]))
          /\ cfg' = Ev /\ sp' = 0 /\ enters' = 0 /\ vetoed' = FALSE /\ Step
\* "Fatal": the framework refused the configuration and asked for the process to end (erpc.Fatalf, e.g. "repeat add
\* plugin"); every configuration of Plugins.tla is a legal one, so like CallHang and SetupFailed it is never accepted
Known == {"Reset", "Hook", "HEnter", "CallDone", "Quiesce", "CallHang", "SetupFailed", "Target", "Fatal"}
Skip == l <= N /\ (Ev.ev \notin Known \/ (Ev.ev = "Hook" /\ Ev.side # "srv")) /\ UNCHANGED <<cfg, sp, enters, vetoed>> /\ Step
Next == Reset \/ Hook \/ HEnter \/ CallDone \/ Quiesce \/ Target \/ Skip
Spec == Init /\ [][Next]_vars
Accepted == PrintT(<<"HWM", TLCGet(1), N>>) /\ TRUE
=============================================================================
