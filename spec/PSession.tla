------------------------------ MODULE PSession ------------------------------
(***************************************************************************)
(* Layer P (verdict layer): trace specification over PUBLIC events of one  *)
(* session under test whose remote side is a scripted raw peer.            *)
(* A trace recorded from the real code is accepted iff every line can be   *)
(* consumed.  Each guard is a rule of one listed property:                 *)
(*   C01 correlation, C02 completion, C03 dispatch, C07 lifecycle/index,   *)
(*   C08 graceful close.                                                   *)
(* Events the rules do not constrain (hook events "P", model projections   *)
(* "M", bookkeeping) are skipped.  A batch holds many traces separated by  *)
(* Reset lines.                                                            *)
(***************************************************************************)
EXTENDS Naturals, Sequences, FiniteSets, TLC, Json, IOUtils

Trace == ndJsonDeserialize(IOEnv.VERIF_TRACE)
N == Len(Trace)

VARIABLES l, st
vars == <<l, st>>

\* the property whose rules are enforced in this run ("ALL": every rule)
Prop == IF "VERIF_PROP" \in DOMAIN IOEnv THEN IOEnv.VERIF_PROP ELSE "ALL"
ON(p) == Prop = p \/ Prop = "ALL"
G(p, cond) == ON(p) => cond

Ev == Trace[l]
Is(e) == l <= N /\ Ev.ev = e
Step == l' = l + 1 /\ TLCSet(1, l)

Fresh == [ started |-> {}, retd |-> {}, done |-> {}, seqOf |-> <<>>,
           replyGood |-> {}, replyBad |-> {}, anyBad |-> FALSE, connDown |-> FALSE,
           closeCalled |-> FALSE, closeReturned |-> FALSE, retBeforeClose |-> {},
           closeEffective |-> FALSE,   \* Close() was called on a session that was not already being disconnected
           hooks |-> 0, notifiedSeen |-> FALSE,
           inSent |-> {},       \* inbound CALL frames sent by the raw peer: <<seq, arg>>
           entered |-> {},      \* <<seq, arg>> of handler activations
           exited |-> {},       \* seqs whose handler exited
           hname |-> {},        \* <<h, seq>>
           enteredAtClose |-> {},
           enteredBeforeClose |-> {},
           wireReply |-> {},    \* seqs for which a REPLY was seen on the wire
           wireCall |-> {},     \* seqs for which a CALL was seen on the wire
           mode |-> "free" ]

Init == l = 1 /\ st = Fresh /\ TLCSet(1, 0)

Dead == st.connDown \/ st.anyBad \/ st.closeReturned

-----------------------------------------------------------------------------
Reset == Is("Reset") /\ st' = [Fresh EXCEPT !.mode = Ev.mode] /\ Step

CallStart ==
  /\ Is("CallStart") /\ Ev.c \notin st.started
  /\ st' = [st EXCEPT !.started = @ \cup {Ev.c}, !.seqOf = @ \o <<<<Ev.c, Ev.seq>>>>]
  /\ Step

CallRet ==
  /\ Is("CallRet") /\ Ev.c \in st.started
  /\ st' = [st EXCEPT !.retd = @ \cup {Ev.c},
                      !.retBeforeClose = IF st.closeCalled THEN @ ELSE @ \cup {Ev.c}]
  /\ Step

RemoteReply ==
  /\ Is("RemoteReply")
  /\ st' = IF Ev.err THEN st
           ELSE IF Ev.kind = "good" THEN [st EXCEPT !.replyGood = @ \cup {Ev.c}]
           \* "badbody": a reply whose body does not decode under a known codec: that call fails, the session lives on
           ELSE IF Ev.kind = "badbody" THEN [st EXCEPT !.replyBad = @ \cup {Ev.c}]
           ELSE [st EXCEPT !.replyBad = @ \cup {Ev.c}, !.anyBad = TRUE]
  /\ Step

\* C02: completes exactly once, delivered exactly once;
\* C01/C04: OK only with the peer's own reply, carrying F(arg) and G(meta);
\* C08: an error only if the connection was lost, the reader failed, or the call raced with / followed Close
CallDone ==
  /\ Is("CallDone") /\ Ev.c \in st.started
  /\ G("C02", Ev.c \notin st.done /\ Ev.deliveries = 1)
  /\ IF Ev.code = 0
       THEN G("C02", Ev.c \in st.replyGood) /\ G("C01", Ev.okres /\ Ev.okmeta)
       ELSE G("C08", \/ st.connDown \/ st.anyBad \/ Ev.c \in st.replyBad
                     \/ (Ev.c \notin st.replyGood /\ st.closeCalled /\ Ev.c \notin st.retBeforeClose))
  /\ st' = [st EXCEPT !.done = @ \cup {Ev.c}]
  /\ Step

RemoteCall ==
  /\ Is("RemoteCall")
  /\ st' = IF Ev.err THEN st ELSE [st EXCEPT !.inSent = @ \cup {<<Ev.seq, Ev.arg>>}]
  /\ Step

ConnDown == Is("ConnDown") /\ st' = [st EXCEPT !.connDown = TRUE] /\ Step

\* C03: at most one handler per received CALL; C01: it sees exactly the sender's argument and metadata;
\* C07: no handler starts after Close() returned
HEnter ==
  /\ Is("HEnter")
  /\ G("C03", (\E p \in st.inSent : p[1] = Ev.seq) /\ ~(\E p \in st.entered : p[1] = Ev.seq))
  /\ G("C01", <<Ev.seq, Ev.arg>> \in st.inSent /\ Ev.kind = "call" /\ Ev.meta = "m-" \o Ev.arg)
  /\ G("C07", ~(st.closeReturned /\ st.closeEffective))
  /\ st' = [st EXCEPT !.entered = @ \cup {<<Ev.seq, Ev.arg>>}, !.hname = @ \cup {<<Ev.h, Ev.seq>>}]
  /\ Step

\* C01: the argument read again at handler exit is unchanged
HRecheck == Is("HRecheck") /\ G("C01", Ev.same) /\ UNCHANGED st /\ Step

HExit ==
  /\ Is("HExit") /\ <<Ev.h, Ev.seq>> \in st.hname
  /\ st' = [st EXCEPT !.exited = @ \cup {Ev.seq}]
  /\ Step

\* C03: a REPLY frame answers an entered handler, once, with its own result
WireEv ==
  /\ Is("Wire")
  /\ IF Ev.mtype = 2
       THEN /\ G("C03", Ev.seq \notin st.wireReply /\ \E p \in st.inSent : p[1] = Ev.seq)
            /\ G("C01", Ev.code = 0 => Ev.seq \in st.exited /\ Ev.bodyok)
            /\ st' = [st EXCEPT !.wireReply = @ \cup {Ev.seq}]
       ELSE IF Ev.mtype = 1
         THEN /\ G("C01", Ev.seq \notin st.wireCall /\ Ev.bodyok
                            /\ \E i \in 1..Len(st.seqOf) : st.seqOf[i][2] = Ev.seq)
              /\ st' = [st EXCEPT !.wireCall = @ \cup {Ev.seq}]
         ELSE st' = st
  /\ Step

CloseCall ==
  /\ Is("CloseCall")
  /\ st' = IF st.closeCalled THEN st
           ELSE [st EXCEPT !.closeCalled = TRUE, !.closeEffective = ~(st.connDown \/ st.anyBad),
                           \* (a Close() on a session that is already being disconnected is a no-op)
                           !.enteredAtClose = IF st.connDown \/ st.anyBad THEN {}
                                              ELSE {p[1] : p \in st.entered} \ st.exited,
                           !.enteredBeforeClose = {p[1] : p \in st.entered}]
  /\ Step

\* C07: after a local Close the session is unhealthy;
\* C08: Close returns only after the handlers entered before it have finished
\*      (judged in free-running mode only: hold points on the closer would mask a missing wait)
CloseRet ==
  /\ Is("CloseRet") /\ st.closeCalled
  /\ G("C07", Ev.health = FALSE)
  /\ G("C08", st.mode = "free" => st.enteredAtClose \subseteq st.exited)
  /\ st' = [st EXCEPT !.closeReturned = TRUE]
  /\ Step

\* C07: the disconnect hook runs at most once
DiscHook == Is("DiscHook") /\ G("C07", st.hooks = 0) /\ st' = [st EXCEPT !.hooks = 1] /\ Step

LegitPending(c) == c \notin st.replyGood /\ c \notin st.replyBad /\ ~st.connDown /\ ~st.anyBad /\ ~st.closeReturned

Quiesce ==
  /\ Is("Quiesce")
     \* C02: nothing hangs once the reply arrived, the connection was lost or the session closed
  /\ G("C02", /\ \A i \in 1..Len(Ev.pending) : LegitPending(Ev.pending[i])
              /\ (Len(Ev.unreturned) > 0 => \E c \in st.started : c \notin st.done /\ LegitPending(c)))
     \* C07: closed sessions are unhealthy, notified, unindexed, hooked once, refuse new work with 102
  /\ G("C07", IF Dead
       THEN /\ Ev.health = FALSE /\ Ev.notified /\ ~Ev.indexed /\ ~Ev.inrange /\ Ev.hooks = 1
            /\ Ev.status \in {"ActiveClosed", "PassiveClosed"}
            /\ Ev.postcall = 102 /\ Ev.postpush = 102 /\ Ev.npending = 0
       ELSE \/ st.closeCalled   \* a Close is legitimately waiting for an unanswered call
            \/ (Ev.health /\ ~Ev.notified /\ Ev.indexed /\ Ev.inrange /\ Ev.hooks = 0 /\ Ev.status = "Ok"))
     \* C03: every entered handler put exactly one reply on the wire unless the session was disconnected or closing
  /\ G("C03", ~st.connDown /\ ~st.anyBad /\ ~st.closeCalled => \A p \in st.entered : p[1] \in st.wireReply)
     \* C08: closing loses no reply of a handler that was entered before Close() was called
  /\ G("C08", ~st.connDown /\ ~st.anyBad /\ st.closeCalled => \A q \in st.enteredBeforeClose : q \in st.wireReply)
     \* C08: an effective Close() has not returned (and torn the connection down) over a call this side had issued
     \*      before: such a call completes with the peer's reply or, if the connection is lost first, with an error
  /\ G("C08", st.closeReturned /\ st.closeEffective => \A i \in 1..Len(Ev.pending) : Ev.pending[i] \notin st.retBeforeClose)
     \* C08: ... "and with a connection error only if the connection is lost first": once the connection is lost during a
     \*      local Close() every call of this side is complete and Close() has returned (the rule of C02, read for C08)
  /\ G("C08", st.closeCalled /\ st.connDown =>
                 /\ \A i \in 1..Len(Ev.pending) : LegitPending(Ev.pending[i])
                 /\ Len(Ev.unreturned) = 0)
  /\ UNCHANGED st /\ Step

Known == {"Reset", "CallStart", "CallRet", "RemoteReply", "CallDone", "RemoteCall", "ConnDown", "HEnter",
          "HRecheck", "HExit", "Wire", "CloseCall", "CloseRet", "DiscHook", "Quiesce", "CallNil"}
Skip == l <= N /\ Ev.ev \notin Known /\ UNCHANGED st /\ Step

Next == \/ Reset \/ CallStart \/ CallRet \/ RemoteReply \/ CallDone \/ RemoteCall \/ ConnDown \/ HEnter
        \/ HRecheck \/ HExit \/ WireEv \/ CloseCall \/ CloseRet \/ DiscHook \/ Quiesce \/ Skip
Spec == Init /\ [][Next]_vars

\* acceptance: the high-water mark reached the end of the batch
Accepted == PrintT(<<"HWM", TLCGet(1), N>>) /\ TRUE
=============================================================================
