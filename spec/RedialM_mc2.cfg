SPECIFICATION Spec
CONSTANTS
  Calls = {c1, c2}
  MaxGen = 2
  Retries = 1
  MaxCuts = 2
  WithClose = TRUE
  MayReject = TRUE
  MayDown = TRUE
  FixCloseLock = TRUE
  FixLostClose = TRUE
  FixStaleEnd = TRUE
  FixStaleReader = TRUE
  FixLateCancel = TRUE
INVARIANTS TypeOK DoneAtMostOnce OkWasWritten NoHangG CloseReturnsG NoStuckThreadG AliveOrEndedG SurvivesLossG CloseEffectiveG HookOnceG HookIffEndedG
CHECK_DEADLOCK FALSE
