SPECIFICATION Spec
CONSTANTS
  S = {"s1", "s2", "s3"}
  U = {"x", "y"}
  MaxOps = 7
  GuardedDelete = TRUE
  Export = ""
VIEW view
INVARIANT IndexExact
PROPERTY ClosedStays
CHECK_DEADLOCK FALSE
