SPECIFICATION Spec
CONSTANTS
  Export = ""
  MaxOps = 5
  Slots = {1, 2}
VIEW view
INVARIANTS BothOrNeither NothingAfterPeerClose
PROPERTIES ClosedStays
CHECK_DEADLOCK FALSE
