------------------------------ MODULE Dispatch ------------------------------
(***************************************************************************)
(* Layer M: the path of ONE message through the framework, code-shaped:    *)
(* caller side (session.AsyncCall / Push, context.bindReply / handleReply) *)
(* and receiver side (context.binding / bindCall / bindPush / handleCall / *)
(* handlePush), with the plugin containers that apply at each stage        *)
(* (plugin.go): the global container g = left ++ right, and the matched    *)
(* route's chain r = left ++ group ++ handler ++ right.                    *)
(*                                                                         *)
(* A scenario (cfg) fixes: message kind, route class, which stages each    *)
(* plugin implements, at most one vetoing (plugin, stage), the handler's   *)
(* outcome and whether request / reply bodies can be decoded.  One action  *)
(* per pipeline stage; the terminal state carries the hook sequences, the  *)
(* number of handler invocations and replies and the caller's status: the  *)
(* expectation replayed against the real code.                             *)
(* ReplyDecodeFix = TRUE models the repaired handleReply (an undecodable   *)
(* reply body yields 400); FALSE the pinned commit (status OK).            *)
(***************************************************************************)
EXTENDS Naturals, Sequences, FiniteSets, TLC, Json, IOUtils
CONSTANTS ReplyDecodeFix, Export, Kinds, Routes, Houts

SrvPlugins == <<"L", "G", "H", "R">>
G_  == <<"L", "R">>                 \* global container
R_  == <<"L", "G", "H", "R">>       \* chain of the registered route
U_  == <<"L", "R">>                 \* chain of the unknown handler (no plugins of its own)

HdrStages  == {"PreReadHeader", "PostReadCallHeader", "PostReadPushHeader"}
BodyStages == {"PreReadCallBody", "PostReadCallBody", "PreReadPushBody", "PostReadPushBody", "PreWriteReply", "PostWriteReply"}
Implements(prof, stage) == prof = "all" \/ (prof = "hdr" /\ stage \in HdrStages) \/ (prof = "body" /\ stage \in BodyStages)

ProfSets == [L : {"all", "hdr", "body"}, G : {"all", "body"}, H : {"all", "body"}, R : {"all", "hdr", "body"}]

SrvVetoStages == {"PreReadHeader", "PostReadCallHeader", "PreReadCallBody", "PostReadCallBody", "PreWriteReply", "PostWriteReply",
                  "PostReadPushHeader", "PreReadPushBody", "PostReadPushBody"}
CliVetoStages == {"PreWriteCall", "PostWriteCall", "PostReadReplyHeader", "PreReadReplyBody", "PostReadReplyBody",
                  "PreWritePush", "PostWritePush"}
NoVeto == <<"none", "none">>
Vetoes == {NoVeto} \cup {<<p, s>> : p \in {"L", "G", "H", "R"}, s \in SrvVetoStages} \cup {<<"CL", s>> : s \in CliVetoStages}

\* a veto is meaningful only if the plugin implements the stage, the stage belongs to the message kind,
\* and (for group/handler plugins) the stage is one that runs on a route chain
VetoOK(c) ==
  \/ c.veto = NoVeto
  \/ /\ c.veto[1] = "CL"
     /\ IF c.kind = "call" THEN c.veto[2] \in {"PreWriteCall", "PostWriteCall", "PostReadReplyHeader", "PreReadReplyBody", "PostReadReplyBody"}
                           ELSE c.veto[2] \in {"PreWritePush", "PostWritePush"}
  \/ /\ c.veto[1] # "CL" /\ Implements(c.prof[c.veto[1]], c.veto[2])
     /\ IF c.kind = "call" THEN c.veto[2] \in {"PreReadHeader", "PostReadCallHeader", "PreReadCallBody", "PostReadCallBody", "PreWriteReply", "PostWriteReply"}
                           ELSE c.veto[2] \in {"PreReadHeader", "PostReadPushHeader", "PreReadPushBody", "PostReadPushBody"}
     /\ (c.veto[1] \in {"G", "H"} => c.veto[2] \notin HdrStages /\ c.route = "reg")

\* vkind: the selected hook returns a non-OK status ("veto") or panics ("panic", server-side plugins only)
\* wret = "late": the caller's connection returns from Write only after the bytes have long been delivered (a
\* writer descheduled after the system call), so the whole exchange -- handler, reply, reply handling -- is over
\* before the calling goroutine is back from its write.  The outcome the caller sees must be the same.
AllProf == [L |-> "all", G |-> "all", H |-> "all", R |-> "all"]
\* kind = "badtype": a well-formed frame whose type byte is none of CALL / REPLY / PUSH arrives on the live session
\* (mtype says which: 0 undefined, 4 / 5 the authentication types, 9 and 255 unassigned); it is answered by disconnecting
BadTypes == {"t0", "t4", "t5", "t9", "t255"}
Cfgs == {c \in [kind : Kinds, route : Routes, prof : ProfSets, veto : Vetoes, vkind : {"veto", "panic"},
                hout : Houts, dec : {"ok", "bad"}, rdec : {"ok", "bad"}, wret : {"atonce", "late"}, mtype : {"std"} \cup BadTypes,
                pre : {"none", "deadlinewrite"}, res : {"std", "ageshort", "poolfull", "smalllimit"}] :
           /\ VetoOK(c)
           \* res: what the receiving side has to handle the message with.
           \*  "ageshort": the serving session's context age (the time limit of a handling context) is shorter than the handler
           \*     takes.  The reply is written under the handling context, which has expired by then: that write is refused,
           \*     and the caller is told so by the framework's reply for a reply that could not be written (500) -- the call is
           \*     never left unanswered on a connection that stays up;
           \*  "poolfull": the goroutine pool of the process is exhausted when the frames arrive (SetGopool with a small bound,
           \*     all slots busy): the frame is handled all the same, the outcome is that of the plain exchange;
           \*  "smalllimit": the message size limit of the process is smaller than the reply the handler produces: the reply is
           \*     refused BEFORE anything is written, and the caller gets the framework's reply for that (500) -- once.
           /\ (c.res # "std" => c.veto = NoVeto /\ c.kind = "call" /\ c.route \in {"reg", "unknown"} /\ c.dec = "ok" /\ c.rdec = "ok" /\ c.prof = AllProf
                                /\ c.vkind = "veto" /\ c.wret = "atonce" /\ c.pre = "none" /\ c.hout \in {"ok", "status", "panic"})
           /\ (c.res = "smalllimit" => c.hout = "ok")
           \* pre = "deadlinewrite": earlier on, the serving session wrote a message of its own under a context deadline (a push
           \* with a timeout), and that deadline has passed since; the exchange must not be affected
           /\ (c.pre # "none" => c.veto = NoVeto /\ c.kind = "call" /\ c.dec = "ok" /\ c.rdec = "ok" /\ c.prof = AllProf /\ c.vkind = "veto" /\ c.wret = "atonce")
           /\ (c.kind = "badtype" <=> c.mtype # "std")
           /\ (c.kind = "badtype" => c.route = "reg" /\ c.prof = AllProf /\ c.veto = NoVeto /\ c.vkind = "veto" /\ c.hout = "ok"
                                     /\ c.dec = "ok" /\ c.rdec = "ok" /\ c.wret = "atonce")
           /\ (c.wret = "late" => c.veto = NoVeto /\ c.kind = "call" /\ c.dec = "ok" /\ c.prof = AllProf /\ c.vkind = "veto")
           /\ (c.vkind = "panic" => c.veto # NoVeto /\ c.veto[1] # "CL" /\ c.veto[2] # "PreReadHeader")
           /\ (c.hout = "unpackable" => c.kind = "call" /\ c.route = "reg")
           /\ (c.kind = "push" => c.rdec = "ok")
           /\ (c.route # "reg" => c.dec = "ok" /\ (c.route = "unreg" => c.hout = "ok"))}

VARIABLES cfg, pc, cont, stat, hooks, chooks, invoked, replies, wstat, cstat, disc, written
vars == <<cfg, pc, cont, stat, hooks, chooks, invoked, replies, wstat, cstat, disc, written>>

Init == /\ cfg \in Cfgs /\ pc = (IF cfg.kind = "badtype" THEN "sBadType" ELSE "cPreWrite") /\ cont = G_ /\ stat = "ok"
        /\ hooks = <<>> /\ chooks = <<>> /\ invoked = 0 /\ replies = 0
        /\ wstat = "-" /\ cstat = "-" /\ disc = FALSE /\ written = FALSE

\* plugins of container c implementing stage, in container order, cut after the vetoing one
Firing(c, stage) ==
  LET impl == SelectSeq(c, LAMBDA p : Implements(cfg.prof[p], stage))
      idx  == IF cfg.veto[2] = stage /\ \E i \in 1..Len(impl) : impl[i] = cfg.veto[1]
                THEN CHOOSE i \in 1..Len(impl) : impl[i] = cfg.veto[1] ELSE 0
  IN  IF idx = 0 THEN <<impl, FALSE>> ELSE <<SubSeq(impl, 1, idx), TRUE>>
Log(c, stage) == [i \in 1..Len(Firing(c, stage)[1]) |-> <<Firing(c, stage)[1][i], stage>>]
Vetoed(c, stage) == Firing(c, stage)[2]
CliVeto(stage) == cfg.veto = <<"CL", stage>>

Same(vs) == UNCHANGED vs

\* ---- caller / pusher: session.AsyncCall, session.Push
CPreWrite ==   \* preWriteCall / preWritePush on the caller's global container
  /\ pc = "cPreWrite"
  /\ LET st == IF cfg.kind = "call" THEN "PreWriteCall" ELSE "PreWritePush" IN
     /\ chooks' = Append(chooks, <<"CL", st>>)
     /\ IF CliVeto(st) THEN pc' = "end" /\ cstat' = "veto" /\ UNCHANGED written
                       ELSE pc' = "cPostWrite" /\ written' = TRUE /\ UNCHANGED cstat
  /\ UNCHANGED <<cfg, cont, stat, hooks, invoked, replies, wstat, disc>>
CPostWrite ==  \* postWriteCall / postWritePush: verdict ignored for the outcome
  /\ pc = "cPostWrite"
  /\ chooks' = Append(chooks, <<"CL", IF cfg.kind = "call" THEN "PostWriteCall" ELSE "PostWritePush">>)
  /\ pc' = "sPreHeader"
  /\ IF cfg.kind = "push" THEN cstat' = "ok" ELSE UNCHANGED cstat     \* Push returns once written
  /\ UNCHANGED <<cfg, cont, stat, hooks, invoked, replies, wstat, disc, written>>

\* ---- receiver: read loop + binding
SPreHeader ==  \* preReadHeader on g; an error disconnects
  /\ pc = "sPreHeader"
  /\ UNCHANGED hooks     \* PreReadHeader fires before every read, with no message to attribute it to: not logged
  /\ IF Vetoed(G_, "PreReadHeader")
       THEN /\ disc' = TRUE /\ pc' = "end"
            /\ IF cfg.kind = "call" THEN cstat' = "connerr" ELSE UNCHANGED cstat
       ELSE pc' = "sPostHeader" /\ UNCHANGED <<disc, cstat>>
  /\ UNCHANGED <<cfg, cont, stat, chooks, invoked, replies, wstat, written>>
SPostHeader == \* postReadCallHeader / postReadPushHeader on g, then route lookup
  /\ pc = "sPostHeader"
  /\ LET st == IF cfg.kind = "call" THEN "PostReadCallHeader" ELSE "PostReadPushHeader" IN
     /\ hooks' = hooks \o Log(G_, st)
     /\ IF Vetoed(G_, st) /\ cfg.vkind = "panic" THEN stat' = "panic" /\ pc' = "sReaderPanic" /\ UNCHANGED cont
        ELSE IF Vetoed(G_, st) THEN stat' = "veto" /\ pc' = "sHandle" /\ UNCHANGED cont
        ELSE IF cfg.route = "unreg" THEN stat' = "404" /\ pc' = "sHandle" /\ UNCHANGED cont
        ELSE /\ cont' = (IF cfg.route = "reg" THEN R_ ELSE U_) /\ pc' = "sPreBody" /\ UNCHANGED stat
  /\ UNCHANGED <<cfg, chooks, invoked, replies, wstat, cstat, disc, written>>
SPreBody ==    \* preReadCallBody / preReadPushBody on the route's chain; then the body is decoded
  /\ pc = "sPreBody"
  /\ LET st == IF cfg.kind = "call" THEN "PreReadCallBody" ELSE "PreReadPushBody" IN
     /\ hooks' = hooks \o Log(cont, st)
     /\ stat' = IF Vetoed(cont, st) THEN (IF cfg.vkind = "panic" THEN "panic" ELSE "veto")
                ELSE IF cfg.dec = "bad" /\ cfg.route = "reg" THEN "400" ELSE "ok"
     /\ pc' = IF Vetoed(cont, st) /\ cfg.vkind = "panic" THEN "sReaderPanic" ELSE "sHandle"
  /\ UNCHANGED <<cfg, cont, chooks, invoked, replies, wstat, cstat, disc, written>>
\* ---- receiver: handleCall / handlePush
SHandle ==     \* postReadCallBody / postReadPushBody, then the handler
  /\ pc = "sHandle"
  /\ IF stat = "ok"
       THEN LET st == IF cfg.kind = "call" THEN "PostReadCallBody" ELSE "PostReadPushBody" IN
            /\ hooks' = hooks \o Log(cont, st)
            /\ IF Vetoed(cont, st) THEN stat' = (IF cfg.vkind = "panic" THEN "500" ELSE "veto") /\ UNCHANGED invoked
               ELSE /\ invoked' = invoked + 1
                    /\ stat' = CASE cfg.hout \in {"ok", "unpackable"} -> "ok" [] cfg.hout = "status" -> "hstat" [] cfg.hout = "panic" -> "500"
       ELSE UNCHANGED <<hooks, stat, invoked>>
  /\ pc' = IF cfg.kind = "push" THEN "end" ELSE "sPreReply"
  /\ UNCHANGED <<cfg, cont, chooks, replies, wstat, cstat, disc, written>>
\* the deferred recover of handleCall already wrote the reply: no reply-stage hooks run
Recovered == (cfg.hout = "panic" /\ invoked = 1) \/
             (cfg.vkind = "panic" /\ cfg.veto[2] = "PostReadCallBody" /\ \E i \in 1..Len(hooks) : hooks[i] = cfg.veto)

SPreReply ==   \* preWriteReply (not after a panic: the deferred recover writes the reply directly)
  /\ pc = "sPreReply"
  /\ IF Recovered
       THEN UNCHANGED <<hooks, stat>>
       ELSE /\ hooks' = hooks \o Log(cont, "PreWriteReply")
            \* a panicking PreWriteReply hook is recovered: the reply carries the handler's status, or 500 if that was OK
            /\ stat' = IF Vetoed(cont, "PreWriteReply") /\ cfg.vkind = "panic" /\ stat = "ok" THEN "500" ELSE stat
  /\ pc' = "sWrite"
  /\ UNCHANGED <<cfg, cont, chooks, invoked, replies, wstat, cstat, disc, written>>
SWrite ==      \* writeReply; postWriteReply
  /\ pc = "sWrite" /\ replies' = replies + 1
     \* a result that cannot be marshalled makes the first write fail; the handler context then replies 500
     \* so does a handling context that has expired (the handler outlived the context age)
  /\ wstat' = IF (cfg.hout = "unpackable" /\ invoked = 1 /\ stat = "ok") \/ (cfg.res = "ageshort" /\ invoked = 1) \/ (cfg.res = "smalllimit" /\ invoked = 1 /\ stat = "ok") THEN "500" ELSE stat
  /\ IF Recovered \/ (Vetoed(cont, "PreWriteReply") /\ cfg.vkind = "panic") \/ (cfg.hout = "unpackable" /\ invoked = 1 /\ stat = "ok")
        \/ (cfg.res = "ageshort" /\ invoked = 1) \/ (cfg.res = "smalllimit" /\ invoked = 1 /\ stat = "ok")
       THEN UNCHANGED hooks ELSE hooks' = hooks \o Log(cont, "PostWriteReply")
  /\ pc' = "cReadHeader"
  /\ UNCHANGED <<cfg, cont, stat, chooks, invoked, cstat, disc, written>>
\* ---- caller: bindReply / handleReply
CReadHeader == \* postReadReplyHeader, preReadReplyBody
  /\ pc = "cReadHeader"
  /\ IF CliVeto("PostReadReplyHeader")
       THEN chooks' = chooks \o <<<<"CL", "PostReadReplyHeader">>>> /\ cstat' = "veto" /\ pc' = "end"
       ELSE IF CliVeto("PreReadReplyBody")
         THEN chooks' = chooks \o <<<<"CL", "PostReadReplyHeader">>, <<"CL", "PreReadReplyBody">>>> /\ cstat' = "veto" /\ pc' = "end"
         ELSE chooks' = chooks \o <<<<"CL", "PostReadReplyHeader">>, <<"CL", "PreReadReplyBody">>>> /\ pc' = "cReply" /\ UNCHANGED cstat
  /\ UNCHANGED <<cfg, cont, stat, hooks, invoked, replies, wstat, disc, written>>
CReply ==      \* body decode, wire status, postReadReplyBody
  /\ pc = "cReply" /\ pc' = "end"
  /\ IF wstat # "ok"
       THEN cstat' = wstat /\ UNCHANGED chooks
       ELSE IF cfg.rdec = "bad" /\ ReplyDecodeFix
         THEN cstat' = "400" /\ UNCHANGED chooks
         ELSE /\ chooks' = Append(chooks, <<"CL", "PostReadReplyBody">>)
              /\ cstat' = IF CliVeto("PostReadReplyBody") THEN "veto" ELSE "ok"
  /\ UNCHANGED <<cfg, cont, stat, hooks, invoked, replies, wstat, disc, written>>

SReaderPanic == \* a plugin panicking inside the read loop (header / pre-body stage): recovered by the reader, which disconnects
  /\ pc = "sReaderPanic" /\ pc' = "end" /\ disc' = TRUE
  /\ IF cfg.kind = "call" THEN cstat' = "connerr" ELSE UNCHANGED cstat
  /\ UNCHANGED <<cfg, cont, stat, hooks, chooks, invoked, replies, wstat, written>>

SBadType ==    \* binding: "message type not allowed"; handle: log and disconnect -- no hook of any stage, no handler, no reply
  /\ pc = "sBadType" /\ pc' = "end" /\ disc' = TRUE /\ written' = TRUE
  /\ UNCHANGED <<cfg, cont, stat, hooks, chooks, invoked, replies, wstat, cstat>>

Next == SBadType \/ SReaderPanic \/ CPreWrite \/ CPostWrite \/ SPreHeader \/ SPostHeader \/ SPreBody \/ SHandle \/ SPreReply \/ SWrite \/ CReadHeader \/ CReply
Spec == Init /\ [][Next]_vars

-----------------------------------------------------------------------------
\* Layer P properties on the model (checked at every state; meaningful at pc = "end")
Done == pc = "end"
PreHandlerStages == {"PostReadCallHeader", "PreReadCallBody", "PostReadCallBody", "PostReadPushHeader", "PreReadPushBody", "PostReadPushBody"}
\* C03: at most one handler; exactly one reply per CALL unless disconnected; never a reply to a PUSH
AtMostOneHandler == invoked <= 1
OneReply == Done /\ written /\ ~disc => (IF cfg.kind = "call" THEN replies = 1 ELSE replies = 0)
BadTypeDisconnects == Done /\ cfg.kind = "badtype" => disc /\ invoked = 0 /\ replies = 0 /\ hooks = <<>>
\* C09: each (plugin, stage) at most once per message
HookOnce == \A i, j \in 1..Len(hooks) : i # j => hooks[i] # hooks[j]
\* C09: a veto before the handler => handler not invoked and the caller gets that status
VetoStops == Done /\ cfg.veto # NoVeto /\ cfg.vkind = "veto" /\ cfg.veto[1] # "CL" /\ cfg.veto[2] \in PreHandlerStages
             /\ (\E i \in 1..Len(hooks) : hooks[i] = cfg.veto)
             => invoked = 0 /\ (cfg.kind = "call" => cstat = "veto")
\* C09: a vetoing pre-write hook on the calling side => nothing written
CallerVetoStops == Done /\ cfg.veto \in {<<"CL", "PreWriteCall">>, <<"CL", "PreWritePush">>} => ~written /\ hooks = <<>> /\ cstat = "veto"
\* C04: OK iff the handler ran to completion, returned OK and the reply was decoded
OKIff == Done /\ cfg.kind = "call" =>
           ((cstat = "ok") <=> (invoked = 1 /\ cfg.hout = "ok" /\ cfg.res \notin {"ageshort", "smalllimit"} /\ wstat = "ok" /\ (ReplyDecodeFix => cfg.rdec = "ok")
                                /\ cfg.veto \notin {<<"CL", "PostReadReplyHeader">>, <<"CL", "PreReadReplyBody">>, <<"CL", "PostReadReplyBody">>}))
\* C09: only plugins of the global container or the matched chain fire
Scoped == \A i \in 1..Len(hooks) : hooks[i][1] \in {"L", "R"} \/ cfg.route = "reg"

\* scenario export: the terminal transition of every scenario
Emit == Export = "" \/ pc' # "end" \/
        Serialize(ToJson([cfg |-> cfg, hooks |-> hooks', chooks |-> chooks', invoked |-> invoked', replies |-> replies',
                          cstat |-> cstat', wstat |-> wstat', disc |-> disc', written |-> written']) \o "\n", Export,
                  [format |-> "TXT", charset |-> "UTF-8", openOptions |-> <<"WRITE", "CREATE", "APPEND">>]).exitValue = 0
=============================================================================
