-------------------------------- MODULE PCase --------------------------------
(***************************************************************************)
(* Layer P for the data-plane families (C05 wire, C06 hostile input, C11   *)
(* codecs, C12 filter pipes, C20 pooled objects): one "Case" event per     *)
(* executed abstract case, carrying the expectation attached by the        *)
(* generator specification and the outcome observed on the real code.      *)
(* A case is accepted iff the outcome satisfies the rule of its            *)
(* expectation class.  "Escaped" (a panic that left the code under test)   *)
(* is never accepted.                                                      *)
(***************************************************************************)
EXTENDS Naturals, Sequences, FiniteSets, TLC, Json, IOUtils
Trace == ndJsonDeserialize(IOEnv.VERIF_TRACE)
N == Len(Trace)
VARIABLES l
Ev == Trace[l]
Step == l' = l + 1 /\ TLCSet(1, l)
Init == l = 1 /\ TLCSet(1, 0) /\ TLCSet(2, {})
Has(f) == f \in DOMAIN Ev

Rule ==
  CASE Ev.expect = "roundtrip" -> Ev.err = "" /\ Ev.equal            \* what was packed/encoded comes back equal
    [] Ev.expect = "refused"   -> Ev.err # ""                        \* rejected with an error, not passed through
    [] Ev.expect = "detect"    -> Ev.undetected = 0 /\ Ev.tried > 0  \* every corruption is reported
    [] Ev.expect = "replypipe" -> Ev.err = "" /\ Ev.equal /\ Ev.samepipe
    [] Ev.expect = "clean"     -> Ev.err # "" \/ Ev.equal            \* garbage: an error or a value, sentinels untouched
    [] Ev.expect = "fresh"     -> Ev.equal                           \* recycled object indistinguishable from a fresh one
    [] Ev.expect = "robust"    -> Ev.alive /\ Ev.boundok /\ Ev.stateok /\ Ev.controlok
    [] Ev.expect = "unspecified" -> TRUE                             \* outside the documented domain: only "no escape"
    [] OTHER -> FALSE
\* cases are independent of each other: a case that breaks its rule is recorded (register 2) and the
\* validation goes on, so that one run judges every case of the batch
Judge == IF ~Ev.escaped /\ Rule THEN TRUE ELSE TLCSet(2, TLCGet(2) \cup {Ev.n})
Case == l <= N /\ Ev.ev = "Case" /\ Judge /\ Step
Skip == l <= N /\ Ev.ev \notin {"Case", "Escaped"} /\ Step
Next == Case \/ Skip
Spec == Init /\ [][Next]_l
Accepted == PrintT(<<"FAILED", TLCGet(2)>>) /\ PrintT(<<"HWM", TLCGet(1), N>>) /\ TRUE
=============================================================================
