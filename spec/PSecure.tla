------------------------------- MODULE PSecure -------------------------------
(* Layer P trace specification for C17: wire visibility, delivery and status of one secure-plugin exchange. *)
EXTENDS Naturals, Sequences, FiniteSets, TLC, Json, IOUtils
Trace == ndJsonDeserialize(IOEnv.VERIF_TRACE)
N == Len(Trace)
VARIABLES l, cfg, entered
vars == <<l, cfg, entered>>
Ev == Trace[l]
Is(e) == l <= N /\ Ev.ev = e
Step == l' = l + 1 /\ TLCSet(1, l)
Init == l = 1 /\ cfg = [kind |-> "none"] /\ entered = FALSE /\ TLCSet(1, 0)
Reset == Is("Reset") /\ cfg' = Ev /\ entered' = FALSE /\ Step
\* the handler runs only if the request can be decrypted, and then sees the original argument
HEnter == Is("HEnter") /\ cfg.invoked /\ ~entered /\ Ev.argok /\ entered' = TRUE /\ UNCHANGED cfg /\ Step
\* the caller gets the original result with OK, or a non-OK status when the other side used another key
CallDone ==
  /\ Is("CallDone") /\ cfg.kind = "call"
  /\ CASE cfg.status = "ok" -> Ev.code = 0 /\ Ev.resok
       [] cfg.status = "error" -> Ev.code # 0 /\ ~Ev.resok
       [] OTHER -> (Ev.code = 0 => Ev.resok)
  /\ UNCHANGED <<cfg, entered>> /\ Step
\* marked messages do not appear in clear on the wire, unmarked ones pass unchanged
Wire ==
  /\ Is("WireView")
  /\ (Ev.reqclear <=> ~cfg.reqenc)
  /\ (cfg.replyenc = "yes" => ~Ev.replyclear)
  /\ (cfg.replyenc = "no" => Ev.replyclear)
  /\ (cfg.invoked <=> entered)
  /\ UNCHANGED <<cfg, entered>> /\ Step
\* concurrent exchanges on one session: every caller gets the result for its own argument, none fails (the keys are equal)
Conc == Is("ConcDone") /\ cfg.conc /\ Ev.wrong = 0 /\ Ev.errs = 0 /\ Ev.ok = Ev.total /\ UNCHANGED <<cfg, entered>> /\ Step
Known == {"Reset", "HEnter", "CallDone", "WireView", "CallHang", "SetupFailed", "ConcDone"}
Skip == l <= N /\ Ev.ev \notin Known /\ UNCHANGED <<cfg, entered>> /\ Step
Next == Reset \/ HEnter \/ CallDone \/ Wire \/ Conc \/ Skip
Spec == Init /\ [][Next]_vars
Accepted == PrintT(<<"HWM", TLCGet(1), N>>) /\ TRUE
=============================================================================
