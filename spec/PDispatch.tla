------------------------------ MODULE PDispatch ------------------------------
(***************************************************************************)
(* Layer P trace specification for single-message scenarios between two    *)
(* real peers (driver `disp`): C03 dispatch, C04 status, C09 plugin hooks. *)
(* The scenario parameters arrive in the Reset line; the rules below are   *)
(* the property statements evaluated on the recorded public events.        *)
(* The hook ORDER oracle is the documented stage/registration order as     *)
(* computed by spec/Dispatch.tla for the scenario (exphooks / expchooks).  *)
(***************************************************************************)
EXTENDS Naturals, Sequences, FiniteSets, TLC, Json, IOUtils

Trace == ndJsonDeserialize(IOEnv.VERIF_TRACE)
N == Len(Trace)
Prop == IF "VERIF_PROP" \in DOMAIN IOEnv THEN IOEnv.VERIF_PROP ELSE "ALL"
ON(p) == Prop = p \/ Prop = "ALL"
G(p, cond) == ON(p) => cond

VARIABLES l, cfg, sp, cp, enters, vetoSeen, cveto, hexit, done, ppanic
vars == <<l, cfg, sp, cp, enters, vetoSeen, cveto, hexit, done, ppanic>>
Ev == Trace[l]
Is(e) == l <= N /\ Ev.ev = e
Step == l' = l + 1 /\ TLCSet(1, l)
Init == l = 1 /\ cfg = [kind |-> "none"] /\ sp = 0 /\ cp = 0 /\ enters = 0 /\ vetoSeen = FALSE /\ cveto = "none" /\ hexit = "none" /\ done = FALSE /\ ppanic = "none" /\ TLCSet(1, 0)

PreHandlerStages == {"PostReadCallHeader", "PreReadCallBody", "PostReadCallBody", "PostReadPushHeader", "PreReadPushBody", "PostReadPushBody"}
CliReadStages == {"PostReadReplyHeader", "PreReadReplyBody", "PostReadReplyBody"}

Reset == Is("Reset") /\ cfg' = Ev /\ sp' = 0 /\ cp' = 0 /\ enters' = 0 /\ vetoSeen' = FALSE /\ cveto' = "none" /\ hexit' = "none" /\ done' = FALSE /\ ppanic' = "none" /\ Step

\* C09: hooks fire in the documented stage order and registration order, each at most once,
\*      only for plugins of the global container or of the matched route's chain
Hook ==
  /\ Is("Hook")
  /\ IF Ev.stage = "PreReadHeader"      \* fires before every read, not attributable to a message
       THEN UNCHANGED <<sp, cp, vetoSeen, cveto>>
       ELSE IF Ev.side = "srv"
         THEN /\ G("C09", sp < Len(cfg.exphooks) /\ cfg.exphooks[sp + 1] = Ev.pl \o "." \o Ev.stage)
              /\ sp' = sp + 1 /\ UNCHANGED <<cp, cveto>>
              /\ vetoSeen' = (vetoSeen \/ (Ev.verdict = "veto" /\ Ev.stage \in PreHandlerStages))
         ELSE /\ G("C09", cp < Len(cfg.expchooks) /\ cfg.expchooks[cp + 1] = Ev.pl \o "." \o Ev.stage)
              /\ cp' = cp + 1 /\ UNCHANGED <<sp, vetoSeen>>
              /\ cveto' = IF Ev.verdict = "veto" THEN Ev.stage ELSE cveto
  /\ ppanic' = IF Ev.verdict = "panic" THEN Ev.stage ELSE ppanic     \* a hook that panicked
  /\ UNCHANGED <<cfg, enters, hexit, done>> /\ Step

\* C03: at most one handler per message; C09: none after a vetoing pre-handler hook
HEnter ==
  /\ Is("HEnter")
  /\ G("C03", enters = 0)
  /\ G("C09", ~vetoSeen)
  /\ enters' = enters + 1 /\ UNCHANGED <<cfg, sp, cp, vetoSeen, cveto, hexit, done, ppanic>> /\ Step

HExit == Is("HExit") /\ hexit' = Ev.outcome /\ UNCHANGED <<cfg, sp, cp, enters, vetoSeen, cveto, done, ppanic>> /\ Step

CliReadVeto == cveto \in CliReadStages                      \* a reading-side hook of the caller vetoed
CliWriteVeto == cveto \in {"PreWriteCall", "PreWritePush"}   \* a pre-write hook of the caller vetoed
IsVetoTriple == Ev.code = 777 /\ Ev.msg = "veto-msg" /\ Ev.cause = "veto-cause"

\* C04: OK iff the handler ran to completion, returned OK and the reply was decoded; otherwise exactly the
\*      handler's code/message/cause, or the framework rule that applies
\* with a panicking plugin only the "only if" direction is demanded (the statement does not say which
\* error a plugin panic becomes): OK still needs a handler that returned OK and a decoded reply
StatusRule ==
  \* a handler that outlived the context age of its session: its reply could not be written, the caller is told so (500)
  IF (cfg.res = "ageshort" /\ hexit # "none") \/ (cfg.res = "smalllimit" /\ hexit = "ok") THEN Ev.code = 500 /\ Ev.msg = "Internal Server Error"
  ELSE IF ppanic # "none" THEN (Ev.code = 0 => hexit = "ok" /\ cfg.rdec = "ok" /\ Ev.resok)
  ELSE IF Ev.code = 0
    THEN hexit = "ok" /\ cfg.hout # "unpackable" /\ cfg.rdec = "ok" /\ ~CliReadVeto /\ Ev.resok
    ELSE CASE hexit = "status" -> IF CliReadVeto THEN IsVetoTriple
                                  ELSE Ev.code = 1001 /\ Ev.msg = "hmsg" /\ Ev.cause = "hcause"
           [] hexit = "panic"  -> IF CliReadVeto THEN IsVetoTriple ELSE Ev.code = 500 /\ Ev.msg = "Internal Server Error"
           [] hexit = "ok"     -> IF CliReadVeto THEN IsVetoTriple
                                  ELSE IF cfg.hout = "unpackable" THEN Ev.code = 500 /\ Ev.msg = "Internal Server Error"
                                  ELSE cfg.rdec = "bad" /\ Ev.code = 400 /\ Ev.msg = "Bad Message"
           [] OTHER            -> \* the handler was not invoked
                IF vetoSeen \/ CliReadVeto \/ CliWriteVeto THEN IsVetoTriple
                ELSE IF cfg.vetostage = "PreReadHeader" THEN Ev.code \in {102, 104}
                ELSE IF cfg.route = "unreg" THEN Ev.code = 404 /\ Ev.msg = "Not Found"
                ELSE cfg.dec = "bad" /\ Ev.code = 400 /\ Ev.msg = "Bad Message"

CallDone ==
  /\ Is("CallDone") /\ cfg.kind = "call" /\ ~done
  /\ G("C04", StatusRule)
  /\ done' = TRUE /\ UNCHANGED <<cfg, sp, cp, enters, vetoSeen, cveto, hexit, ppanic>> /\ Step

\* C09: a vetoing pre-write hook on the pushing side is what Push returns; otherwise a written push is OK
PushRet ==
  /\ Is("PushRet") /\ cfg.kind = "push" /\ ~done
  /\ G("C09", IF CliWriteVeto THEN Ev.code = 777 ELSE (cfg.vetostage # "PreReadHeader" /\ cfg.vkind # "panic" => Ev.code = 0))
  /\ done' = TRUE /\ UNCHANGED <<cfg, sp, cp, enters, vetoSeen, cveto, hexit, ppanic>> /\ Step

\* C03: a frame of an unsupported type is answered by disconnecting: no hook, no handler, no reply
BadType ==
  /\ Is("Quiesce") /\ cfg.kind = "badtype"
  /\ G("C03", Ev.srvdisc /\ Ev.enters = 0 /\ enters = 0 /\ Ev.nreply = 0 /\ sp = 0)
  /\ UNCHANGED <<cfg, sp, cp, enters, vetoSeen, cveto, hexit, done, ppanic>> /\ Step

Quiesce ==
  /\ Is("Quiesce") /\ done /\ cfg.kind # "badtype"
     \* C03: one reply per CALL on a connection that stays up, never two, none for a PUSH
  /\ G("C03", /\ Ev.nreply <= 1 /\ Ev.enters <= 1
              /\ (cfg.kind = "call" /\ Ev.ncall = 1 /\ ~Ev.srvdisc => Ev.nreply = 1)
              /\ (cfg.kind = "push" => Ev.nreply = 0)
              /\ Ev.nother = 0)
     \* C09: every registered hook of the applicable containers fired (none missing); caller veto => nothing written
  /\ G("C09", /\ (cfg.vetostage # "PreReadHeader" => sp = Len(cfg.exphooks) /\ cp = Len(cfg.expchooks))
              /\ (CliWriteVeto => Ev.ncall = 0 /\ Ev.npush = 0 /\ sp = 0)
              /\ (vetoSeen => Ev.enters = 0))
  /\ UNCHANGED <<cfg, sp, cp, enters, vetoSeen, cveto, hexit, done, ppanic>> /\ Step

\* C04: the status a caller was handed stays what it was while later messages are received in the process
HeldStatus == Is("HeldStatus") /\ G("C04", Ev.changed = 0) /\ UNCHANGED <<cfg, sp, cp, enters, vetoSeen, cveto, hexit, done, ppanic>> /\ Step
Known == {"Reset", "Hook", "HEnter", "HExit", "CallDone", "PushRet", "Quiesce", "HeldStatus", "CallHang", "PushHang", "SetupFailed"}
Skip == l <= N /\ Ev.ev \notin Known /\ UNCHANGED <<cfg, sp, cp, enters, vetoSeen, cveto, hexit, done, ppanic>> /\ Step
Next == Reset \/ Hook \/ HEnter \/ HExit \/ CallDone \/ PushRet \/ Quiesce \/ BadType \/ HeldStatus \/ Skip
Spec == Init /\ [][Next]_vars
Accepted == PrintT(<<"HWM", TLCGet(1), N>>) /\ TRUE
=============================================================================
