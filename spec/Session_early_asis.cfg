SPECIFICATION Spec
CONSTANTS
  Calls = {c1, c2}
  Inb = {h1}
  Closers = {k1}
  AtomicRD = TRUE
  LeakFix = TRUE
  BadReplies = TRUE
  EarlyReplies <- SwitchOn
  RecheckFix <- SwitchOff
INVARIANT DoneAtMostOnce
CHECK_DEADLOCK FALSE
