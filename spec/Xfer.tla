-------------------------------- MODULE Xfer --------------------------------
(***************************************************************************)
(* Abstract test space and oracle for C12 (transfer-filter pipes).         *)
(* Filters: "g" gzip level 5, "G" gzip best compression, "m" md5 integrity *)
(* filter, "?" an id that is not registered.  A pipe is a sequence of      *)
(* filter ids, outermost first.  Every case carries the expectation:       *)
(*   roundtrip  unpack(pack(x)) = x, and through a wire protocol the       *)
(*              receiver learns the same pipe from the frame;              *)
(*   refused    the pipe cannot be built / the frame is rejected;          *)
(*   detect     every single-byte corruption of the packed payload is      *)
(*              reported as an error (outermost filter is the md5 filter); *)
(*   replypipe  a reply travels through the pipe of its call.              *)
(***************************************************************************)
EXTENDS Naturals, Sequences, SequencesExt, FiniteSets, TLC, Json, IOUtils
CONSTANTS Export, MaxLen

Reg == {"g", "G", "m"}
Payloads == {"empty", "b1", "zeros4k", "rand4k", "rand1m"}
SeqsUpTo(n) == UNION {[1..k -> Reg] : k \in 0..n}
\* pipes as strings of ids (a fold, evaluated iteratively by TLC's SequencesExt override: a recursive definition over
\* Tail overflows the Java stack for pipes of 255 filters when the JVM is slow to compile, e.g. on a loaded machine)
Str(p) == FoldLeft(LAMBDA acc, x : acc \o x, "", p)
Rep(s, n) == [i \in 1..n |-> s[((i - 1) % Len(s)) + 1]]
LongPipes == {Rep(s, n) : s \in {<<"g">>, <<"m">>, <<"g", "m">>, <<"m", "G", "g">>}, n \in {5, 16, 255}}
WirePipes == {Rep(s, n) : s \in {<<"m">>, <<"g", "m">>}, n \in {254, 255}}
TooLong   == {Rep(<<"g">>, 256), Rep(<<"m", "g">>, 256)}
WithUnreg == {<<"?">>, <<"g", "?">>, <<"?", "m">>, <<"m", "?", "g">>}

Cases ==
       {[fam |-> "xfer", kind |-> "direct", pipe |-> Str(p), payload |-> d, expect |-> "roundtrip"] : p \in SeqsUpTo(MaxLen), d \in Payloads}
  \cup {[fam |-> "xfer", kind |-> "direct", pipe |-> Str(p), payload |-> d, expect |-> "roundtrip"] : p \in LongPipes, d \in {"b1", "rand4k"}}
  \cup {[fam |-> "xfer", kind |-> "direct", pipe |-> Str(p), payload |-> "b1", expect |-> "refused"] : p \in TooLong \cup WithUnreg}
  \cup {[fam |-> "xfer", kind |-> "corrupt", pipe |-> Str(p), payload |-> d, expect |-> "detect"] :
           p \in {q \in SeqsUpTo(3) : Len(q) >= 1 /\ q[1] = "m"}, d \in {"empty", "b1", "rand200"}}
  \cup {[fam |-> "xfer", kind |-> "wire", proto |-> pr, pipe |-> Str(p), payload |-> d, expect |-> "roundtrip"] :
           pr \in {"raw", "json", "pb", "thriftbin"}, p \in SeqsUpTo(2), d \in {"empty", "b1", "rand4k"}}
  \* pipes of the maximum documented length (and one below) through the wire protocols whose frame carries the pipe length in one byte
  \cup {[fam |-> "xfer", kind |-> "wire", proto |-> pr, pipe |-> Str(p), payload |-> "b1", expect |-> "roundtrip"] :
           pr \in {"raw", "json"}, p \in WirePipes}
  \cup {[fam |-> "xfer", kind |-> "wireunreg", proto |-> pr, pipe |-> "g", payload |-> "b1", expect |-> "refused"] : pr \in {"raw", "json"}}
  \* a frame whose payload is packed with the registered filters only, while its header also names an unregistered one
  \* ("?" = the unregistered id): it must be refused, not decoded with the filters that happen to be known
  \cup {[fam |-> "xfer", kind |-> "wireunregplain", proto |-> pr, pipe |-> p, payload |-> "b1", expect |-> "refused"] :
           pr \in {"raw", "json"}, p \in {"?", "??", "g?", "gm?"}}
  \* a reply travels through the pipe of its call -- also an error reply, whether the handler returned the error (herr)
  \* or the framework did before any handler ran (unknown method: nf; undecodable argument: baddec)
  \cup {[fam |-> "xfer", kind |-> "replypipe", proto |-> pr, pipe |-> Str(p), payload |-> "rand4k", outcome |-> oc, expect |-> "replypipe"] :
           pr \in {"raw", "json"}, p \in SeqsUpTo(2), oc \in {"ok", "herr", "nf", "baddec"}}

VARIABLES c, done
vars == <<c, done>>
Init == c \in Cases /\ done = FALSE
Run == ~done /\ done' = TRUE /\ UNCHANGED c
Spec == Init /\ [][Run]_vars
\* sanity of the oracle: a pipe naming an unregistered filter or longer than 255 is never expected to round-trip
OracleSane == c.expect = "roundtrip" => Len(c.pipe) <= 255
Emit == Export = "" \/ Serialize(ToJson(c) \o "\n", Export,
          [format |-> "TXT", charset |-> "UTF-8", openOptions |-> <<"WRITE", "CREATE", "APPEND">>]).exitValue = 0
=============================================================================
