SPECIFICATION Spec
CONSTANTS
  Export = ""
INVARIANT OracleSane
CHECK_DEADLOCK FALSE
