------------------------------ MODULE PRedialM ------------------------------
(* Layer P trace specification for the schedule families of spec/RedialSched.tla (C13, with the parts of C02, C07  *)
(* and C08 that concern a redial-enabled session): whatever the schedule inside a loss was, every call and every     *)
(* Close() came to an end, and at quiescence the session is fully alive or has ended -- nothing in between.          *)
EXTENDS Naturals, Sequences, FiniteSets, TLC, Json, IOUtils
Trace == ndJsonDeserialize(IOEnv.VERIF_TRACE)
N == Len(Trace)
Prop == IF "VERIF_PROP" \in DOMAIN IOEnv THEN IOEnv.VERIF_PROP ELSE "ALL"
\* a rule is applied when the check of one of the properties it belongs to is running
G(ps, cond) == (Prop \in ps \/ Prop = "ALL") => cond
VARIABLES l, cfg, state
vars == <<l, cfg, state>>
Ev == Trace[l]
Is(e) == l <= N /\ Ev.ev = e
Step == l' = l + 1 /\ TLCSet(1, l)
Init == l = 1 /\ cfg = [alwaysup |-> FALSE, closed |-> FALSE] /\ state = "-" /\ TLCSet(1, 0)
Reset == Is("Reset") /\ cfg' = Ev /\ state' = "-" /\ Step
ConnErr == {102, 104, 105}
\* C02 / C13: a call completes, with the reply or with a connection error; a CallHang event is consumed by no action
CallDone == Is("CallDone") /\ G({"C02", "C13"}, (Ev.code = 0 /\ Ev.resok) \/ Ev.code \in ConnErr) /\ UNCHANGED <<cfg, state>> /\ Step
CallHang == Is("CallHang") /\ Prop \notin {"C02", "C13", "C08", "ALL"} /\ UNCHANGED <<cfg, state>> /\ Step
\* C08 / C07: Close() returns; a CloseHang event is consumed by no action
CloseRet == Is("CloseRet") /\ UNCHANGED <<cfg, state>> /\ Step
CloseHang == Is("CloseHang") /\ Prop \notin {"C08", "C07", "C02", "C13", "ALL"} /\ UNCHANGED <<cfg, state>> /\ Step
Alive(e) == e.health /\ ~e.notified /\ e.indexed /\ e.count = 1 /\ e.status = "Ok" /\ e.dischooks = 0
Ended(e) == e.notified /\ ~e.indexed /\ e.count = 0 /\ e.dischooks = 1 /\ e.status \in {"PassiveClosed", "ActiveClosed", "RedialFailed"}
\* a session that ended (a whole round of attempts failed: notified, disconnect hook run) and was re-established by the
\* further round that a later call starts: the statement of C13 leaves that outcome open
Revived(e) == e.health /\ e.notified /\ e.indexed /\ e.count = 1 /\ e.status = "Ok" /\ e.dischooks = 1
\* C13 / C07 at the quiescent point
QProbe ==
  /\ Is("QProbe")
  /\ IF cfg.closed THEN G({"C07", "C08", "C13"}, Ended(Ev) /\ ~Ev.health)              \* a local Close() ends the session for good
     ELSE IF cfg.alwaysup THEN G({"C13", "C07"}, Alive(Ev))                      \* the server was reachable all the time: the session survives the loss
     ELSE G({"C13", "C07"}, Alive(Ev) \/ Ended(Ev) \/ Revived(Ev))
  /\ state' = (IF Alive(Ev) \/ Revived(Ev) THEN "alive" ELSE "ended") /\ UNCHANGED cfg /\ Step
\* a later call: succeeds on a live session while the server is reachable, fails fast once the session was closed locally;
\* on a session that ended by itself it starts one further round of attempts (either outcome)
FreshCall ==
  /\ Is("FreshCall")
  /\ IF cfg.closed THEN G({"C07", "C13"}, Ev.code \in ConnErr)
     ELSE IF state = "alive" /\ Ev.srvup /\ ~Ev.hookbad THEN G({"C13", "C02"}, Ev.code = 0 /\ Ev.resok)
     ELSE G({"C13", "C02"}, (Ev.code = 0 /\ Ev.resok) \/ Ev.code \in ConnErr)
  /\ UNCHANGED <<cfg, state>> /\ Step
DialDone == Is("DialDone") /\ Ev.ok /\ UNCHANGED <<cfg, state>> /\ Step
Known == {"Reset", "CallDone", "CallHang", "CloseRet", "CloseHang", "QProbe", "FreshCall", "DialDone"}
Skip == l <= N /\ Ev.ev \notin Known /\ UNCHANGED <<cfg, state>> /\ Step
Next == Reset \/ CallDone \/ CallHang \/ CloseRet \/ CloseHang \/ QProbe \/ FreshCall \/ DialDone \/ Skip
Spec == Init /\ [][Next]_vars
Accepted == PrintT(<<"HWM", TLCGet(1), N>>) /\ TRUE
=============================================================================
