-------------------------------- MODULE PProxy --------------------------------
(* Layer P trace specification for C19: each proxied exchange is compared with the same exchange sent *)
(* directly to the backend (metamorphic oracle).                                                       *)
EXTENDS Naturals, Sequences, FiniteSets, TLC, Json, IOUtils
Trace == ndJsonDeserialize(IOEnv.VERIF_TRACE)
N == Len(Trace)
VARIABLES l, cfg
vars == <<l, cfg>>
Ev == Trace[l]
Is(e) == l <= N /\ Ev.ev = e
Step == l' = l + 1 /\ TLCSet(1, l)
Init == l = 1 /\ cfg = [expect |-> "same"] /\ TLCSet(1, 0)
Reset == Is("Reset") /\ cfg' = Ev /\ Step
Outcome ==
  /\ Is("ProxyOutcome")
  /\ IF cfg.expect = "badgateway"
       THEN /\ (cfg.kind = "call" => Ev.pcode = 502 /\ Ev.pmsg = "Bad Gateway")     \* on that call ...
            /\ Ev.nextok                                                            \* ... only
       ELSE /\ Ev.samestatus /\ Ev.samebody /\ Ev.samemeta          \* body bytes, status, reply metadata as if called directly
            /\ Ev.backendenters = Ev.expectedenters                 \* forwarded exactly once
            /\ Ev.realipok                                          \* the caller's address added exactly when absent
            /\ Ev.reqmetaok                                         \* the request metadata reaches the backend
  /\ UNCHANGED cfg /\ Step
\* concurrent proxied calls: every caller receives the body and the reply metadata of its own call
Conc == Is("ProxyConc") /\ Ev.wrong = 0 /\ Ev.errs = 0 /\ Ev.ok = Ev.total /\ UNCHANGED cfg /\ Step
Skip == l <= N /\ Ev.ev \notin {"Reset", "ProxyOutcome", "ProxyHang", "ProxyConc"} /\ UNCHANGED cfg /\ Step
Next == Reset \/ Outcome \/ Conc \/ Skip
Spec == Init /\ [][Next]_vars
Accepted == PrintT(<<"HWM", TLCGet(1), N>>) /\ TRUE
=============================================================================
