------------------------------- MODULE Secure -------------------------------
(***************************************************************************)
(* Marker matrix and oracle for C17 (secure plugin): message kind, the     *)
(* secure marker on the request, the accept-secure marker, whether the     *)
(* handler enforces a secure reply, equal / different keys, key length,    *)
(* body codec, body class.  The oracle states what must be visible on the  *)
(* wire (clear / encrypted), whether the handler must be invoked, and the  *)
(* class of the caller's status.  "any" = left open by the statement (the  *)
(* combination secure request + accept-secure=false, and everything after  *)
(* a failed decryption).                                                   *)
(***************************************************************************)
EXTENDS Naturals, Sequences, FiniteSets, TLC, Json, IOUtils
CONSTANTS Export
Cfgs == [kind : {"call", "push"}, marker : {"none", "secure"}, accept : {"absent", "true", "false"}, enforce : BOOLEAN,
         keys : {"equal", "different"}, keylen : {16, 24, 32}, codec : {"j", "p"}, body : {"short", "long", "special", "empty"},
         resend : BOOLEAN,
         prev : {"none", "secure"},    \* an earlier secure call on the same session (its per-message plugin state must not outlive it)
         swapseed : BOOLEAN,           \* the receiving session carries an entry in its swap, as an accept plugin leaves one
         conc : BOOLEAN,               \* the exchange is one of 240 made by 8 goroutines on the session at the same time
         hret : {"nil", "okstatus"},   \* the handler reports success with a nil status, or with a status object of code 0
         nbr : {"none", "before", "after", "route"},  \* a neighbouring plugin of both peers, registered before / after the secure plugin, or (serving side) on the routes
         nret : {"nil", "okstatus"}]   \* what every read hook (header, pre-body, post-body of CALL / PUSH / REPLY) and every write hook of the neighbour returns
\* (hret has no place in the oracle: a success is a success)
\* (nbr / nret have no place in the oracle either: a neighbour that lets every message pass, whichever way it says so,
\* changes nothing of what the statement demands of the secure plugin)
\* resend: the message is the first one after a connection loss on a redial-enabled session, so the session
\* redials inside Call / Push and writes the message again; the plugin must not process it twice
CfgOK(c) == /\ (c.kind = "push" => ~c.enforce /\ c.accept = "absent")
            /\ (c.resend => c.keys = "equal" /\ c.keylen = 16 /\ c.body = "short" /\ c.accept = "absent" /\ ~c.enforce)
            /\ (c.prev # "none" \/ c.swapseed => c.keylen = 16 /\ c.body = "short" /\ c.accept = "absent" /\ ~c.enforce /\ ~c.resend /\ ~c.conc)
            /\ (c.hret = "okstatus" => c.kind = "call" /\ c.keylen = 16 /\ c.body = "short" /\ ~c.resend /\ c.prev = "none" /\ ~c.swapseed /\ ~c.conc)
            /\ (c.nbr = "none" => c.nret = "nil")
            /\ (c.nbr # "none" => c.keylen = 16 /\ c.body = "short" /\ ~c.resend /\ c.prev = "none" /\ ~c.swapseed /\ ~c.conc /\ c.hret = "nil")
            /\ (c.conc => c.kind = "call" /\ c.keys = "equal" /\ c.keylen = 16 /\ c.body = "short" /\ ~c.enforce /\ ~c.resend
                           /\ c.accept \in {"absent", "true"} /\ (c.marker = "secure" \/ c.accept = "true"))
ReqEnc(c)  == c.marker = "secure"
KeysOK(c)  == c.keys = "equal"
Invoked(c) == ~ReqEnc(c) \/ KeysOK(c)
ReplyEnc(c) == IF c.kind = "push" \/ ~Invoked(c) THEN "any"
               ELSE IF c.marker = "secure" /\ c.accept = "false" THEN "any"
               ELSE IF c.marker = "secure" \/ c.accept = "true" \/ c.enforce THEN "yes" ELSE "no"
Status(c) == IF c.kind = "push" THEN "any"
             ELSE IF ~Invoked(c) THEN "error"
             ELSE IF ReplyEnc(c) = "no" THEN "ok"
             ELSE IF ReplyEnc(c) = "yes" THEN (IF KeysOK(c) THEN "ok" ELSE "error")
             ELSE (IF KeysOK(c) THEN "ok" ELSE "any")
VARIABLES c, done
vars == <<c, done>>
Init == c \in {x \in Cfgs : CfgOK(x)} /\ done = FALSE
Run == ~done /\ done' = TRUE /\ UNCHANGED c
Spec == Init /\ [][Run]_vars
\* oracle sanity: an encrypted request with a wrong key never reaches the handler, an unmarked exchange is never required to be encrypted
OracleSane == /\ (ReqEnc(c) /\ ~KeysOK(c) => ~Invoked(c))
              /\ (c.marker = "none" /\ c.accept # "true" /\ ~c.enforce /\ c.kind = "call" => ReplyEnc(c) = "no" /\ Status(c) = "ok")
Emit == Export = "" \/
  Serialize(ToJson([kind |-> c.kind, marker |-> c.marker, accept |-> c.accept, enforce |-> c.enforce, keys |-> c.keys, keylen |-> c.keylen, resend |-> c.resend, prev |-> c.prev, swapseed |-> c.swapseed, conc |-> c.conc, hret |-> c.hret, nbr |-> c.nbr, nret |-> c.nret,
                    codec |-> c.codec, body |-> c.body, reqenc |-> ReqEnc(c), invoked |-> Invoked(c), replyenc |-> ReplyEnc(c), status |-> Status(c)]) \o "\n", Export,
            [format |-> "TXT", charset |-> "UTF-8", openOptions |-> <<"WRITE", "CREATE", "APPEND">>]).exitValue = 0
=============================================================================
