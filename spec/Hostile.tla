------------------------------- MODULE Hostile -------------------------------
(***************************************************************************)
(* Hostile input space and receiver automaton for C06.  Input classes per  *)
(* protocol and read limit: random bytes; a valid frame whose length field *)
(* is set to a boundary value; a valid frame truncated at every offset;    *)
(* a valid prefix followed by garbage; a frame announcing far more than    *)
(* the limit with only a few bytes following.  Every input must leave the  *)
(* process alive, the buffering bounded by the limit, the session either   *)
(* functional or cleanly disconnected and the other sessions of the peer   *)
(* served (expect = "robust").  The receiver automaton these expectations  *)
(* come from is module HostileRecv.                                        *)
(***************************************************************************)
EXTENDS Naturals, Sequences, FiniteSets, TLC, Json, IOUtils
CONSTANTS Export
Protos == {"raw", "json", "pb", "thriftbin", "http"}
Limits == {4096, 65536}
\* "lowered": the frames of "hugeannounce" (and one announcing 1 MiB) arrive after the read limit was LOWERED at run time, on a
\* peer whose sessions, pooled messages and handler contexts came into being under the default limit
Classes == {"random", "truncall", "prefixgarbage", "hugeannounce", "validthengarbage", "zeros", "lowered"}
LenVals == {"0", "1", "limit-1", "limit", "limit+1", "2^31-1", "2^32-1"}
Cases == {[fam |-> "hostile", proto |-> p, limit |-> l, class |-> c, lenval |-> "-", variant |-> v, expect |-> "robust"] :
             p \in Protos, l \in Limits, c \in Classes, v \in 1..3}
    \cup {[fam |-> "hostile", proto |-> p, limit |-> l, class |-> "lenfield", lenval |-> lv, variant |-> 1, expect |-> "robust"] :
             p \in Protos, l \in Limits, lv \in LenVals}
    \* length information given twice, or negative (only the http-style protocol can express it: repeated / signed Content-Length)
    \cup {[fam |-> "hostile", proto |-> "http", limit |-> l, class |-> cl, lenval |-> "-", variant |-> 1, expect |-> "robust"] :
             l \in Limits, cl \in {"duplen", "neglen", "endlessline"}}

\* hostile REPLY bodies: the receiver has a call outstanding (a result struct with a fixed-size array, a slice and scalars)
\* and the remote answers with a well-formed REPLY frame whose body, in the codec it names, is malformed in one of these
\* ways; the caller must complete, the session must stay functional or end cleanly
ReplyBodies == {[fam |-> "hostile", proto |-> "raw", limit |-> 65536, class |-> "replybody", lenval |-> bc, variant |-> v, codec |-> cd, expect |-> "robust"] :
                  cd \in {"j", "x", "f", "s", "p"}, bc \in {"overflow", "wrongtype", "truncated", "random", "empty", "huge"}, v \in 1..1}
\* state of the attacked session when the hostile bytes (or the plain end of the input) arrive: "idle" (all cases above);
\* "pending": one CALL of the attacked side is waiting for a reply that never comes; "closing": such a CALL is pending AND a
\* graceful Close() of the session is in progress (parked waiting for that call).  Once the input is exhausted the call must
\* have completed and Close() must have returned (no caller stays blocked), whatever stopped the reader.
\* Representative input classes: a few truncations of a valid frame (inside the size field, inside the header, one byte
\* short), random bytes, nothing at all (plain EOF), a bad length field, a well-formed frame of an unsupported type.
SessStates == {"idle", "pending", "closing"}
StateClasses == {"truncsome", "random", "eof", "lenfield", "badtype"}
StateOK(p, cl, lv, st) ==
  /\ (cl = "lenfield") <=> (lv # "-")
  /\ st = "idle" => cl \in {"eof", "badtype"}                        \* (the other classes are covered idle above)
  /\ cl = "badtype" => p # "http"                                     \* (the http mapping has no such message type)
  /\ p = "thriftbin" /\ st # "idle" => cl \in {"truncsome", "eof"}    \* (its buffering of hostile sizes is a recorded finding)
StateCases == {[fam |-> "hostile", proto |-> p, limit |-> 65536, class |-> cl, lenval |-> lv, variant |-> 1, sess |-> st, expect |-> "robust"] :
                 p \in Protos, cl \in StateClasses, lv \in {"-", "0", "limit+1", "2^32-1"}, st \in SessStates}
StateSel == {x \in StateCases : StateOK(x.proto, x.class, x.lenval, x.sess)}
\* well-formed CALL / PUSH frames (registered and unregistered routes) whose body -- and a metadata value -- is hostile for whoever
\* has to RENDER it: a serving peer that prints message details (PrintDetail, logger level DEBUG).  The body classes: plain,
\* multi-byte runes, a rune cut after 1 / 2 / 3 bytes at the very end, invalid UTF-8, U+2028 / U+2029, quotes / backslashes /
\* control bytes, empty, long random.
LoggedBodies == {"ascii", "utf8", "trunc1", "trunc2", "trunc4", "invalid", "linesep", "control", "empty", "long", "random"}
Logged == {[fam |-> "hostile", proto |-> p, limit |-> 65536, class |-> "logged", lenval |-> b, variant |-> 1, expect |-> "robust"] :
             p \in {"raw", "json", "pb"}, b \in LoggedBodies}
VARIABLES c, done
vars == <<c, done>>
Init == c \in Cases \cup ReplyBodies \cup StateSel \cup Logged /\ done = FALSE
Run == ~done /\ done' = TRUE /\ UNCHANGED c
Spec == Init /\ [][Run]_vars
OracleSane == c.expect = "robust"
Emit == Export = "" \/ Serialize(ToJson(c) \o "\n", Export,
          [format |-> "TXT", charset |-> "UTF-8", openOptions |-> <<"WRITE", "CREATE", "APPEND">>]).exitValue = 0
=============================================================================
