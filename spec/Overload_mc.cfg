SPECIFICATION Spec
CONSTANTS
  Export = ""
  MaxOps = 7
  GuardRelease = TRUE
  Limits = {0, 1, 2}
VIEW view
INVARIANTS NeverOver CountsExact
CHECK_DEADLOCK FALSE
