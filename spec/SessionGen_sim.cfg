SPECIFICATION GSpec
CONSTANTS
  Calls = {c1, c2}
  Inb = {h1, h2}
  Closers = {k1, k2}
  AtomicRD = TRUE
  LeakFix = TRUE
  BadReplies = TRUE
CHECK_DEADLOCK FALSE
