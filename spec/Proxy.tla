-------------------------------- MODULE Proxy --------------------------------
(***************************************************************************)
(* Request space and oracle for C19 (proxy transparency): a call or push   *)
(* for a method the proxy does not serve is forwarded exactly once to the  *)
(* backend; the caller receives the backend's body, status and reply       *)
(* metadata (one value per key) unchanged -- the same outcome as calling   *)
(* the backend directly --, the caller's address is added as real-IP       *)
(* metadata exactly when absent; a backend connection failure surfaces as  *)
(* Bad Gateway on that call only.                                          *)
(***************************************************************************)
EXTENDS Naturals, Sequences, FiniteSets, TLC, Json, IOUtils
CONSTANTS Export
Cases == [kind : {"call", "push"}, method : {"echo", "fail", "missing"}, codec : {"j", "p"},
          reqmeta : {"none", "one", "realip", "repeated"}, replymeta : {"none", "one", "two"},
          body : {"short", "empty", "special", "big", "nil"}, failure : {"none", "downbefore", "writefail", "cutduring"},
          \* what happened EARLIER on the proxy's forwarder (backend) session, before the exchange under test:
          \*   "deadlinemsg"  a message was written there under a context deadline (a health probe with a timeout), which has
          \*                  since passed
          \*   "agedoff"      an exchange took place there under a context age, which was then switched off (SetContextAge(0));
          \*                  the age has run out since
          \* Whatever that left on the session or its connection (an armed write deadline, a pooled context) must not show in
          \* the proxied exchange: the direct reference session has no such past.
          earlier : {"none", "deadlinemsg", "agedoff"}]
OK(c) == /\ (c.kind = "push" => c.method # "fail" /\ c.replymeta = "none" /\ c.failure # "cutduring")
         /\ (c.method = "missing" => c.replymeta = "none" /\ c.failure = "none")
         /\ (c.failure # "none" => c.method = "echo" /\ c.body = "short" /\ c.replymeta = "none")
         /\ (c.codec = "p" => c.method # "fail")
         \* "nil": no argument at all (a zero-length body on the wire), sent after non-empty proxied exchanges
         /\ (c.body = "nil" => c.replymeta = "none")
         \* the forwarder session's past is varied for healthy exchanges with a short body (every kind, method, codec and metadata
         \* class: 60 cases x 2 pasts); it is independent of the size classes and the failure classes re-make the connection
         /\ (c.earlier # "none" => c.failure = "none" /\ c.body = "short")
         \* "writefail": the proxy's write of the forwarded message fails (reset / broken pipe) while the connection still looks healthy
Expect(c) == IF c.failure # "none" THEN "badgateway" ELSE "same"
\* 200 proxied calls made by 8 goroutines at the same time, each with reply metadata of its own: every caller gets its own
Conc == {[kind |-> "call", method |-> "echo", codec |-> cd, reqmeta |-> "one", replymeta |-> "one", body |-> "short", failure |-> "none", earlier |-> "none", conc |-> TRUE] : cd \in {"j", "p"}}
VARIABLES c, done
vars == <<c, done>>
Init == c \in {[x EXCEPT !.kind = x.kind] @@ [conc |-> FALSE] : x \in {y \in Cases : OK(y)}} \cup Conc /\ done = FALSE
Run == ~done /\ done' = TRUE /\ UNCHANGED c
Spec == Init /\ [][Run]_vars
OracleSane == (Expect(c) = "badgateway") <=> (c.failure # "none")
Emit == Export = "" \/
  Serialize(ToJson([kind |-> c.kind, method |-> c.method, codec |-> c.codec, reqmeta |-> c.reqmeta, replymeta |-> c.replymeta,
                    body |-> c.body, failure |-> c.failure, earlier |-> c.earlier, conc |-> c.conc, expect |-> Expect(c)]) \o "\n", Export,
            [format |-> "TXT", charset |-> "UTF-8", openOptions |-> <<"WRITE", "CREATE", "APPEND">>]).exitValue = 0
=============================================================================
