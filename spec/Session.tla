------------------------------- MODULE Session -------------------------------
(***************************************************************************)
(* Layer M: code-shaped model of ONE erpc session endpoint without redial. *)
(*                                                                         *)
(* One action per critical section of session.go / context.go / peer.go;   *)
(* the comment on each action names the `vp` hold point (build tag verif)  *)
(* at which the executing goroutine is parked AFTER the action, which is   *)
(* what lets the Go harness replay an exported behaviour step by step.     *)
(*                                                                         *)
(* Threads: one goroutine per outbound call c (AsyncCall), the reader      *)
(* (startReadAndHandle + deferred readDisconnected), one goroutine per     *)
(* received reply (handleReply), one per inbound CALL h (handleCall), one   *)
(* per Close() invocation k.  The remote peer and the network are the      *)
(* environment.                                                            *)
(*                                                                         *)
(* The constants select "the code as it is" versus "the code as repaired": *)
(*   AtomicRD  readDisconnected moves Ok -> PassiveClosing by CAS (TRUE)   *)
(*             or by load ... store (FALSE, the pinned commit)             *)
(*   LeakFix   the read loop completes a bound reply before an early       *)
(*             return (TRUE) or returns with the call's mutex held (FALSE) *)
(*   BadReplies  the remote may send replies whose body cannot be decoded  *)
(*             and whose codec id is 0                                     *)
(***************************************************************************)
EXTENDS Naturals, Sequences, FiniteSets, TLC

CONSTANTS Calls,      \* outbound call ids
          Inb,        \* inbound CALL frame ids
          Closers,    \* Close() invocations
          AtomicRD, LeakFix, BadReplies

\* Two further switches, defined here and overridden in Session_early*.cfg (so that the existing configurations and the
\* generated SessionGen module are untouched):
\*   EarlyReplies  a hostile remote answers a call it has not received yet (sequence numbers are predictable): the REPLY
\*                 can arrive while AsyncCall still holds the call's mutex, and the write may then fail
\*   RecheckFix    bindReply, once it has the call's mutex, makes sure the call is still in the table (repaired code,
\*                 fix f93528b) instead of completing a call that was completed while it waited
EarlyReplies == FALSE
RecheckFix   == TRUE
SwitchOn  == TRUE
SwitchOff == FALSE

VARIABLES
  status,      \* lifecycle word
  indexed,     \* present in the peer's session hub
  notified,    \* close-notify channel closed
  discHooks,   \* number of PostDisconnect runs
  sockClosed,  \* local socket closed
  lock,        \* session.lock holder ("free" or a closer)
  cpc, mu, pending, hasReply, cstat, doneCnt, wgCall,   \* outbound calls
  rpc, rcur, rerr, rbuf,                                \* reader (rbuf: frames already in the socket's read buffer)
  rhpc,                                                 \* reply goroutines
  nfput,                                                \* goroutines for replies without a call
  wgCtx, hpc, hres,                                     \* inbound handlers
  clpc,                                                 \* closers
  rdpc, rdSeen, rdTodo,                                 \* readDisconnected
  wireIn, wireOut, connUp, replied, sentIn, repliesOut, \* network / remote
  enteredAtClose                                        \* history: handlers entered when Close was first called

vars == <<status, indexed, notified, discHooks, sockClosed, lock,
          cpc, mu, pending, hasReply, cstat, doneCnt, wgCall,
          rpc, rcur, rerr, rbuf, rhpc, nfput, wgCtx, hpc, hres, clpc,
          rdpc, rdSeen, rdTodo,
          wireIn, wireOut, connUp, replied, sentIn, repliesOut, enteredAtClose>>

sessVars == <<status, indexed, notified, discHooks, sockClosed, lock>>
callVars == <<cpc, mu, pending, hasReply, cstat, doneCnt, wgCall>>
readVars == <<rpc, rcur, rerr, rbuf>>
hdlVars  == <<wgCtx, hpc, hres>>
rdVars   == <<rdpc, rdSeen, rdTodo>>
netVars  == <<wireIn, wireOut, connUp, replied, sentIn, repliesOut>>

Closed   == {"ActiveClosed", "PassiveClosed"}
GoonRead == status \in {"Ok", "ActiveClosing"}
None     == <<"none", "none">>

Init ==
  /\ status = "Ok" /\ indexed = TRUE /\ notified = FALSE /\ discHooks = 0
  /\ sockClosed = FALSE /\ lock = "free"
  /\ cpc = [c \in Calls |-> "idle"] /\ mu = [c \in Calls |-> "free"]
  /\ pending = {} /\ hasReply = [c \in Calls |-> FALSE]
  /\ cstat = [c \in Calls |-> "-"] /\ doneCnt = [c \in Calls |-> 0] /\ wgCall = 0
  /\ rpc = "next" /\ rcur = None /\ rerr = FALSE /\ rbuf = 0
  /\ rhpc = [c \in Calls |-> "none"] /\ nfput = 0
  /\ wgCtx = 0 /\ hpc = [h \in Inb |-> "none"] /\ hres = [h \in Inb |-> "-"]
  /\ clpc = [k \in Closers |-> "idle"]
  /\ rdpc = "none" /\ rdSeen = "-" /\ rdTodo = {}
  /\ wireIn = <<>> /\ wireOut = {} /\ connUp = TRUE /\ replied = {} /\ sentIn = {}
  /\ repliesOut = {} /\ enteredAtClose = {}

\* callCmd.done() / cancel(): delete from the table, deliver on the channel,
\* close(doneChan), graceCallCmdWaitGroup.Done()
Complete(c, st) ==
  /\ pending' = pending \ {c}
  /\ cstat'   = [cstat EXCEPT ![c] = st]
  /\ doneCnt' = [doneCnt EXCEPT ![c] = @ + 1]
  /\ wgCall'  = wgCall - 1

-----------------------------------------------------------------------------
(* AsyncCall (session.go)                                                  *)

CSeq(c) ==      \* -> call.seq : sequence number allocated
  /\ cpc[c] = "idle" /\ cpc' = [cpc EXCEPT ![c] = "seq"]
  /\ UNCHANGED <<sessVars, mu, pending, hasReply, cstat, doneCnt, wgCall, readVars, rhpc, nfput,
                 hdlVars, clpc, rdVars, netVars, enteredAtClose>>

CStore(c) ==    \* -> call.stored : wg.Add(1); cmd.mu.Lock(); callCmdMap.Store
  /\ cpc[c] = "seq" /\ cpc' = [cpc EXCEPT ![c] = "stored"]
  /\ wgCall' = wgCall + 1 /\ mu' = [mu EXCEPT ![c] = "caller"] /\ pending' = pending \cup {c}
  /\ UNCHANGED <<sessVars, hasReply, cstat, doneCnt, readVars, rhpc, nfput, hdlVars, clpc, rdVars, netVars, enteredAtClose>>

CCheck(c) ==    \* write(): status test.  -> write.checked | (write.refused) cmd.done
  /\ cpc[c] = "stored"
  /\ cpc' = [cpc EXCEPT ![c] = IF status = "Ok" THEN "checked" ELSE "failing"]
  /\ UNCHANGED <<sessVars, mu, pending, hasReply, cstat, doneCnt, wgCall, readVars, rhpc, nfput,
                 hdlVars, clpc, rdVars, netVars, enteredAtClose>>

CWrite(c) ==    \* writeLock; WriteMessage.  -> call.written | cmd.done
  /\ cpc[c] = "checked"
  /\ IF ~sockClosed /\ connUp
       THEN cpc' = [cpc EXCEPT ![c] = "written"] /\ wireOut' = wireOut \cup {c}
       ELSE cpc' = [cpc EXCEPT ![c] = "failing"] /\ UNCHANGED wireOut
  /\ UNCHANGED <<sessVars, mu, pending, hasReply, cstat, doneCnt, wgCall, readVars, rhpc, nfput,
                 hdlVars, clpc, rdVars, wireIn, connUp, replied, sentIn, repliesOut, enteredAtClose>>

CFail(c) ==     \* cmd.done() with an error status; return (deferred cmd.mu.Unlock)
  /\ cpc[c] = "failing" /\ cpc' = [cpc EXCEPT ![c] = "returned"]
  /\ Complete(c, "err") /\ mu' = [mu EXCEPT ![c] = "free"]
  /\ UNCHANGED <<sessVars, hasReply, readVars, rhpc, nfput, hdlVars, clpc, rdVars, netVars, enteredAtClose>>

CReturn(c) ==   \* postWriteCall; return (deferred cmd.mu.Unlock)
  /\ cpc[c] = "written" /\ cpc' = [cpc EXCEPT ![c] = "returned"]
  /\ mu' = [mu EXCEPT ![c] = "free"]
  /\ UNCHANGED <<sessVars, pending, hasReply, cstat, doneCnt, wgCall, readVars, rhpc, nfput,
                 hdlVars, clpc, rdVars, netVars, enteredAtClose>>

-----------------------------------------------------------------------------
(* Environment: the remote peer and the network                            *)

ReplyKinds == IF BadReplies THEN {"good", "bad"} ELSE {"good"}

RemoteReply(c, kind) ==
  /\ (c \in wireOut \/ (EarlyReplies /\ c \in pending)) /\ c \notin replied /\ connUp
  /\ replied' = replied \cup {c} /\ wireIn' = Append(wireIn, <<"reply", c, kind>>)
  /\ UNCHANGED <<sessVars, callVars, readVars, rhpc, nfput, hdlVars, clpc, rdVars,
                 wireOut, connUp, sentIn, repliesOut, enteredAtClose>>

RemoteCall(h) ==
  /\ h \notin sentIn /\ connUp
  /\ sentIn' = sentIn \cup {h} /\ wireIn' = Append(wireIn, <<"call", h, "good">>)
  /\ UNCHANGED <<sessVars, callVars, readVars, rhpc, nfput, hdlVars, clpc, rdVars,
                 wireOut, connUp, replied, repliesOut, enteredAtClose>>

ConnDown ==     \* remote close or cut: delivered bytes can still be read, writes fail
  /\ connUp /\ connUp' = FALSE
  /\ UNCHANGED <<sessVars, callVars, readVars, rhpc, nfput, hdlVars, clpc, rdVars,
                 wireIn, wireOut, replied, sentIn, repliesOut, enteredAtClose>>

-----------------------------------------------------------------------------
(* Read loop (startReadAndHandle)                                          *)

\* The reader leaves its loop: deferred readDisconnected runs status := getStatus()
\* before the first hold point.  -> rd.loaded
ToExit == rpc' = "exit" /\ rdpc' = "loaded" /\ rdSeen' = status

\* The socket reads through a buffered reader: one read from the connection takes every byte that has
\* arrived, so frames sent back-to-back sit in the buffer and can still be decoded after the socket
\* was closed locally.
CanRead == rbuf > 0 \/ sockClosed \/ wireIn # <<>> \/ ~connUp

RRecv ==        \* ReadMessage up to the reply lookup.  -> reply.found | read.frame
  /\ rpc = "next" /\ CanRead
  /\ IF rbuf = 0 /\ (sockClosed \/ wireIn = <<>>)
       THEN /\ rpc' = "frame" /\ rerr' = TRUE /\ rcur' = None /\ UNCHANGED <<wireIn, rbuf>>
       ELSE LET f == Head(wireIn) IN
            /\ wireIn' = Tail(wireIn) /\ rerr' = FALSE
            /\ rbuf' = (IF rbuf > 0 THEN rbuf - 1 ELSE Len(wireIn) - 1)
            /\ IF f[1] = "reply"
                 THEN IF f[2] \in pending
                        THEN rpc' = "found" /\ rcur' = f
                        ELSE rpc' = "frame" /\ rcur' = <<"replyNF", f[2], f[3]>>   \* "not found call cmd"
                 ELSE rpc' = "frame" /\ rcur' = f
  /\ UNCHANGED <<sessVars, callVars, rhpc, nfput, hdlVars, clpc, rdVars,
                 wireOut, connUp, replied, sentIn, repliesOut, enteredAtClose>>

RLock ==        \* bindReply: callCmd.mu.Lock(); [still in the table?]; inputMeta set.  -> reply.locked
  /\ rpc = "found" /\ mu[rcur[2]] = "free"
  /\ IF RecheckFix /\ rcur[2] \notin pending
       THEN \* completed while the reader waited for the lock: Unlock; treated like a reply that matches no call
            /\ rpc' = "frame" /\ rcur' = <<"replyNF", rcur[2], rcur[3]>> /\ rerr' = FALSE
            /\ UNCHANGED <<mu, hasReply>>
       ELSE /\ mu' = [mu EXCEPT ![rcur[2]] = "reader"] /\ hasReply' = [hasReply EXCEPT ![rcur[2]] = TRUE]
            /\ rpc' = "locked" /\ UNCHANGED <<rcur, rerr>>
  /\ UNCHANGED <<sessVars, cpc, pending, cstat, doneCnt, wgCall, rbuf, rhpc, nfput,
                 hdlVars, clpc, rdVars, netVars, enteredAtClose>>

RDecode ==      \* body decode, ReadMessage returns.  -> read.frame
  /\ rpc = "locked" /\ rpc' = "frame" /\ rerr' = (rcur[3] = "bad")
  /\ UNCHANGED <<sessVars, callVars, rcur, rbuf, rhpc, nfput, hdlVars, clpc, rdVars, netVars, enteredAtClose>>

\* the test after ReadMessage: (err != nil && codec == NilCodecID) || !goonRead()
EarlyReturn == rerr \/ ~GoonRead

RFrame ==       \* -> read.spawn | rd.loaded
  /\ rpc = "frame"
  /\ IF EarlyReturn
       THEN /\ ToExit
            /\ IF LeakFix /\ rcur[1] = "reply"
                 THEN /\ Complete(rcur[2], "err") /\ mu' = [mu EXCEPT ![rcur[2]] = "free"]   \* repaired code
                 ELSE UNCHANGED <<pending, cstat, doneCnt, wgCall, mu>>                     \* returns with cmd.mu held
            /\ UNCHANGED wgCtx
       ELSE /\ rpc' = "spawn" /\ wgCtx' = wgCtx + 1
            /\ UNCHANGED <<pending, cstat, doneCnt, wgCall, mu, rdpc, rdSeen>>
  /\ UNCHANGED <<sessVars, cpc, hasReply, rcur, rerr, rbuf, rhpc, nfput, hpc, hres, clpc, rdTodo, netVars, enteredAtClose>>

RSpawn ==       \* Go(handle); loop condition goonRead().  -> read.next | rd.loaded
  /\ rpc = "spawn"
  /\ IF GoonRead THEN rpc' = "next" /\ UNCHANGED <<rdpc, rdSeen>> ELSE ToExit
  /\ CASE rcur[1] = "reply"   -> rhpc' = [rhpc EXCEPT ![rcur[2]] = "spawned"] /\ UNCHANGED <<nfput, hpc>>
       [] rcur[1] = "replyNF" -> nfput' = nfput + 1 /\ UNCHANGED <<rhpc, hpc>>
       [] rcur[1] = "call"    -> hpc' = [hpc EXCEPT ![rcur[2]] = "spawned"] /\ UNCHANGED <<rhpc, nfput>>
  /\ UNCHANGED <<sessVars, callVars, rcur, rerr, rbuf, wgCtx, hres, clpc, rdTodo, netVars, enteredAtClose>>

-----------------------------------------------------------------------------
(* handleReply goroutine for call c                                        *)

RhDone(c) ==     \* status computed, about to complete.  -> cmd.done
  /\ rhpc[c] = "spawned" /\ rhpc' = [rhpc EXCEPT ![c] = "done"]
  /\ UNCHANGED <<sessVars, callVars, readVars, nfput, hdlVars, clpc, rdVars, netVars, enteredAtClose>>

RhComplete(c) == \* callCmd.done().  -> reply.done
  /\ rhpc[c] = "done" /\ rhpc' = [rhpc EXCEPT ![c] = "completed"]
  /\ Complete(c, "ok")
  /\ UNCHANGED <<sessVars, cpc, mu, hasReply, readVars, nfput, hdlVars, clpc, rdVars, netVars, enteredAtClose>>

RhUnlock(c) ==   \* callCmd.mu.Unlock().  -> ctx.put
  /\ rhpc[c] = "completed" /\ rhpc' = [rhpc EXCEPT ![c] = "put"]
  /\ mu' = [mu EXCEPT ![c] = "free"]
  /\ UNCHANGED <<sessVars, cpc, pending, hasReply, cstat, doneCnt, wgCall, readVars, nfput,
                 hdlVars, clpc, rdVars, netVars, enteredAtClose>>

RhPut(c) ==      \* putContext: graceCtxWaitGroup.Done()
  /\ rhpc[c] = "put" /\ rhpc' = [rhpc EXCEPT ![c] = "fin"] /\ wgCtx' = wgCtx - 1
  /\ UNCHANGED <<sessVars, callVars, readVars, nfput, hpc, hres, clpc, rdVars, netVars, enteredAtClose>>

NfPut ==         \* goroutine of a reply that matched no call: putContext only
  /\ nfput > 0 /\ nfput' = nfput - 1 /\ wgCtx' = wgCtx - 1
  /\ UNCHANGED <<sessVars, callVars, readVars, rhpc, hpc, hres, clpc, rdVars, netVars, enteredAtClose>>

-----------------------------------------------------------------------------
(* handleCall goroutine for inbound CALL h                                 *)

HEnter(h) ==     \* application handler entered.  -> h.enter
  /\ hpc[h] = "spawned" /\ hpc' = [hpc EXCEPT ![h] = "entered"]
  /\ UNCHANGED <<sessVars, callVars, readVars, rhpc, nfput, wgCtx, hres, clpc, rdVars, netVars, enteredAtClose>>

HCheck(h) ==     \* handler returns; writeReply -> write(): status test.  -> write.checked | ctx.put
  /\ hpc[h] = "entered"
  /\ IF status \in {"Ok", "ActiveClosing"}
       THEN hpc' = [hpc EXCEPT ![h] = "checked"] /\ UNCHANGED hres
       ELSE hpc' = [hpc EXCEPT ![h] = "put"] /\ hres' = [hres EXCEPT ![h] = "lost"]
  /\ UNCHANGED <<sessVars, callVars, readVars, rhpc, nfput, wgCtx, clpc, rdVars, netVars, enteredAtClose>>

HWrite(h) ==     \* writeLock; WriteMessage of the reply.  -> ctx.put
  /\ hpc[h] = "checked" /\ hpc' = [hpc EXCEPT ![h] = "put"]
  /\ IF ~sockClosed /\ connUp
       THEN hres' = [hres EXCEPT ![h] = "sent"] /\ repliesOut' = repliesOut \cup {h}
       ELSE hres' = [hres EXCEPT ![h] = "lost"] /\ UNCHANGED repliesOut
  /\ UNCHANGED <<sessVars, callVars, readVars, rhpc, nfput, wgCtx, clpc, rdVars,
                 wireIn, wireOut, connUp, replied, sentIn, enteredAtClose>>

HPut(h) ==       \* putContext: graceCtxWaitGroup.Done()
  /\ hpc[h] = "put" /\ hpc' = [hpc EXCEPT ![h] = "fin"] /\ wgCtx' = wgCtx - 1
  /\ UNCHANGED <<sessVars, callVars, readVars, rhpc, nfput, hres, clpc, rdVars, netVars, enteredAtClose>>

-----------------------------------------------------------------------------
(* Close() -> closeLocked()                                                *)

FirstClose == \A k \in Closers : clpc[k] = "idle"

ClCall(k) ==     \* the application calls Close()
  /\ clpc[k] = "idle" /\ clpc' = [clpc EXCEPT ![k] = "want"]
  /\ enteredAtClose' = IF FirstClose THEN {h \in Inb : hpc[h] \in {"entered"}} ELSE enteredAtClose
  /\ UNCHANGED <<sessVars, callVars, readVars, rhpc, nfput, hdlVars, rdVars, netVars>>

ClLock(k) ==     \* s.lock.Lock(); CAS Ok|Preparing -> ActiveClosing.  -> close.cas | return
  /\ clpc[k] = "want" /\ lock = "free"
  /\ IF status \in {"Ok", "Preparing"}
       THEN status' = "ActiveClosing" /\ clpc' = [clpc EXCEPT ![k] = "cas"] /\ lock' = k
       ELSE UNCHANGED status /\ clpc' = [clpc EXCEPT ![k] = "noopret"] /\ lock' = "free"
  /\ UNCHANGED <<indexed, notified, discHooks, sockClosed, callVars, readVars, rhpc, nfput,
                 hdlVars, rdVars, netVars, enteredAtClose>>

ClStep(k, from, to) == clpc[k] = from /\ clpc' = [clpc EXCEPT ![k] = to]

ClDelete(k) ==   \* sessHub.delete.  -> close.deleted
  /\ ClStep(k, "cas", "deleted") /\ indexed' = FALSE
  /\ UNCHANGED <<status, notified, discHooks, sockClosed, lock, callVars, readVars, rhpc, nfput,
                 hdlVars, rdVars, netVars, enteredAtClose>>

ClNotify(k) ==   \* notifyClosed.  -> close.notified
  /\ ClStep(k, "deleted", "notified") /\ notified' = TRUE
  /\ UNCHANGED <<status, indexed, discHooks, sockClosed, lock, callVars, readVars, rhpc, nfput,
                 hdlVars, rdVars, netVars, enteredAtClose>>

ClWaitCtx(k) ==  \* graceCtxWait.  -> close.waitedCtx
  /\ ClStep(k, "notified", "waitedCtx") /\ wgCtx = 0
  /\ UNCHANGED <<sessVars, callVars, readVars, rhpc, nfput, hdlVars, rdVars, netVars, enteredAtClose>>

ClWaitCalls(k) == \* graceCallCmdWaitGroup.Wait.  -> close.waitedCalls
  /\ ClStep(k, "waitedCtx", "waitedCalls") /\ wgCall = 0
  /\ UNCHANGED <<sessVars, callVars, readVars, rhpc, nfput, hdlVars, rdVars, netVars, enteredAtClose>>

ClClosed(k) ==   \* changeStatus(ActiveClosed).  -> close.closed
  /\ ClStep(k, "waitedCalls", "closed") /\ status' = "ActiveClosed"
  /\ UNCHANGED <<indexed, notified, discHooks, sockClosed, lock, callVars, readVars, rhpc, nfput,
                 hdlVars, rdVars, netVars, enteredAtClose>>

ClSock(k) ==     \* socket.Close.  -> close.sock
  /\ ClStep(k, "closed", "sock") /\ sockClosed' = TRUE
  /\ UNCHANGED <<status, indexed, notified, discHooks, lock, callVars, readVars, rhpc, nfput,
                 hdlVars, rdVars, netVars, enteredAtClose>>

ClHook(k) ==     \* postDisconnect.  -> close.hooked
  /\ ClStep(k, "sock", "hooked") /\ discHooks' = discHooks + 1
  /\ UNCHANGED <<status, indexed, notified, sockClosed, lock, callVars, readVars, rhpc, nfput,
                 hdlVars, rdVars, netVars, enteredAtClose>>

ClReturn(k) ==   \* return; s.lock.Unlock()
  /\ ClStep(k, "hooked", "returned") /\ lock' = "free"
  /\ UNCHANGED <<status, indexed, notified, discHooks, sockClosed, callVars, readVars, rhpc, nfput,
                 hdlVars, rdVars, netVars, enteredAtClose>>

-----------------------------------------------------------------------------
(* readDisconnected (deferred by the read loop, runs on the reader)        *)

RdStore ==       \* the switch on the loaded status.  -> (return) | rd.stored | rd.deleted
  /\ rdpc = "loaded"
  /\ IF rdSeen \in {"PassiveClosed", "ActiveClosed", "PassiveClosing"}
       THEN rdpc' = "end" /\ UNCHANGED <<status, indexed, rdSeen>>                       \* return
       ELSE IF rdSeen = "ActiveClosing"
              THEN rdpc' = "deleted" /\ indexed' = FALSE /\ UNCHANGED <<status, rdSeen>>  \* no store; sessHub.delete
              ELSE IF AtomicRD /\ status # rdSeen
                     THEN rdpc' = "loaded" /\ rdSeen' = status /\ UNCHANGED <<status, indexed>>  \* CAS failed: reload
                     ELSE rdpc' = "stored" /\ status' = "PassiveClosing" /\ UNCHANGED <<indexed, rdSeen>>
  /\ UNCHANGED <<notified, discHooks, sockClosed, lock, callVars, readVars, rhpc, nfput,
                 hdlVars, clpc, rdTodo, netVars, enteredAtClose>>

RdDelete ==      \* sessHub.delete.  -> rd.deleted
  /\ rdpc = "stored" /\ rdpc' = "deleted" /\ indexed' = FALSE
  /\ UNCHANGED <<status, notified, discHooks, sockClosed, lock, callVars, readVars, rhpc, nfput,
                 hdlVars, clpc, rdSeen, rdTodo, netVars, enteredAtClose>>

RdWait ==        \* graceCtxWait (after the pending calls were cancelled: a handler may be waiting for one of them).  -> rd.waited
  /\ rdpc = "cancelled" /\ wgCtx = 0 /\ rdpc' = "waited"
  /\ UNCHANGED <<sessVars, callVars, readVars, rhpc, nfput, hdlVars, clpc, rdSeen, rdTodo, netVars, enteredAtClose>>

RdRange ==       \* callCmdMap.Range starts: it visits the calls in the table now
  /\ rdpc = "deleted" /\ rdpc' = "cancel" /\ rdTodo' = pending
  /\ UNCHANGED <<sessVars, callVars, readVars, rhpc, nfput, hdlVars, clpc, rdSeen, netVars, enteredAtClose>>

RdCancelOne(c) == \* one Range iteration: Lock; if !hasReply && stat.OK cancel; Unlock
  /\ rdpc = "cancel" /\ c \in rdTodo /\ mu[c] = "free"
  /\ rdTodo' = rdTodo \ {c}
  /\ IF c \in pending /\ ~hasReply[c] /\ cstat[c] = "-"
       THEN Complete(c, "err") ELSE UNCHANGED <<pending, cstat, doneCnt, wgCall>>
  /\ UNCHANGED <<sessVars, cpc, mu, hasReply, readVars, rhpc, nfput, hdlVars, clpc, rdpc, rdSeen,
                 netVars, enteredAtClose>>

RdCancelEnd ==   \* -> rd.cancelled
  /\ rdpc = "cancel" /\ rdTodo = {}
  /\ rdpc' = "cancelled"
  /\ UNCHANGED <<sessVars, callVars, readVars, rhpc, nfput, hdlVars, clpc, rdSeen, rdTodo, netVars, enteredAtClose>>

RdSock ==        \* ActiveClosing seen: return; else socket.Close.  -> (return) | rd.sock
  /\ rdpc = "waited"
  /\ IF rdSeen = "ActiveClosing" THEN rdpc' = "end" /\ UNCHANGED sockClosed
                                 ELSE rdpc' = "sock" /\ sockClosed' = TRUE
  /\ UNCHANGED <<status, indexed, notified, discHooks, lock, callVars, readVars, rhpc, nfput,
                 hdlVars, clpc, rdSeen, rdTodo, netVars, enteredAtClose>>

RdClosed ==      \* changeStatus(PassiveClosed).  -> rd.closed
  /\ rdpc = "sock" /\ rdpc' = "closed" /\ status' = "PassiveClosed"
  /\ UNCHANGED <<indexed, notified, discHooks, sockClosed, lock, callVars, readVars, rhpc, nfput,
                 hdlVars, clpc, rdSeen, rdTodo, netVars, enteredAtClose>>

RdHook ==        \* notifyClosed; postDisconnect.  -> rd.hooked
  /\ rdpc = "closed" /\ rdpc' = "end" /\ notified' = TRUE /\ discHooks' = discHooks + 1
  /\ UNCHANGED <<status, indexed, sockClosed, lock, callVars, readVars, rhpc, nfput,
                 hdlVars, clpc, rdSeen, rdTodo, netVars, enteredAtClose>>

-----------------------------------------------------------------------------
Env == \/ \E c \in Calls, kd \in ReplyKinds : RemoteReply(c, kd)
       \/ \E h \in Inb : RemoteCall(h)
       \/ ConnDown
App == (\E c \in Calls : CSeq(c)) \/ (\E k \in Closers : ClCall(k))
Fw  == \/ \E c \in Calls : \/ CStore(c) \/ CCheck(c) \/ CWrite(c) \/ CFail(c) \/ CReturn(c)
                           \/ RhDone(c) \/ RhComplete(c) \/ RhUnlock(c) \/ RhPut(c) \/ RdCancelOne(c)
       \/ \E h \in Inb : HEnter(h) \/ HCheck(h) \/ HWrite(h) \/ HPut(h)
       \/ \E k \in Closers : \/ ClLock(k) \/ ClDelete(k) \/ ClNotify(k) \/ ClWaitCtx(k) \/ ClWaitCalls(k)
                             \/ ClClosed(k) \/ ClSock(k) \/ ClHook(k) \/ ClReturn(k)
       \/ RRecv \/ RLock \/ RDecode \/ RFrame \/ RSpawn \/ NfPut
       \/ RdStore \/ RdDelete \/ RdWait \/ RdRange \/ RdCancelEnd \/ RdSock \/ RdClosed \/ RdHook
Next == Env \/ App \/ Fw
Spec == Init /\ [][Next]_vars /\ WF_vars(Fw)

-----------------------------------------------------------------------------
(* Layer P properties, stated on the model                                 *)

TypeOK ==
  /\ status \in {"Preparing", "Ok", "ActiveClosing", "ActiveClosed", "PassiveClosing", "PassiveClosed"}
  /\ wgCall \in 0..Cardinality(Calls) /\ wgCtx \in 0..(Cardinality(Calls) + Cardinality(Inb))
  /\ discHooks \in 0..3

\* C02: completion at most once
DoneAtMostOnce == \A c \in Calls : doneCnt[c] <= 1
\* C07: the disconnect hook runs at most once; closed states are never left
HookAtMostOnce == discHooks <= 1
ClosedStable   == [][(status \in Closed) => (status' \in Closed)]_vars
\* C07: status word only moves along the documented edges
StatusEdges    == [][status' # status =>
                      <<status, status'>> \in {<<"Ok", "ActiveClosing">>, <<"Preparing", "ActiveClosing">>,
                                               <<"ActiveClosing", "ActiveClosed">>,
                                               <<"Ok", "PassiveClosing">>, <<"PassiveClosing", "PassiveClosed">>}]_vars

Quiescent  == ~ENABLED Fw
Started(c) == cpc[c] # "idle"
\* C02: once the reply arrived, the connection is lost or the session is closed, the call is done
MustBeDone(c) == Started(c) /\ (c \in replied \/ ~connUp \/ status \in Closed)
NoHang == Quiescent => \A c \in Calls : MustBeDone(c) => doneCnt[c] = 1
\* a Close() that was called returns once nothing more can arrive
CloseReturns == Quiescent => \A k \in Closers :
                  clpc[k] # "idle" /\ (~connUp \/ \A c \in Calls : Started(c) => c \in replied) => clpc[k] \in {"returned", "noopret"}
\* C07: closed sessions are not indexed, have notified, ran the hook exactly once
ClosedClean == Quiescent /\ status \in Closed => ~indexed /\ notified /\ discHooks = 1
\* C07: at quiescence a dead connection leaves a closed session
DeadIsClosed == Quiescent /\ ~connUp => status \in Closed
\* C08: a handler entered before Close() gets its reply onto the wire unless the connection was lost,
\*      and Close() returns only after it finished
\*      (a read failure -- the reader left its loop -- counts as losing the connection)
GracefulReply == \A h \in enteredAtClose : hres[h] = "lost" => (~connUp \/ rpc = "exit")
CloseWaits    == \A k \in Closers : clpc[k] \in {"waitedCtx", "waitedCalls", "closed", "sock", "hooked", "returned"}
                    => \A h \in enteredAtClose : hpc[h] = "fin"
\* C07: once Close() has returned no new handler is entered
NoLateHandler == [][(\E k \in Closers : clpc[k] = "returned") =>
                     \A h \in Inb : hpc'[h] = "entered" => hpc[h] = "entered"]_vars
\* C08: outbound calls issued before Close complete with the reply if it arrived
ReplyWins == \A c \in Calls : (cstat[c] = "ok") => c \in replied

\* Coverage goals: TLC is asked to refute ~Goal, which yields a shortest behaviour reaching the situation;
\* the behaviour is replayed on the real code (strictly and free-running) like any other scenario.
AnyCl(pcs) == \E k \in Closers : clpc[k] \in pcs
Goal2(a, b) == /\ cpc[a] = "returned" /\ cpc[b] = "returned" /\ {a, b} \subseteq wireOut
               /\ AnyCl({"waitedCtx"}) /\ cstat[a] = "ok" /\ rhpc[a] = "fin" /\ doneCnt[b] = 0 /\ connUp
GoalTwoCallsCloseOneReply == \E a, b \in Calls : a # b /\ Goal2(a, b)
GoalTwoHandlersCloseOneDone == \E a, b \in Inb : a # b /\ hpc[a] = "fin" /\ hpc[b] = "entered"
                                  /\ {a, b} \subseteq enteredAtClose /\ AnyCl({"notified"}) /\ connUp
GoalCloseThenConnDown == \E c \in Calls : cpc[c] = "returned" /\ c \in wireOut /\ cstat[c] = "err" /\ ~connUp
                            /\ AnyCl({"returned"}) /\ status = "ActiveClosed"
GoalReplyDuringClose == \E c \in Calls : cstat[c] = "ok" /\ AnyCl({"returned"}) /\ status = "ActiveClosed"
                           /\ rhpc[c] = "fin" /\ connUp
GoalHandlerReplyDuringClose == \E h \in Inb : h \in enteredAtClose /\ hres[h] = "sent" /\ AnyCl({"returned"}) /\ connUp
GoalInboundWhileClosing == \E h \in Inb, c \in Calls : h \notin enteredAtClose /\ hres[h] = "sent" /\ AnyCl({"waitedCtx"})
                              /\ doneCnt[c] = 0 /\ c \in wireOut /\ connUp
GoalConnDownTwoPending == Cardinality(pending) = 0 /\ status = "PassiveClosed" /\ rdpc = "end"
                             /\ \A c \in Calls : cstat[c] = "err" /\ c \in wireOut
GoalBadReplyOtherPending == \E a, b \in Calls : a # b /\ a \in replied /\ rerr /\ rdpc = "end" /\ status = "PassiveClosed"
                               /\ cstat[b] = "err" /\ b \in wireOut
GoalBufferedFrameAfterClose == rpc = "frame" /\ ~rerr /\ rcur[1] = "call" /\ status = "ActiveClosed" /\ sockClosed
NotGoal(g) == ~g

\* liveness (checked under WF on Fw, small constants, no state constraint)
EventuallyDone == \A c \in Calls : (Started(c) /\ (c \in replied \/ ~connUp)) ~> (doneCnt[c] = 1)
=============================================================================
