SPECIFICATION Spec
CONSTANTS
  Calls = {c1, c2}
  MaxGen = 2
  Retries = 1
  MaxCuts = 2
  WithClose = TRUE
  MayReject = TRUE
  MayDown = TRUE
  FixCloseLock = TRUE
  FixLostClose = TRUE
  FixStaleEnd = TRUE
  FixStaleReader = TRUE
  FixLateCancel = FALSE
INVARIANT NoHangG
CHECK_DEADLOCK FALSE
