SPECIFICATION Spec
CONSTANTS
  ReplyDecodeFix = TRUE
  Export = ""
  Kinds = {"call", "push", "badtype"}
  Routes = {"reg", "unreg", "unknown"}
  Houts = {"ok", "status", "panic", "unpackable"}
INVARIANTS BadTypeDisconnects AtMostOneHandler OneReply HookOnce VetoStops CallerVetoStops OKIff Scoped
CHECK_DEADLOCK FALSE
