SPECIFICATION Spec
CONSTANTS
  ReplyDecodeFix = TRUE
  Export = ""
  Kinds = {"call", "push"}
  Routes = {"reg", "unreg", "unknown"}
  Houts = {"ok", "status", "panic", "unpackable"}
INVARIANTS AtMostOneHandler OneReply HookOnce VetoStops CallerVetoStops OKIff Scoped
CHECK_DEADLOCK FALSE
