SPECIFICATION Spec
POSTCONDITION Accepted
CHECK_DEADLOCK FALSE
