------------------------------- MODULE Accept -------------------------------
(***************************************************************************)
(* Layer M for the accept phase with the auth checker (C16): a connection  *)
(* is served (peer.ServeConn, or the accept loop behind ListenAndServe --  *)
(* cfg.path): status Preparing, the PostAccept hooks run                   *)
(* in order -- an optional other hook, the checker (which reads exactly    *)
(* one frame with PreReceive and answers with an AUTH_REPLY), an optional  *)
(* other hook --; only if all succeed the session becomes Ok, is indexed   *)
(* and its reader starts handling the frames the client pipelined behind   *)
(* its first one.  Otherwise the session is closed.                        *)
(* cfg fixes what the client sends first, what it pipelines, when it sends *)
(* (everything at once, or the rest only after the auth reply), and the    *)
(* placement and verdict of the other hook.                                *)
(***************************************************************************)
EXTENDS Naturals, Sequences, FiniteSets, TLC, Json, IOUtils
CONSTANTS Export

\* "authpanic": a token that makes the checker function panic; "authsetidbad": a bad token for which the checker first
\* assigns the session id (Session.SetID is exposed to the checker) and then rejects
Firsts == {"authgood", "authbad", "authundecodable", "authstatus", "call", "push", "reply", "type9", "garbage", "truncated", "silence",
           "authpanic", "authsetidbad", "authsetidgood", "authgoodbytes", "authbadbytes"}
\* "auth...bytes": the token travels as raw bytes and the checker receives it into a []byte.
\* neighbour = "good": while this connection's checker sits between receiving the token and comparing it, ANOTHER
\* connection of the process (to another peer) authenticates with a valid token of the same length.  The model gives the
\* neighbour no influence whatsoever: the verdict depends on what THIS client sent.
GoodFirsts == {"authgood", "authsetidgood", "authgoodbytes"}
\* timing = "split": the client delivers its first frame in two pieces and pauses after the first one (watching for any
\* response); cut says where the frame is cut: inside the 4-byte size prefix, inside the frame header, right after the header
\* (before the body), in the middle of the credential / body (for byte tokens: after the public part of the credential, the
\* secret part still unsent).  The checker's PreReceive cannot return before the whole frame has arrived (variable sent).
\* neighbour = "before": ANOTHER connection of the process (to another peer) authenticated just before with a valid byte
\* token of the same length (whatever it left behind in the process -- pooled receive buffers -- is a VALID credential).
SplitFirsts == Firsts \ {"garbage", "truncated", "silence"}
Cfgs == [first : Firsts, pipe : {"none", "call", "push", "callpush"}, timing : {"atonce", "stepwise", "split"},
         hookpos : {"none", "before", "after"}, hookverdict : {"ok", "reject"}, path : {"serveconn", "listen"},
         neighbour : {"none", "good", "before"}, cut : {"none", "insize", "inhdr", "afterhdr", "midcred"}]
CfgOK(c) == (c.hookpos = "none" => c.hookverdict = "ok") /\ (c.neighbour = "good" => c.first \in {"authgoodbytes", "authbadbytes"})
            /\ (c.timing = "split" <=> c.cut # "none")
            /\ (c.timing = "split" => c.first \in SplitFirsts /\ c.pipe \in {"none", "call"} /\ c.neighbour # "good")
            /\ (c.neighbour = "before" => c.timing = "split" /\ c.first \in {"authgoodbytes", "authbadbytes"})

VARIABLES cfg, pc, status, exchanged, authok, indexed, reader, handled, closed, replies, sent
vars == <<cfg, pc, status, exchanged, authok, indexed, reader, handled, closed, replies, sent>>

Init == /\ cfg \in {c \in Cfgs : CfgOK(c)} /\ pc = "hook1" /\ status = "Preparing" /\ exchanged = 0 /\ authok = FALSE
        /\ indexed = FALSE /\ reader = FALSE /\ handled = 0 /\ closed = FALSE /\ replies = <<>>
        /\ sent = (IF cfg.timing = "split" THEN "part" ELSE "all")     \* how much of its first frame the client has delivered

Reject == pc' = "end" /\ status' = "ActiveClosed" /\ closed' = TRUE     \* sess.Close() on a Preparing session
Hook1 ==  \* the other accept hook, when it is registered before the checker
  /\ pc = "hook1"
  /\ IF cfg.hookpos = "before" /\ cfg.hookverdict = "reject"
       THEN Reject /\ UNCHANGED <<cfg, exchanged, authok, indexed, reader, handled, replies, sent>>
       ELSE pc' = "checker" /\ UNCHANGED <<cfg, status, exchanged, authok, indexed, reader, handled, closed, replies, sent>>
SendRest == \* the client delivers the rest of its first frame while the checker waits in PreReceive
  /\ pc = "checker" /\ sent = "part" /\ sent' = "all"
  /\ UNCHANGED <<cfg, pc, status, exchanged, authok, indexed, reader, handled, closed, replies>>
Checker == \* PreReceive of exactly one frame, verdict, AUTH_REPLY
  /\ pc = "checker" /\ exchanged' = exchanged + 1
  /\ sent = "all"                                                     \* a frame is received whole or not at all
  /\ authok' = (cfg.first \in GoodFirsts)
  /\ replies' = IF cfg.first \in {"garbage", "truncated", "silence"} THEN replies      \* nothing decodable arrived: the reply may not even be writable
                ELSE Append(replies, IF cfg.first \in GoodFirsts THEN "authreply-ok" ELSE "authreply-err")
  /\ IF cfg.first \in GoodFirsts
       THEN pc' = "hook2" /\ UNCHANGED <<status, closed>>
       ELSE Reject
  /\ UNCHANGED <<cfg, indexed, reader, handled, sent>>
Hook2 ==  \* the other accept hook, when it is registered after the checker
  /\ pc = "hook2"
  /\ IF cfg.hookpos = "after" /\ cfg.hookverdict = "reject"
       THEN Reject /\ UNCHANGED <<cfg, exchanged, authok, indexed, reader, handled, replies, sent>>
       ELSE pc' = "serve" /\ UNCHANGED <<cfg, status, exchanged, authok, indexed, reader, handled, closed, replies, sent>>
\* the three steps that put an accepted session into service, in the order of the code path taken:
\* ServeConn: status Ok, index, reader goroutine (since fix 770e573; before it: Ok, reader, index);
\* accept loop: index, status Ok, reader (in the accepting goroutine)
Order == IF cfg.path = "listen" THEN <<"index", "ok", "reader">> ELSE <<"ok", "index", "reader">>
Serve ==
  /\ pc \in {"serve", "serve2", "serve3"}
  /\ LET k == CASE pc = "serve" -> 1 [] pc = "serve2" -> 2 [] OTHER -> 3
         what == Order[k]
     IN /\ status' = (IF what = "ok" THEN "Ok" ELSE status)
        /\ reader' = (reader \/ what = "reader")
        /\ indexed' = (indexed \/ what = "index")
        /\ pc' = (CASE k = 1 -> "serve2" [] k = 2 -> "serve3" [] OTHER -> "handle")
  /\ UNCHANGED <<cfg, exchanged, authok, handled, closed, replies, sent>>
NPipe == CASE cfg.pipe = "none" -> 0 [] cfg.pipe = "callpush" -> 2 [] OTHER -> 1
Handle == \* the reader handles the pipelined frames
  /\ reader /\ pc \in {"serve3", "handle"} /\ handled < NPipe /\ handled' = handled + 1
  /\ replies' = IF cfg.pipe = "call" \/ (cfg.pipe = "callpush" /\ handled = 0) THEN Append(replies, "reply") ELSE replies
  /\ UNCHANGED <<cfg, pc, status, exchanged, authok, indexed, reader, closed, sent>>
Finish == pc = "handle" /\ handled = NPipe /\ pc' = "end" /\ UNCHANGED <<cfg, status, exchanged, authok, indexed, reader, handled, closed, replies, sent>>
Next == Hook1 \/ SendRest \/ Checker \/ Hook2 \/ Serve \/ Handle \/ Finish
Spec == Init /\ [][Next]_vars

\* C16 on the model
NoHandlerWithoutAuth == handled > 0 => authok
NoReaderWithoutAuth  == reader => authok
NotListedWithoutAuth == indexed => authok
ExchangeOnce         == exchanged <= 1
NoVerdictBeforeFrame == (exchanged > 0 \/ handled > 0 \/ replies # <<>>) => sent = "all"
RejectedIsClosed     == pc = "end" /\ ~(authok /\ status = "Ok") => closed /\ ~indexed

Established(c) == c.first = "authgood" /\ ~(c.hookverdict = "reject")
Emit == Export = "" \/ pc' # "end" \/
  Serialize(ToJson([path |-> cfg.path, neighbour |-> cfg.neighbour, cut |-> cfg.cut, first |-> cfg.first, pipe |-> cfg.pipe, timing |-> cfg.timing, hookpos |-> cfg.hookpos, hookverdict |-> cfg.hookverdict,
                    established |-> (status' = "Ok"), handled |-> handled', exchanged |-> exchanged', replies |-> replies']) \o "\n", Export,
            [format |-> "TXT", charset |-> "UTF-8", openOptions |-> <<"WRITE", "CREATE", "APPEND">>]).exitValue = 0
=============================================================================
