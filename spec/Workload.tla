------------------------------ MODULE Workload ------------------------------
(***************************************************************************)
(* Configuration space of the correlation workloads (C01): wire protocol x *)
(* body codec x transfer-filter pipe, restricted by the capability matrix  *)
(* taken from each protocol's documentation, crossed with load profiles    *)
(* (sessions, goroutines per session, body size class, handler hold).      *)
(* TLC enumerates the space (one initial state per cell) and exports it.   *)
(***************************************************************************)
EXTENDS Naturals, Sequences, FiniteSets, TLC, Json, IOUtils
CONSTANTS Export

Protos == {"raw", "json", "pb", "thriftbin", "thriftstruct", "wsjson", "wspb"}
Codecs == {"j", "x", "f", "s", "p", "t", "b"}     \* json, xml, form, plain, protobuf, thrift; "b": raw byte bodies (argument and result are byte slices)
Pipes  == {"", "g", "m", "gm", "mg"}         \* gzip / md5 filters, outermost first
\* the JSON protocol carries the body as a JSON string: text codecs only;
\* the thrift struct protocol carries a thrift struct in place: thrift codec only, no filter pipe
\* "wsjson" / "wspb": the websocket mixer end to end (http upgrade over loopback TCP, websocket frames, the json /
\* protobuf sub-protocol); the json sub-protocol is a text protocol and does not carry filtered (binary) bodies
Capable(p, c) == /\ (p \in {"json", "wsjson"} => c \notin {"p", "t"})
                 /\ (p = "wspb" => c # "t")
                 /\ (p = "thriftstruct" => c = "t")
                 /\ (c = "b" => p \in {"raw", "pb"})
PipeOK(p, pp) == /\ (p \in {"thriftstruct", "wsjson"} => pp = "")
                 /\ (p = "wspb" => pp \in {"", "g"})
Profiles == { [sessions |-> 1, gor |-> 1,  size |-> 0,     hold |-> 0, barrier |-> FALSE, mixed |-> FALSE, secure |-> FALSE, observe |-> FALSE],
              [sessions |-> 2, gor |-> 4,  size |-> 255,   hold |-> 3, barrier |-> FALSE, mixed |-> FALSE, secure |-> FALSE, observe |-> FALSE],
              [sessions |-> 1, gor |-> 16, size |-> 4096,  hold |-> 3, barrier |-> FALSE, mixed |-> FALSE, secure |-> FALSE, observe |-> FALSE],
              [sessions |-> 3, gor |-> 4,  size |-> 70000, hold |-> 0, barrier |-> FALSE, mixed |-> FALSE, secure |-> FALSE, observe |-> FALSE],
              [sessions |-> 2, gor |-> 4,  size |-> 256,   hold |-> 3, barrier |-> FALSE, mixed |-> FALSE, secure |-> FALSE, observe |-> FALSE],
              [sessions |-> 1, gor |-> 4,  size |-> 1,     hold |-> 3, barrier |-> FALSE, mixed |-> FALSE, secure |-> FALSE, observe |-> FALSE],
              \* all goroutines of the session issue their next operation at the same instant (released from a barrier)
              [sessions |-> 1, gor |-> 32, size |-> 16,    hold |-> 0, barrier |-> TRUE, mixed |-> FALSE, secure |-> FALSE, observe |-> FALSE],
              \* mixed outcomes: among the concurrent calls some handlers return a status of their own and some routes do not exist
              [sessions |-> 2, gor |-> 8,  size |-> 64,    hold |-> 1, barrier |-> FALSE, mixed |-> TRUE, secure |-> FALSE, observe |-> FALSE],
              \* both peers carry the shipped secure plugin and an accept hook that leaves an entry in the swap of every session;
              \* every message is marked secure (the plugin keeps per-message state in the message's own swap between two hooks)
              [sessions |-> 1, gor |-> 8,  size |-> 64,    hold |-> 1, barrier |-> FALSE, mixed |-> FALSE, secure |-> TRUE, observe |-> FALSE],
              \* both peers carry an observing plugin (metrics / tracing style): its PreWrite* / PostWrite* hooks READ everything the
              \* WriteCtx they are given documents as readable (Status, StatusOK, the fields of Output, Swap, session id) and change
              \* nothing, while the replies to the calls being launched arrive; overlapping calls of several goroutines per session
              [sessions |-> 2, gor |-> 8,  size |-> 64,    hold |-> 0, barrier |-> FALSE, mixed |-> FALSE, secure |-> FALSE, observe |-> TRUE] }
\* the websocket protobuf sub-protocol cannot carry a status (known finding of C05): no failing calls over it
MixedOK(p, prof) == prof.mixed => p # "wspb"
SecureOK(c) == c.prof.secure => c.proto \in {"raw", "pb"} /\ c.codec \in {"j", "p"} /\ c.pipe \in {"", "g"}
Cells == {c \in [proto : Protos, codec : Codecs, pipe : Pipes, prof : Profiles] : Capable(c.proto, c.codec) /\ PipeOK(c.proto, c.pipe) /\ MixedOK(c.proto, c.prof) /\ SecureOK(c)}

VARIABLES cell, done
vars == <<cell, done>>
Init == cell \in Cells /\ done = FALSE
Run == ~done /\ done' = TRUE /\ UNCHANGED cell
Spec == Init /\ [][Run]_vars
\* every cell respects the capability matrix
CapOK == Capable(cell.proto, cell.codec) /\ PipeOK(cell.proto, cell.pipe)
Emit == Export = "" \/
        Serialize(ToJson([proto |-> cell.proto, codec |-> cell.codec, pipe |-> cell.pipe, sessions |-> cell.prof.sessions,
                          gor |-> cell.prof.gor, size |-> cell.prof.size, hold |-> cell.prof.hold, barrier |-> cell.prof.barrier, mixed |-> cell.prof.mixed, secure |-> cell.prof.secure, observe |-> cell.prof.observe]) \o "\n", Export,
                  [format |-> "TXT", charset |-> "UTF-8", openOptions |-> <<"WRITE", "CREATE", "APPEND">>]).exitValue = 0
=============================================================================
