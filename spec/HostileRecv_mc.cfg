SPECIFICATION Spec
CONSTANTS
  Limit = 4096
INVARIANT BoundedAlloc
PROPERTY NoWedge
CHECK_DEADLOCK FALSE
