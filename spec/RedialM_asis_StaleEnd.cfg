SPECIFICATION Spec
CONSTANTS
  Calls = {c1}
  MaxGen = 2
  Retries = 1
  MaxCuts = 2
  WithClose = TRUE
  MayReject = TRUE
  MayDown = TRUE
  FixCloseLock = TRUE
  FixLostClose = TRUE
  FixStaleEnd = FALSE
  FixStaleReader = TRUE
  FixLateCancel = TRUE
INVARIANT AliveOrEndedG
CHECK_DEADLOCK FALSE
