-------------------------------- MODULE Hub --------------------------------
(***************************************************************************)
(* Layer M: the peer's session index (SessionHub) under histories of API   *)
(* operations on up to |S| sessions and |U| user-chosen ids.               *)
(* Each operation is modelled by the statements of peer.go / session.go    *)
(* that touch the index: SessionHub.set (LoadOrStore, Store, old.Close()), *)
(* session.SetID (socket.SetID, hub.set, hub.delete(oldID)), closeLocked   *)
(* and readDisconnected (hub.delete(s.ID())).                              *)
(* GuardedDelete = TRUE: closeLocked/readDisconnected remove the entry     *)
(* only if it still is this session (repaired code); FALSE: they delete    *)
(* whatever is stored under the session's id (pinned commit).              *)
(***************************************************************************)
EXTENDS Naturals, Sequences, FiniteSets, TLC, Json, IOUtils
CONSTANTS S, U, MaxOps, GuardedDelete, Export

None == "none"
Def(s) == "addr-" \o s            \* default id: the connection's remote address (unique per connection)
Ids == U \cup {Def(s) : s \in S}

VARIABLES hub, sid, st, n, hist
vars == <<hub, sid, st, n, hist>>
view == <<hub, sid, st, n>>

Init == /\ hub = [i \in Ids |-> None] /\ sid = [s \in S |-> Def(s)]
        /\ st = [s \in S |-> "new"] /\ n = 0 /\ hist = <<>>

\* index part of closeLocked / readDisconnected of session t whose current id is id
Del(h, t, id) == IF ~GuardedDelete \/ h[id] = t THEN [h EXCEPT ![id] = None] ELSE h

\* SessionHub.set(s) where s's current id is id: <<hub', st'>>
SetIn(h, stt, s, id) ==
  IF h[id] = None \/ h[id] = s THEN <<[h EXCEPT ![id] = s], stt>>
  ELSE LET old == h[id]
           h1  == [h EXCEPT ![id] = s]
       IN  IF stt[old] = "live"
             THEN <<Del(h1, old, id), [stt EXCEPT ![old] = "closed"]>>   \* old.Close(): delete(old.ID())
             ELSE <<h1, stt>>

Index(h) == {<<i, h[i]>> : i \in {j \in Ids : h[j] # None}}
Rec(op, s, u) == /\ n < MaxOps /\ n' = n + 1
                 /\ hist' = Append(hist, [op |-> op, s |-> s, u |-> u,
                                         index |-> Index(hub'), live |-> {t \in S : st'[t] = "live"}])

Accept(s) == /\ st[s] = "new"
             /\ LET r == SetIn(hub, [st EXCEPT ![s] = "live"], s, sid[s]) IN hub' = r[1] /\ st' = r[2]
             /\ UNCHANGED sid /\ Rec("accept", s, "")
SetID(s, u) == /\ st[s] = "live" /\ sid[s] # u
               /\ LET old == sid[s]
                      r   == SetIn(hub, st, s, u)
                  IN  hub' = [r[1] EXCEPT ![old] = None] /\ st' = r[2]       \* hub.set(s); hub.delete(oldID)
               /\ sid' = [sid EXCEPT ![s] = u] /\ Rec("setid", s, u)
Close(s) == /\ st[s] = "live"
            /\ hub' = Del(hub, s, sid[s]) /\ st' = [st EXCEPT ![s] = "closed"] /\ UNCHANGED sid /\ Rec("close", s, "")
Disc(s) ==  /\ st[s] = "live"
            /\ hub' = Del(hub, s, sid[s]) /\ st' = [st EXCEPT ![s] = "closed"] /\ UNCHANGED sid /\ Rec("disc", s, "")

Next == \E s \in S : Accept(s) \/ Close(s) \/ Disc(s) \/ \E u \in U : SetID(s, u)
Spec == Init /\ [][Next]_vars

\* C07: the index contains exactly the live sessions, each under its current id
IndexExact == \A i \in Ids : \A s \in S : (hub[i] = s) <=> (st[s] = "live" /\ sid[s] = i)
\* a session that was closed is never live again
ClosedStays == [][\A s \in S : st[s] = "closed" => st'[s] = "closed"]_vars

\* scenario export: one JSON line per explored transition (history hidden by the VIEW)
Emit == Export = "" \/
        Serialize(ToJson([steps |-> hist']) \o "\n", Export,
                  [format |-> "TXT", charset |-> "UTF-8", openOptions |-> <<"WRITE", "CREATE", "APPEND">>]).exitValue = 0
=============================================================================
