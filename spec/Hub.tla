-------------------------------- MODULE Hub --------------------------------
(***************************************************************************)
(* Layer M: the peer's session index (SessionHub) under histories of API   *)
(* operations on up to |S| sessions and |U| user-chosen ids.               *)
(* Each operation is modelled by the statements of peer.go / session.go    *)
(* that touch the index: SessionHub.set (LoadOrStore, Store, old.Close()), *)
(* session.SetID (socket.SetID, hub.set, hub.delete(oldID)), closeLocked   *)
(* and readDisconnected (hub.delete(s.ID())).                              *)
(* GuardedDelete = TRUE: closeLocked/readDisconnected remove the entry     *)
(* only if it still is this session (repaired code); FALSE: they delete    *)
(* whatever is stored under the session's id (pinned commit).              *)
(***************************************************************************)
EXTENDS Naturals, Sequences, FiniteSets, TLC, Json, IOUtils
CONSTANTS S, U, MaxOps, GuardedDelete, Export

None == "none"
Def(s) == "addr-" \o s            \* default id: the connection's remote address (unique per connection)
Ids == U \cup {Def(s) : s \in S}

VARIABLES hub, sid, st, n, hist,
          busy,    \* a handler of the session is running (entered, not yet returned)
          pend     \* SetID blocked in hub.set -> old.Close(): the id still to delete when it returns
vars == <<hub, sid, st, n, hist, busy, pend>>
view == <<hub, sid, st, n, busy, pend>>

Init == /\ hub = [i \in Ids |-> None] /\ sid = [s \in S |-> Def(s)]
        /\ st = [s \in S |-> "new"] /\ n = 0 /\ hist = <<>>
        /\ busy = [s \in S |-> FALSE] /\ pend = [s \in S |-> None]

\* index part of closeLocked / readDisconnected of session t whose current id is id
Del(h, t, id) == IF ~GuardedDelete \/ h[id] = t THEN [h EXCEPT ![id] = None] ELSE h

\* Close()/readDisconnected of a session with a running handler block in the handler wait:
\* the session is "closing" (index entry already removed) until the handler returns.
EndState(t) == IF busy[t] THEN "closing" ELSE "closed"

\* SessionHub.set(s) where s's current id is id: <<hub', st', blocked?>>
SetIn(h, stt, s, id) ==
  IF h[id] = None \/ h[id] = s THEN <<[h EXCEPT ![id] = s], stt, FALSE>>
  ELSE LET old == h[id]
           h1  == [h EXCEPT ![id] = s]
       IN  IF stt[old] = "live"
             THEN <<Del(h1, old, id), [stt EXCEPT ![old] = EndState(old)], busy[old]>>   \* old.Close(): delete(old.ID())
             ELSE <<h1, stt, FALSE>>

Index(h) == {<<i, h[i]>> : i \in {j \in Ids : h[j] # None}}
Quiet(stt, pnd) == (\A t \in S : stt[t] # "closing") /\ (\A t \in S : pnd[t] = None)
Rec(op, s, u) == /\ n < MaxOps /\ n' = n + 1
                 /\ hist' = Append(hist, [op |-> op, s |-> s, u |-> u, quiet |-> Quiet(st', pend'),
                                         index |-> Index(hub'), live |-> {t \in S : st'[t] = "live"}])

Accept(s) == /\ st[s] = "new"
             /\ LET r == SetIn(hub, [st EXCEPT ![s] = "live"], s, sid[s]) IN hub' = r[1] /\ st' = r[2]
             /\ UNCHANGED <<sid, busy, pend>> /\ Rec("accept", s, "")
SetID(s, u) == /\ st[s] = "live" /\ sid[s] # u /\ pend[s] = None
               /\ LET old == sid[s]
                      r   == SetIn(hub, st, s, u)
                  IN  /\ st' = r[2]
                      /\ IF r[3]   \* blocked in old.Close() until the old session's handler returns
                           THEN (hub' = r[1] /\ pend' = [pend EXCEPT ![s] = old])
                           ELSE (hub' = [r[1] EXCEPT ![old] = None] /\ pend' = pend)     \* hub.set(s); hub.delete(oldID)
               /\ sid' = [sid EXCEPT ![s] = u] /\ UNCHANGED busy /\ Rec("setid", s, u)
Close(s) == /\ st[s] = "live" /\ pend[s] = None
            /\ hub' = Del(hub, s, sid[s]) /\ st' = [st EXCEPT ![s] = EndState(s)] /\ UNCHANGED <<sid, busy, pend>> /\ Rec("close", s, "")
Disc(s) ==  /\ st[s] \in {"live", "closing"}
            /\ hub' = Del(hub, s, sid[s])        \* readDisconnected: removes the entry (if it is still this session)
            /\ st' = [st EXCEPT ![s] = IF st[s] = "live" THEN EndState(s) ELSE "closing"]
            /\ UNCHANGED <<sid, busy, pend>> /\ Rec("disc", s, "")
StartH(s) == /\ st[s] = "live" /\ ~busy[s] /\ pend[s] = None
             /\ busy' = [busy EXCEPT ![s] = TRUE] /\ UNCHANGED <<hub, sid, st, pend>> /\ Rec("starth", s, "")
EndH(s) ==  /\ busy[s]
            /\ busy' = [busy EXCEPT ![s] = FALSE]
            /\ st' = [st EXCEPT ![s] = IF st[s] = "closing" THEN "closed" ELSE st[s]]
               \* a SetID that was blocked on this session's Close() now finishes: hub.delete(oldID)
            /\ LET w == {t \in S : pend[t] # None /\ st[s] = "closing" /\ sid[t] = sid[s]} IN
               /\ hub' = [i \in Ids |-> IF \E t \in w : pend[t] = i THEN None ELSE hub[i]]
               /\ pend' = [t \in S |-> IF t \in w THEN None ELSE pend[t]]
            /\ UNCHANGED sid /\ Rec("endh", s, "")

Next == \E s \in S : Accept(s) \/ Close(s) \/ Disc(s) \/ StartH(s) \/ EndH(s) \/ \E u \in U : SetID(s, u)
Spec == Init /\ [][Next]_vars

\* C07: the index contains exactly the live sessions, each under its current id
IndexExact == Quiet(st, pend) => \A i \in Ids : \A s \in S : (hub[i] = s) <=> (st[s] = "live" /\ sid[s] = i)
\* a session that was closed is never live again
ClosedStays == [][\A s \in S : st[s] \in {"closed", "closing"} => st'[s] \in {"closed", "closing"}]_vars

\* scenario export: one JSON line per explored transition (history hidden by the VIEW)
Emit == Export = "" \/
        Serialize(ToJson([steps |-> hist']) \o "\n", Export,
                  [format |-> "TXT", charset |-> "UTF-8", openOptions |-> <<"WRITE", "CREATE", "APPEND">>]).exitValue = 0
=============================================================================
