--------------------------- MODULE OverloadAtomic ---------------------------
(* connLimiter.take / release at the granularity of their atomic operations, for Threads concurrent *)
(* connection attempts followed by a release of whatever was admitted: design-level check that the   *)
(* limit is never exceeded under any interleaving.                                                    *)
EXTENDS Naturals, Integers, FiniteSets, TLC
CONSTANTS Threads, Lim
VARIABLES tmp, now, pc, x, holding
vars == <<tmp, now, pc, x, holding>>
Init == tmp = 0 /\ now = 0 /\ pc = [t \in Threads |-> "add"] /\ x = [t \in Threads |-> 0] /\ holding = {}
Add(t)  == pc[t] = "add" /\ tmp' = tmp + 1 /\ x' = [x EXCEPT ![t] = tmp + 1] /\ pc' = [pc EXCEPT ![t] = "cmp"] /\ UNCHANGED <<now, holding>>
Cmp(t)  == pc[t] = "cmp" /\ pc' = [pc EXCEPT ![t] = IF x[t] <= Lim THEN "inc" ELSE "undo"] /\ UNCHANGED <<tmp, now, x, holding>>
Inc(t)  == pc[t] = "inc" /\ now' = now + 1 /\ holding' = holding \cup {t} /\ pc' = [pc EXCEPT ![t] = "held"] /\ UNCHANGED <<tmp, x>>
Undo(t) == pc[t] = "undo" /\ tmp' = tmp - 1 /\ pc' = [pc EXCEPT ![t] = "rejected"] /\ UNCHANGED <<now, x, holding>>
Rel1(t) == pc[t] = "held" /\ now' = now - 1 /\ pc' = [pc EXCEPT ![t] = "rel2"] /\ UNCHANGED <<tmp, x, holding>>
Rel2(t) == pc[t] = "rel2" /\ tmp' = tmp - 1 /\ holding' = holding \ {t} /\ pc' = [pc EXCEPT ![t] = "done"] /\ UNCHANGED <<now, x>>
Retry(t) == pc[t] \in {"rejected", "done"} /\ pc' = [pc EXCEPT ![t] = "add"] /\ UNCHANGED <<tmp, now, x, holding>>
Next == \E t \in Threads : Add(t) \/ Cmp(t) \/ Inc(t) \/ Undo(t) \/ Rel1(t) \/ Rel2(t) \/ Retry(t)
Spec == Init /\ [][Next]_vars
NeverOver == Cardinality(holding) <= Lim
Bounded == tmp <= Cardinality(Threads) /\ tmp >= 0 /\ now >= 0
=============================================================================
