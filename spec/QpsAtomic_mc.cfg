SPECIFICATION Spec
CONSTANTS
  Threads = {t1, t2, t3, t4}
  Cap = 2
  DecideOnLook = FALSE
INVARIANT NeverOver
CHECK_DEADLOCK FALSE
