SPECIFICATION Spec
CONSTANTS
  Export = ""
INVARIANT Sane
CHECK_DEADLOCK FALSE
