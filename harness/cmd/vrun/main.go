package main

import (
	"fmt"
	"os"

	"verifharness/vh"
)

func main() {
	vh.Quiet()
	if len(os.Args) < 2 {
		fmt.Fprintln(os.Stderr, "usage: vrun <driver> [flags]")
		os.Exit(2)
	}
	d, ok := vh.Drivers[os.Args[1]]
	if !ok {
		fmt.Fprintln(os.Stderr, "unknown driver", os.Args[1])
		os.Exit(2)
	}
	os.Exit(d(os.Args[2:]))
}
