package vh

import (
	"bufio"
	"context"
	"encoding/json"
	"flag"
	"fmt"
	"net"
	"os"
	"sync/atomic"
	"time"

	erpc "github.com/henrylee2cn/erpc/v6"
	"github.com/henrylee2cn/erpc/v6/socket"
)

func init() { Drivers["redialm"] = drvRedialM }

// RedialMScenario is one schedule family exported by spec/RedialSched.tla.
type RedialMScenario struct {
	ID       string   `json:"id"`
	Kind     string   `json:"kind"`
	Loss     string   `json:"loss"`
	Park     string   `json:"park"`
	WPark    string   `json:"wpark"`
	During   []string `json:"during"`
	After    string   `json:"after"`
	AlwaysUp bool     `json:"alwaysup"`
	Closed   bool     `json:"closed"`
}

type rmDisc struct {
	n    int32
	over int32
}

func (d *rmDisc) Name() string { return "verif-rm-disc" }
func (d *rmDisc) PostDisconnect(erpc.BaseSession) *erpc.Status {
	if atomic.LoadInt32(&d.over) == 0 {
		atomic.AddInt32(&d.n, 1)
	}
	return nil
}

func drvRedialM(args []string) int {
	fs := flag.NewFlagSet("redialm", flag.ExitOnError)
	in := fs.String("in", "", "scenario file (ndjson)")
	out := fs.String("out", "", "trace file (ndjson)")
	fs.Int64("seed", 1, "")
	fs.Parse(args)
	rec, err := NewRec(*out)
	if err != nil {
		fmt.Fprintln(os.Stderr, err)
		return 2
	}
	defer rec.Close()
	f, err := os.Open(*in)
	if err != nil {
		fmt.Fprintln(os.Stderr, err)
		return 2
	}
	defer f.Close()
	rd := bufio.NewReaderSize(f, 1<<20)
	g := NewGates(rec) // installs erpc.VerifPoint
	g.Record(os.Getenv("VERIF_RM_RECORD") != "")
	app := NewApp(rec, g)
	CurApp = app
	srv := erpc.NewPeer(erpc.PeerConfig{})
	srv.RouteCall(new(T))
	n := 0
	for {
		line, err := rd.ReadBytes('\n')
		if len(line) > 1 {
			var sc RedialMScenario
			if e := json.Unmarshal(line, &sc); e != nil {
				fmt.Fprintln(os.Stderr, "bad scenario:", e)
				return 2
			}
			n++
			fw, err := newForwarder(srv)
			if err != nil {
				fmt.Fprintln(os.Stderr, "forwarder:", err)
				return 2
			}
			if sc.Kind == "nestedcall" {
				runNestedCall(rec, app, fw, srv, &sc, n)
				fw.down()
				g.ReleaseAll()
				if err != nil {
					break
				}
				continue
			}
			runRedialM(rec, app, g, fw, &sc, n)
			fw.down()
			g.ReleaseAll()
		}
		if err != nil {
			break
		}
	}
	rec.Flush()
	return 0
}

// Nest is a CALL controller of the CLIENT side (route /nest/back): its handler calls the server back on its own session
// and waits for the reply, as a handler of a bidirectional application may.
type Nest struct{ erpc.CallCtx }

var nestRec *Rec
var nestDone chan struct{}

// Back is the handler: the nested call's argument tag is the one it was given.
func (n *Nest) Back(arg *Arg) (*Res, *erpc.Status) {
	res := new(Res)
	cmd := n.Session().Call(CallRoute, &Arg{Tag: arg.Tag}, res)
	nestRec.Emit("CallDone", "code", cmd.Status().Code(), "msg", cmd.Status().Msg(), "resok", res.Tag == F(arg.Tag), "tag", arg.Tag, "nested", true)
	close(nestDone)
	return &Res{Tag: F(arg.Tag)}, nil
}

// runNestedCall: the server calls a client handler, which calls the server back on the same session and waits; the
// connection is then lost.  The nested call is a call in flight at the moment of the loss: it must complete (with a
// connection error), not hang (C02).  No redial.
func runNestedCall(rec *Rec, app *App, fw *forwarder, srv erpc.Peer, sc *RedialMScenario, n int) {
	rec.SetTrace(sc.ID, map[string]interface{}{"mode": "redialm", "kind": sc.Kind, "alwaysup": true, "closed": true})
	fw.up()
	app.ClearBehav()
	nestRec, nestDone = rec, make(chan struct{})
	cli := erpc.NewPeer(erpc.PeerConfig{DialTimeout: 2 * time.Second})
	cli.RouteCall(new(Nest))
	sess, st := cli.Dial(fw.addr)
	if !st.OK() {
		rec.Emit("EnvFailure", "what", "dial: "+st.String())
		return
	}
	rec.Emit("DialDone", "ok", true)
	defer func() {
		done := make(chan struct{})
		go func() { cli.Close(); close(done) }()
		select {
		case <-done:
		case <-time.After(2 * time.Second):
		}
		fw.cut()
		rec.Flush()
	}()
	if cmd := sess.Call(CallRoute, &Arg{Tag: sc.ID + ".warm"}, new(Res)); !cmd.Status().OK() {
		rec.Emit("EnvFailure", "what", "warm-up call: "+cmd.Status().String())
		return
	}
	// the server's session for this connection
	var ss erpc.Session
	WaitUntil(time.Second, func() bool {
		srv.RangeSession(func(x erpc.Session) bool {
			if x.Health() {
				ss = x
			}
			return true
		})
		return ss != nil
	})
	if ss == nil {
		rec.Emit("EnvFailure", "what", "no serving session")
		return
	}
	tag := sc.ID + ".nested"
	hold := &Behav{Hold: make(chan struct{}), Entered: make(chan struct{})}
	app.SetBehav(tag, hold)
	defer releaseHold(hold)
	ss.AsyncCall("/nest/back", &Arg{Tag: tag}, new(Res), make(chan erpc.CallCmd, 1))
	select {
	case <-hold.Entered: // the nested call has reached the server's handler: it is in flight
	case <-time.After(3 * time.Second):
		rec.Emit("EnvFailure", "what", "the nested call never reached the server")
		return
	}
	fw.cut()
	select {
	case <-nestDone:
	case <-time.After(10 * time.Second):
		rec.Emit("CallHang", "tag", tag, "nested", true)
	}
}

// runEarlyReply: a hostile remote (a scripted raw peer) answers a call it has not received yet, while the caller is still
// inside AsyncCall (parked at call.stored) and the write of that call then fails (its context is already cancelled): the
// call completes with the write error, the reply must not complete it a second time, and a later Close() returns
// (Session.tla with EarlyReplies; the session redials or not according to sc.Loss = "redial" / "plain").
func runEarlyReply(rec *Rec, g *Gates, sc *RedialMScenario, n int) {
	rec.SetTrace(sc.ID, map[string]interface{}{"mode": "redialm", "kind": sc.Kind, "alwaysup": true, "closed": true})
	lis, err := LoopListen()
	if err != nil {
		rec.Emit("EnvFailure", "what", "listen: "+err.Error())
		return
	}
	defer lis.Close()
	srvConn := make(chan net.Conn, 4)
	go func() {
		for {
			c, err := lis.Accept()
			if err != nil {
				return
			}
			srvConn <- c
		}
	}()
	rt := int32(0)
	if sc.Loss == "redial" {
		rt = 1
	}
	cli := erpc.NewPeer(erpc.PeerConfig{RedialTimes: rt, RedialInterval: 3 * time.Millisecond, DialTimeout: 2 * time.Second})
	sess, st := cli.Dial(lis.Addr().String())
	if !st.OK() {
		rec.Emit("EnvFailure", "what", "dial: "+st.String())
		return
	}
	rec.Emit("DialDone", "ok", true)
	var raw socket.Socket
	select {
	case c := <-srvConn:
		raw = socket.NewSocket(c)
	case <-time.After(2 * time.Second):
		rec.Emit("EnvFailure", "what", "no connection accepted")
		return
	}
	sn := fmt.Sprintf("RM%d", n)
	g.SetNamer(func(s erpc.Session) string {
		if s == sess {
			return sn
		}
		return ""
	})
	g.Hold(sn + ":call.stored")
	ctx, cancel := context.WithCancel(context.Background())
	cancel()
	res := new(Res)
	done := make(chan erpc.CallCmd, 1)
	go func() { done <- sess.Call(CallRoute, &Arg{Tag: sc.ID}, res, erpc.WithContext(ctx)) }()
	if g.WaitParked(sn+":call.stored", 2*time.Second) {
		a, _, _ := g.ParkedArgs(sn + ":call.stored")
		m := socket.NewMessage()
		m.SetMtype(erpc.TypeReply)
		m.SetSeq(int32(a))
		m.SetBodyCodec('j')
		m.SetBody(&Res{Tag: "early"})
		raw.WriteMessage(m)
		WaitUntil(time.Second, func() bool { return g.Hits("reply.found") > 0 })
		time.Sleep(10 * time.Millisecond) // the reader now waits for the call lock
	}
	g.Unhold(sn + ":call.stored")
	g.Release(sn + ":call.stored")
	select {
	case cmd := <-done:
		// (a write error: not one of the connection errors; recorded for the reader of the trace only)
		rec.Emit("EarlyCallDone", "code", cmd.Status().Code(), "msg", cmd.Status().Msg())
	case <-time.After(10 * time.Second):
		rec.Emit("CallHang", "tag", sc.ID)
	}
	time.Sleep(20 * time.Millisecond)
	closeRet := make(chan struct{})
	go func() { sess.Close(); close(closeRet) }()
	select {
	case <-closeRet:
		rec.Emit("CloseRet")
	case <-time.After(10 * time.Second):
		rec.Emit("CloseHang")
	}
	raw.Close()
	go cli.Close()
}

func runRedialM(rec *Rec, app *App, g *Gates, fw *forwarder, sc *RedialMScenario, n int) {
	if sc.Kind == "earlyreply" {
		g.ResetHits()
		runEarlyReply(rec, g, sc, n)
		return
	}
	rec.SetTrace(sc.ID, map[string]interface{}{"mode": "redialm", "kind": sc.Kind, "alwaysup": sc.AlwaysUp, "closed": sc.Closed})
	fw.up()
	app.ClearBehav()
	g.ResetHits()
	hooks := &dialHooks{rec: rec}
	disc := &rmDisc{}
	cli := erpc.NewPeer(erpc.PeerConfig{RedialTimes: 1, RedialInterval: 3 * time.Millisecond, DialTimeout: 2 * time.Second}, hooks, disc)
	sess, st := cli.Dial(fw.addr)
	rec.Emit("DialDone", "ok", st.OK())
	if !st.OK() {
		rec.Emit("EnvFailure", "what", "dial: "+st.String())
		return
	}
	sn := fmt.Sprintf("RM%d", n)
	g.SetNamer(func(s erpc.Session) string {
		if s == sess {
			return sn
		}
		return ""
	})
	key := func(pt string) string { return sn + ":" + pt }
	defer func() {
		atomic.StoreInt32(&hooks.over, 1)
		atomic.StoreInt32(&disc.over, 1)
		g.ReleaseAll()
		fw.up()
		done := make(chan struct{})
		go func() { cli.Close(); close(done) }()
		select {
		case <-done:
		case <-time.After(2 * time.Second):
		}
		fw.cut()
		rec.Flush()
	}()
	type pend struct {
		done chan erpc.CallCmd
		res  *Res
		tag  string
	}
	var calls []*pend
	ncall := 0
	startCall := func() {
		ncall++
		p := &pend{done: make(chan erpc.CallCmd, 1), res: new(Res), tag: fmt.Sprintf("%s.c%d", sc.ID, ncall)}
		calls = append(calls, p)
		go func() { p.done <- sess.Call(CallRoute, &Arg{Tag: p.tag}, p.res) }()
	}
	var closeRet chan struct{}
	startClose := func() {
		if closeRet != nil {
			return
		}
		closeRet = make(chan struct{})
		go func(ch chan struct{}) { sess.Close(); close(ch) }(closeRet)
	}
	// a first exchange: the session works
	{
		res := new(Res)
		cmd := sess.Call(CallRoute, &Arg{Tag: sc.ID + ".warm"}, res)
		if !cmd.Status().OK() {
			rec.Emit("EnvFailure", "what", "warm-up call: "+cmd.Status().String())
			return
		}
	}
	fw.waitConnOf(sess.LocalAddr().String(), 500*time.Millisecond)
	pause := func() { time.Sleep(4 * time.Millisecond) }
	var heldCall *Behav
	syncCall := func(name string) bool {
		res := new(Res)
		tag := sc.ID + "." + name
		done := make(chan erpc.CallCmd, 1)
		go func() { done <- sess.Call(CallRoute, &Arg{Tag: tag}, res) }()
		select {
		case cmd := <-done:
			rec.Emit("CallDone", "code", cmd.Status().Code(), "msg", cmd.Status().Msg(), "resok", res.Tag == F(tag), "tag", tag)
			return cmd.Status().OK()
		case <-time.After(10 * time.Second):
			rec.Emit("CallHang", "tag", tag)
			return false
		}
	}
	switch sc.Kind {
	case "stalereader", "latecancel":
		// Choreographies over three connection generations (TLC counterexamples of RedialM's AliveOrEnded / NoHang with
		// FixStaleReader / FixLateCancel switched off): reader 0 is parked before it closes the socket, a call redials
		// (connection 1), reader 0 goes on and closes connection 1, reader 1 is parked with its read error ...
		g.Hold(key("rd.cancelled"))
		fw.cut()
		if !g.WaitParked(key("rd.cancelled"), 2*time.Second) {
			rec.Emit("Parked", "park", "rd.cancelled", "reached", false)
			break
		}
		g.Unhold(key("rd.cancelled"))
		if !syncCall("a") { // redials: connection 1
			break
		}
		if sc.Kind == "latecancel" {
			// ... a call is in flight on connection 1 and the server goes away for new connections ...
			tag := sc.ID + ".long"
			heldCall = &Behav{Hold: make(chan struct{}), Entered: make(chan struct{})}
			app.SetBehav(tag, heldCall)
			p := &pend{done: make(chan erpc.CallCmd, 1), res: new(Res), tag: tag}
			calls = append(calls, p)
			go func() { p.done <- sess.Call(CallRoute, &Arg{Tag: p.tag}, p.res) }()
			select {
			case <-heldCall.Entered:
			case <-time.After(2 * time.Second):
			}
			fw.refuse()
			g.Hold(key("rd.sock"))
		}
		g.Hold(key("read.frame#1")) // a failed read
		g.Release(key("rd.cancelled"))
		if sc.Kind == "latecancel" {
			g.WaitParked(key("rd.sock"), 2*time.Second)
			g.Unhold(key("rd.sock"))
		}
		r1 := g.WaitParked(key("read.frame#1"), 2*time.Second)
		g.Unhold(key("read.frame#1"))
		rec.Emit("Parked", "park", "read.frame#1", "reached", r1)
		// ... a further call: redials again (connection 2), or, with the server away, loses its round ...
		syncCall("b")
		if sc.Kind == "latecancel" {
			g.Release(key("rd.sock")) // reader 0: the round somebody else ran has failed: it ends the session
			time.Sleep(30 * time.Millisecond)
		} else {
			time.Sleep(15 * time.Millisecond)
		}
		g.Release(key("read.frame#1")) // ... and the stale reader 1 goes on
		time.Sleep(30 * time.Millisecond)
		if sc.Kind == "latecancel" {
			fw.up()
		}
	case "earlyreply":
		// no loss: see runEarlyReply (a scripted remote); not reached here

	case "lossrace":
		if sc.Park != "none" {
			g.Hold(key(sc.Park))
		}
		if sc.WPark != "none" {
			g.Hold(key(sc.WPark))
		}
		if sc.Loss == "down" {
			fw.down()
		} else {
			fw.cut()
		}
		parked := false
		if sc.Park != "none" {
			// some points are only reached once another party acts (a caller that redials): wait briefly now, again later
			parked = g.WaitParked(key(sc.Park), 300*time.Millisecond)
		} else {
			pause()
		}
		for _, op := range sc.During {
			switch op {
			case "call":
				startCall()
			case "close":
				startClose()
			case "up":
				fw.up()
			case "hookbad":
				atomic.StoreInt32(&hooks.bad, 1)
			}
			pause()
		}
		if sc.Park != "none" && !parked {
			parked = g.WaitParked(key(sc.Park), 300*time.Millisecond)
		}
		rec.Emit("Parked", "park", sc.Park, "reached", parked)
		if sc.Park != "none" {
			g.Unhold(key(sc.Park))
			g.Release(key(sc.Park))
		}
		pause()
		if sc.WPark != "none" {
			g.Unhold(key(sc.WPark))
			for g.Release(key(sc.WPark)) {
			}
		}
		if sc.After == "up" {
			fw.up()
		}
	case "closerace":
		// a call in flight to a slow handler; Close() waits for it; the other operations happen meanwhile
		tag := sc.ID + ".long"
		hold := make(chan struct{})
		ent := make(chan struct{})
		heldCall = &Behav{Hold: hold, Entered: ent}
		app.SetBehav(tag, heldCall)
		p := &pend{done: make(chan erpc.CallCmd, 1), res: new(Res), tag: tag}
		calls = append(calls, p)
		go func() { p.done <- sess.Call(CallRoute, &Arg{Tag: p.tag}, p.res) }()
		select {
		case <-ent:
		case <-time.After(2 * time.Second):
			rec.Emit("EnvFailure", "what", "slow handler never entered")
			releaseHold(heldCall)
			return
		}
		startClose()
		time.Sleep(15 * time.Millisecond) // Close() is now waiting for the call in flight
		for _, op := range sc.During {
			switch op {
			case "call":
				startCall()
			case "cut":
				fw.cut()
			}
			pause()
		}
		time.Sleep(15 * time.Millisecond)
		releaseHold(heldCall)
	}
	// every call and the Close() come to an end
	for _, p := range calls {
		select {
		case cmd := <-p.done:
			rec.Emit("CallDone", "code", cmd.Status().Code(), "msg", cmd.Status().Msg(), "resok", p.res.Tag == F(p.tag), "tag", p.tag)
		case <-time.After(10 * time.Second):
			rec.Emit("CallHang", "tag", p.tag)
		}
	}
	if heldCall != nil {
		releaseHold(heldCall)
	}
	if closeRet != nil {
		select {
		case <-closeRet:
			rec.Emit("CloseRet")
		case <-time.After(10 * time.Second):
			rec.Emit("CloseHang")
		}
	}
	// quiescence: alive and staying so, or notified; bounded by a complete round of attempts.  Right after the releases
	// the previous read loop and a caller may both redial, and the session can be up, down and up again within
	// milliseconds: a state in between (neither alive nor notified) is only reported when it persists (three more waits)
	var settled, notified, listed bool
	var got erpc.Session
	for attempt := 0; attempt < 4; attempt++ {
		stableSince := time.Time{}
		settled = WaitUntil(3*time.Second, func() bool {
			select {
			case <-sess.CloseNotify():
				return true
			default:
			}
			if sess.Health() && erpc.VerifStatus(sess) == 1 {
				if stableSince.IsZero() {
					stableSince = time.Now()
				}
				return time.Since(stableSince) > 40*time.Millisecond
			}
			stableSince = time.Time{}
			return false
		})
		time.Sleep(5 * time.Millisecond)
		notified = false
		select {
		case <-sess.CloseNotify():
			notified = true
		default:
		}
		got, listed = cli.GetSession(sess.ID())
		if notified || (sess.Health() && erpc.VerifStatus(sess) == 1 && listed && got == sess) {
			break
		}
		time.Sleep(100 * time.Millisecond)
	}
	rec.Emit("QProbe", "settled", settled, "health", sess.Health(), "notified", notified, "indexed", listed && got == sess,
		"count", cli.CountSession(), "status", erpc.VerifStatusNames[erpc.VerifStatus(sess)], "dischooks", atomic.LoadInt32(&disc.n),
		"redialhooks", atomic.LoadInt32(&hooks.redial), "srvup", fw.isUp(), "hookbad", atomic.LoadInt32(&hooks.bad) == 1,
		"stuck", len(g.Stuck()))
	// a fresh call: succeeds on a live session (the server being reachable), fails fast on a closed one, never hangs
	{
		res := new(Res)
		tag := sc.ID + ".fresh"
		done := make(chan erpc.CallCmd, 1)
		go func() { done <- sess.Call(CallRoute, &Arg{Tag: tag}, res) }()
		select {
		case cmd := <-done:
			rec.Emit("FreshCall", "code", cmd.Status().Code(), "msg", cmd.Status().Msg(), "resok", res.Tag == F(tag), "srvup", fw.isUp(), "hookbad", atomic.LoadInt32(&hooks.bad) == 1)
		case <-time.After(10 * time.Second):
			rec.Emit("CallHang", "tag", tag, "fresh", true)
		}
	}
}
