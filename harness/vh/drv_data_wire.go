package vh

import (
	"bytes"
	"fmt"
	"math"
	"strings"

	erpc "github.com/henrylee2cn/erpc/v6"
	"github.com/henrylee2cn/erpc/v6/mixer/websocket/jsonSubProto"
	"github.com/henrylee2cn/erpc/v6/mixer/websocket/pbSubProto"
	"github.com/henrylee2cn/erpc/v6/proto/thriftproto"
	"github.com/henrylee2cn/erpc/v6/socket"
)

func init() {
	extraProtos["wsjson"] = jsonSubProto.NewJSONSubProtoFunc()
	extraProtos["wspb"] = pbSubProto.NewPbSubProtoFunc()
	extraProtos["thriftstruct"] = thriftproto.NewStructProtoFunc()
}

var extraProtos = map[string]erpc.ProtoFunc{}

func protoFunc(name string) erpc.ProtoFunc {
	if pf := ProtoFuncByName(name); pf != nil {
		return pf
	}
	return extraProtos[name]
}

type wireMsg struct {
	seq    int32
	mtype  byte
	method string
	code   int32
	msg    string
	cause  string
	hasSt  bool
	meta   [][2]string
	codec  byte
	body   []byte
	pipe   []byte
	tdoc   bool // the body travels as a thrift struct (ThriftDoc.Blob)
}

func (d *dataRun) rstr(n int, alphabet string) string {
	b := make([]byte, n)
	for i := range b {
		b[i] = alphabet[d.rnd.Intn(len(alphabet))]
	}
	return string(b)
}

const alnum = "abcdefghijklmnopqrstuvwxyzABCDEFGHIJKLMNOPQRSTUVWXYZ0123456789"
const specials = "&=%+ \"\\'/?#;:,<>{}[]|~^`!@$*()-_."

func (d *dataRun) concretize(v map[string]interface{}) wireMsg {
	g := func(k string) string { s, _ := v[k].(string); return s }
	m := wireMsg{}
	switch g("seq") {
	case "one":
		m.seq = 1
	case "zero":
		m.seq = 0
	case "neg1":
		m.seq = -1
	case "max":
		m.seq = math.MaxInt32
	case "min":
		m.seq = math.MinInt32
	}
	m.mtype = g("mtype")[0] - '0'
	switch g("method") {
	case "short":
		m.method = "/a/" + d.rstr(3, alnum)
	case "empty":
		m.method = ""
	case "len255":
		m.method = "/" + d.rstr(254, alnum)
	case "special":
		m.method = "/" + d.rstr(12, specials+alnum)
	case "utf8":
		m.method = "/héllo/世界/" + d.rstr(3, alnum)
	}
	switch g("status") {
	case "code":
		m.hasSt, m.code = true, 404
	case "full":
		m.hasSt, m.code, m.msg, m.cause = true, 1001, "msg "+d.rstr(5, alnum), "cause "+d.rstr(5, alnum)
	case "special":
		m.hasSt, m.code, m.msg, m.cause = true, 400, d.rstr(10, specials)+"é世", d.rstr(10, specials+alnum)+"\n\tü"
	case "neg":
		m.hasSt, m.code, m.msg = true, -1, "Unknown Error"
	case "maxcode":
		m.hasSt, m.code, m.msg = true, math.MaxInt32, "max"
	}
	switch g("meta") {
	case "one":
		m.meta = [][2]string{{"k" + d.rstr(2, alnum), d.rstr(6, alnum)}}
	case "repeated":
		m.meta = [][2]string{{"k", "v1" + d.rstr(2, alnum)}, {"other", "x"}, {"k", "v2"}}
	case "emptyval":
		m.meta = [][2]string{{"k", ""}, {"j", "v"}}
	case "emptylast":
		m.meta = [][2]string{{"a", "x" + d.rstr(3, alnum)}, {"flag", ""}}
	case "special":
		m.meta = [][2]string{{"k" + d.rstr(4, specials), d.rstr(10, specials+alnum) + "é世"}, {"a b", "c+d%e&f=g"}}
	case "big":
		m.meta = [][2]string{{"big", d.rstr(60000, alnum)}}
	}
	switch g("codec") {
	case "j":
		m.codec = 'j'
	case "s":
		m.codec = 's'
	case "p":
		m.codec = 'p'
	case "nil0":
		m.codec = 0
	}
	rb := func(n int) []byte { b := make([]byte, n); d.rnd.Read(b); return b }
	pr := func(n int) []byte { return []byte(d.rstr(n, alnum+" .,")) }
	switch g("body") {
	case "b1":
		m.body = pr(1)
	case "empty":
		m.body = []byte{}
	case "b255":
		m.body = pr(255)
	case "b256":
		m.body = pr(256)
	case "b65535":
		m.body = pr(65535)
	case "quotes":
		m.body = []byte(`{"a":"x\"y","b":"` + d.rstr(4, alnum) + `"}`)
	case "backslash":
		m.body = []byte(`a\b\\c` + d.rstr(3, alnum) + `\`)
	case "control":
		m.body = append([]byte("\x00\x01\n\t\r\x1f"), pr(4)...)
	case "nonutf8":
		m.body = append([]byte{0xff, 0xfe, 0x80, 0xc0}, rb(8)...)
	}
	switch g("pipe") {
	case "g":
		m.pipe = []byte("g")
	case "m":
		m.pipe = []byte("m")
	case "gm":
		m.pipe = []byte("gm")
	}
	return m
}

func (w *wireMsg) build() (socket.Message, error) {
	m := socket.NewMessage()
	m.SetSeq(w.seq)
	m.SetMtype(w.mtype)
	m.SetServiceMethod(w.method)
	if w.hasSt {
		var cause interface{}
		if w.cause != "" {
			cause = w.cause
		}
		if cause != nil {
			m.SetStatus(erpc.NewStatus(w.code, w.msg, cause))
		} else {
			m.SetStatus(erpc.NewStatus(w.code, w.msg))
		}
	}
	for _, kv := range w.meta {
		m.Meta().Add(kv[0], kv[1])
	}
	m.SetBodyCodec(w.codec)
	if w.tdoc {
		m.SetBody(&ThriftDoc{Author: "doc", Nums: []int64{int64(len(w.body))}, Blob: append([]byte(nil), w.body...)})
	} else {
		m.SetBody(append([]byte(nil), w.body...))
	}
	if err := m.XferPipe().Append(w.pipe...); err != nil {
		return nil, err
	}
	return m, nil
}

// diff compares an unpacked message with what was packed; returns the names of differing fields.
func (w *wireMsg) diff(m socket.Message) []string {
	var d []string
	if m.Seq() != w.seq {
		d = append(d, fmt.Sprintf("seq=%d", m.Seq()))
	}
	if m.Mtype() != w.mtype {
		d = append(d, fmt.Sprintf("mtype=%d", m.Mtype()))
	}
	if m.ServiceMethod() != w.method {
		d = append(d, "method")
	}
	st := m.Status()
	if w.hasSt {
		exp := erpc.NewStatus(w.code, w.msg)
		if w.cause != "" {
			exp = erpc.NewStatus(w.code, w.msg, w.cause)
		}
		if st == nil || st.Code() != exp.Code() || st.Msg() != exp.Msg() || st.Cause().Error() != exp.Cause().Error() {
			d = append(d, fmt.Sprintf("status=%v", st))
		}
	} else if !st.OK() {
		d = append(d, fmt.Sprintf("status=%v", st))
	}
	var got [][2]string
	m.Meta().VisitAll(func(k, v []byte) { got = append(got, [2]string{string(k), string(v)}) })
	if len(got) != len(w.meta) {
		d = append(d, fmt.Sprintf("meta#%d", len(got)))
	} else {
		for i := range got {
			if got[i] != w.meta[i] {
				d = append(d, "meta")
				break
			}
		}
	}
	if m.BodyCodec() != w.codec {
		d = append(d, fmt.Sprintf("codec=%d", m.BodyCodec()))
	}
	bp, _ := m.Body().(*[]byte)
	if td, ok := m.Body().(*ThriftDoc); ok && w.tdoc {
		if td.Author != "doc" || len(td.Nums) != 1 || td.Nums[0] != int64(len(w.body)) {
			d = append(d, "body=doc")
		}
		bp = &td.Blob
	}
	if bp == nil {
		if len(w.body) != 0 {
			d = append(d, "body=nil")
		}
	} else if !bytes.Equal(*bp, w.body) {
		d = append(d, fmt.Sprintf("body(len %d vs %d)", len(*bp), len(w.body)))
	}
	if !bytes.Equal(m.XferPipe().IDs(), w.pipe) {
		d = append(d, "pipe")
	}
	return d
}

func newRecvMsg() socket.Message {
	return socket.NewMessage(socket.WithNewBody(newRecvBody))
}

// recvThrift makes the receiving side allocate thrift documents instead of byte slices (thrift struct protocol).
var recvThrift bool

func newRecvBody(socket.Header) interface{} {
	if recvThrift {
		return new(ThriftDoc)
	}
	return new([]byte)
}

func (d *dataRun) wireCase(c DataCase, out map[string]interface{}) {
	vec, _ := c["vec"].(map[string]interface{})
	pname := c.S("proto")
	pf := protoFunc(pname)
	streamed := !strings.HasPrefix(pname, "ws")
	V := d.concretize(vec)
	D := d.concretize(map[string]interface{}{"seq": "one", "mtype": "1", "method": "short", "status": "nil", "meta": "none", "codec": "j", "body": "b1", "pipe": "none"})
	recvThrift = pname == "thriftstruct"
	defer func() { recvThrift = false }()
	if pname == "thriftstruct" {
		// the protocol's only body codec is thrift: the default codec class stands for it
		for _, wm := range []*wireMsg{&V, &D} {
			wm.tdoc = true
			if wm.codec == 'j' {
				wm.codec = 't'
			}
		}
	}
	// the fields this protocol is documented to reproduce for this vector (from the specification)
	compare := map[string]bool{}
	if cl, ok := c["compare"].([]interface{}); ok {
		for _, f := range cl {
			if fs, ok := f.(string); ok {
				compare[fs] = true
			}
		}
	}
	keep := func(ds []string) []string {
		if len(compare) == 0 {
			return ds
		}
		var o []string
		for _, x := range ds {
			name := x
			for _, f := range []string{"seq", "mtype", "method", "status", "meta", "codec", "body", "pipe"} {
				if strings.HasPrefix(x, f) {
					name = f
				}
			}
			if compare[name] {
				o = append(o, x)
			}
		}
		return o
	}
	msgs := []*wireMsg{&D, &V, &D}
	var chunks []int
	switch c.S("chunk") {
	case "one":
		chunks = []int{1}
	case "mixed":
		chunks = []int{3, 1, 17, 2, 64, 5}
	}
	// pack the three frames with ONE protocol instance (its counters see the whole traffic)
	var w bytes.Buffer
	packer := pf(&rwBuf{r: bytes.NewReader(nil), w: &w})
	var bounds []int
	var psizes []uint32
	for _, wm := range msgs {
		m, err := wm.build()
		if err != nil {
			out["err"] = "build: " + err.Error()
			return
		}
		if err := packer.Pack(m); err != nil {
			out["err"] = "pack: " + err.Error()
			return
		}
		bounds = append(bounds, w.Len())
		psizes = append(psizes, m.Size())
	}
	stream := w.Bytes()
	diffs := []string{}
	var usizes []uint32
	if streamed {
		up := pf(&rwBuf{r: &chunkReader{b: append([]byte(nil), stream...), sizes: chunks}, w: &bytes.Buffer{}})
		// every frame is decoded into its own message, and the messages are compared only after the whole stream
		// has been consumed: a decoded message must not change while later frames are decoded (no aliasing of
		// a read buffer that the next frame reuses)
		var held []socket.Message
		for i := range msgs {
			m := newRecvMsg()
			if err := up.Unpack(m); err != nil {
				out["err"] = fmt.Sprintf("unpack frame %d: %v", i, err)
				return
			}
			held = append(held, m)
			usizes = append(usizes, m.Size())
		}
		for i, wm := range msgs {
			for _, x := range keep(wm.diff(held[i])) {
				diffs = append(diffs, fmt.Sprintf("f%d:%s", i, x))
			}
		}
		// the same stream decoded into ONE message object, Reset between frames, that has received a primer
		// frame before (every field set, three metadata pairs): nothing of an earlier frame may show
		P := d.concretize(map[string]interface{}{"seq": "max", "mtype": "3", "method": "len255", "status": "full", "meta": "none", "codec": "p", "body": "b255", "pipe": "none"})
		P.meta = [][2]string{{"p1", "primer-value-1"}, {"p2", "primer-value-2"}, {"p3", "primer-value-3"}}
		switch pname {
		case "thriftstruct":
			P.tdoc, P.codec = true, 't'
		case "http":
			P.mtype = 2 // the protocol has no push frames
		}
		rm := newRecvMsg()
		var pw bytes.Buffer
		if pm, err := P.build(); err == nil && pf(&rwBuf{r: bytes.NewReader(nil), w: &pw}).Pack(pm) == nil {
			pf(&rwBuf{r: bytes.NewReader(pw.Bytes()), w: &bytes.Buffer{}}).Unpack(rm)
		}
		up2 := pf(&rwBuf{r: &chunkReader{b: append([]byte(nil), stream...), sizes: chunks}, w: &bytes.Buffer{}})
		for i, wm := range msgs {
			rm.Reset(socket.WithNewBody(newRecvBody))
			if err := up2.Unpack(rm); err != nil {
				out["err"] = fmt.Sprintf("unpack frame %d into a reused message: %v", i, err)
				return
			}
			for _, x := range keep(wm.diff(rm)) {
				diffs = append(diffs, fmt.Sprintf("reused:f%d:%s", i, x))
			}
		}
	} else {
		prev := 0
		for i, wm := range msgs {
			m := newRecvMsg()
			up := pf(&rwBuf{r: bytes.NewReader(append([]byte(nil), stream[prev:bounds[i]]...)), w: &bytes.Buffer{}})
			prev = bounds[i]
			if err := up.Unpack(m); err != nil {
				out["err"] = fmt.Sprintf("unpack frame %d: %v", i, err)
				return
			}
			for _, x := range wm.diff(m) {
				diffs = append(diffs, fmt.Sprintf("f%d:%s", i, x))
			}
			usizes = append(usizes, m.Size())
		}
	}
	// size of a message depends on that message alone: the two default frames report the same size,
	// and V alone reports the same size as V inside the stream
	sizeok := psizes[0] == psizes[2] && usizes[0] == usizes[2]
	var w2 bytes.Buffer
	m2, _ := V.build()
	if err := pf(&rwBuf{r: bytes.NewReader(nil), w: &w2}).Pack(m2); err == nil {
		if m2.Size() != psizes[1] {
			sizeok = false
		}
		m3 := newRecvMsg()
		if err := pf(&rwBuf{r: bytes.NewReader(w2.Bytes()), w: &bytes.Buffer{}}).Unpack(m3); err == nil && m3.Size() != usizes[1] {
			sizeok = false
		}
	}
	if !sizeok {
		diffs = append(diffs, fmt.Sprintf("size(pack %v, unpack %v)", psizes, usizes))
	}
	out["equal"] = len(diffs) == 0
	out["diffs"] = diffs
}
