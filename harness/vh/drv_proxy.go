package vh

import (
	"bufio"
	"bytes"
	"context"
	"encoding/json"
	"flag"
	"fmt"
	"math/rand"
	"os"
	"sort"
	"strings"
	"sync"
	"sync/atomic"
	"time"

	erpc "github.com/henrylee2cn/erpc/v6"
	"github.com/henrylee2cn/erpc/v6/proto/pbproto/pb"
)

func init() { Drivers["proxy"] = drvProxy }

// ProxyScenario is one case exported by spec/Proxy.tla.
type ProxyScenario struct {
	ID        string `json:"id"`
	Kind      string `json:"kind"`
	Method    string `json:"method"`
	Codec     string `json:"codec"`
	ReqMeta   string `json:"reqmeta"`
	ReplyMeta string `json:"replymeta"`
	Body      string `json:"body"`
	Failure   string `json:"failure"`
	Earlier   string `json:"earlier"` // what happened earlier on the proxy's forwarder session (none | deadlinemsg | agedoff)
	Expect    string `json:"expect"`
	Conc      bool   `json:"conc"`
}

// backend-side observations of the proxy scenarios
type pxObs struct {
	mu     sync.Mutex
	enters int
	metas  []string // request metadata views seen by the backend
	realip []string
	cut    func()
	cutTag string
}

var px pxObs

func pxSee(c interface {
	VisitMeta(func(k, v []byte))
	PeekMeta(string) []byte
}, tag string) {
	var b []byte
	c.VisitMeta(func(k, v []byte) {
		if string(k) == erpc.MetaRealIP {
			return
		}
		b = append(b, k...)
		b = append(b, '=')
		b = append(b, v...)
		b = append(b, ';')
	})
	px.mu.Lock()
	px.enters++
	px.metas = append(px.metas, string(b))
	px.realip = append(px.realip, string(c.PeekMeta(erpc.MetaRealIP)))
	cut := px.cut
	doCut := px.cutTag != "" && px.cutTag == tag
	px.mu.Unlock()
	if doCut && cut != nil {
		cut()
		time.Sleep(2 * time.Millisecond)
	}
}

func pxReplyMeta(c interface{ AddMeta(k, v string) }, pad string) {
	// the padding's first word tells which reply metadata to attach
	switch {
	case strings.HasPrefix(pad, "RM1"):
		c.AddMeta("rk", "rv-"+pad[:6])
	case strings.HasPrefix(pad, "RM2"):
		c.AddMeta("rk", "rv-"+pad[:6])
		c.AddMeta("r2", "second & value=1")
	}
}

// PX is the backend controller of the proxy scenarios: /px/echo, /px/fail (JSON struct bodies).
type PX struct{ erpc.CallCtx }

func (c *PX) Echo(arg *Arg) (*Res, *erpc.Status) {
	pxSee(c, arg.Tag)
	pxReplyMeta(c, arg.Pad)
	return &Res{Tag: F(arg.Tag), Pad: arg.Pad}, nil
}
func (c *PX) Fail(arg *Arg) (*Res, *erpc.Status) {
	pxSee(c, arg.Tag)
	pxReplyMeta(c, arg.Pad)
	return nil, erpc.NewStatus(1001, "backend msg "+arg.Tag, "backend cause & = % "+arg.Tag)
}

// PXP is the same for protobuf bodies: /pxp/echo.
type PXP struct{ erpc.CallCtx }

func (c *PXP) Echo(arg *pb.Payload) (*pb.Payload, *erpc.Status) {
	pxSee(c, arg.ServiceMethod)
	pxReplyMeta(c, string(arg.Body))
	return &pb.Payload{ServiceMethod: F(arg.ServiceMethod), Body: arg.Body}, nil
}

// PXU / PXPU: push receivers /pxu/echo, /pxpu/echo.
type PXU struct{ erpc.PushCtx }

func (c *PXU) Echo(arg *Arg) *erpc.Status { pxSee(c, arg.Tag); return nil }

type PXPU struct{ erpc.PushCtx }

func (c *PXPU) Echo(arg *pb.Payload) *erpc.Status { pxSee(c, arg.ServiceMethod); return nil }

func drvProxy(args []string) int {
	fs := flag.NewFlagSet("proxy", flag.ExitOnError)
	in := fs.String("in", "", "scenario file (ndjson)")
	out := fs.String("out", "", "trace file (ndjson)")
	seed := fs.Int64("seed", 1, "seed")
	fs.Parse(args)
	rec, err := NewRec(*out)
	if err != nil {
		fmt.Fprintln(os.Stderr, err)
		return 2
	}
	defer rec.Close()
	f, err := os.Open(*in)
	if err != nil {
		fmt.Fprintln(os.Stderr, err)
		return 2
	}
	defer f.Close()
	rd := bufio.NewReaderSize(f, 1<<20)
	w := newHistWorld(rec)
	w.backend.RouteCall(new(PX))
	w.backend.RouteCall(new(PXP))
	w.backend.RoutePush(new(PXU))
	w.backend.RoutePush(new(PXPU))
	n := 0
	for {
		line, err := rd.ReadBytes('\n')
		if len(line) > 1 {
			var sc ProxyScenario
			if e := json.Unmarshal(line, &sc); e != nil {
				fmt.Fprintln(os.Stderr, "bad scenario:", e)
				return 2
			}
			n++
			runProxy(rec, w, &sc, rand.New(rand.NewSource(*seed*7919+int64(n))))
			w.sentinels()
			rec.Flush()
		}
		if err != nil {
			break
		}
	}
	rec.Flush()
	return 0
}

type pxResult struct {
	stat   string
	body   string
	meta   string
	hang   bool
	enters int
}

func metaMap(cmd erpc.CallCmd) string {
	m := cmd.InputMeta()
	if m == nil {
		return "<nil>"
	}
	// one value per key (the last one), sorted by key
	vals := map[string]string{}
	m.VisitAll(func(k, v []byte) { vals[string(k)] = string(v) })
	keys := make([]string, 0, len(vals))
	for k := range vals {
		keys = append(keys, k)
	}
	sort.Strings(keys)
	var b bytes.Buffer
	for _, k := range keys {
		b.WriteString(k + "=" + vals[k] + ";")
	}
	return b.String()
}

func runProxy(rec *Rec, w *histWorld, sc *ProxyScenario, rnd *rand.Rand) {
	rec.SetTrace(sc.ID, map[string]interface{}{"mode": "proxy", "kind": sc.Kind, "method": sc.Method, "codec": sc.Codec, "reqmeta": sc.ReqMeta,
		"replymeta": sc.ReplyMeta, "body": sc.Body, "failure": sc.Failure, "earlier": sc.Earlier, "expect": sc.Expect, "conc": sc.Conc})
	w.ensureFwd()
	if sc.Conc {
		w.mu.Lock()
		w.fwdNoise = true
		w.mu.Unlock()
		defer func() { w.mu.Lock(); w.fwdNoise = false; w.mu.Unlock() }()
		// 8 goroutines x 25 proxied calls at the same time; every reply carries metadata derived from its own argument
		route := "/px/echo"
		if sc.Codec == "p" {
			route = "/pxp/echo"
		}
		var wg sync.WaitGroup
		var okN, wrong, errs int32
		for g := 0; g < 8; g++ {
			wg.Add(1)
			go func(g int) {
				defer wg.Done()
				for i := 0; i < 25; i++ {
					k := g*25 + i
					pad := "RM1" + string([]byte{alnum[k%62], alnum[(k/62)%62], alnum[(k*7)%62]}) + "-own"
					tag := fmt.Sprintf("%s.c%d", sc.ID, k)
					var arg, res interface{}
					var read func() string
					if sc.Codec == "p" {
						r := new(pb.Payload)
						arg, res, read = &pb.Payload{ServiceMethod: tag, Body: []byte(pad)}, r, func() string { return r.ServiceMethod + "|" + string(r.Body) }
					} else {
						r := new(Res)
						arg, res, read = &Arg{Tag: tag, Pad: pad}, r, func() string { return r.Tag + "|" + r.Pad }
					}
					cmd := w.viaProxy.Call(route, arg, res, erpc.WithBodyCodec(sc.Codec[0]), erpc.WithAddMeta("qk", "qv"))
					switch {
					case !cmd.StatusOK():
						atomic.AddInt32(&errs, 1)
					case read() == F(tag)+"|"+pad && metaMap(cmd) == "rk=rv-"+pad[:6]+";":
						atomic.AddInt32(&okN, 1)
					default:
						atomic.AddInt32(&wrong, 1)
					}
				}
			}(g)
		}
		wd := make(chan struct{})
		go func() { wg.Wait(); close(wd) }()
		select {
		case <-wd:
		case <-time.After(20 * time.Second):
		}
		rec.Emit("ProxyConc", "total", 200, "ok", atomic.LoadInt32(&okN), "wrong", atomic.LoadInt32(&wrong), "errs", atomic.LoadInt32(&errs))
		return
	}
	rs := func(k int) string {
		b := make([]byte, k)
		for i := range b {
			b[i] = alnum[rnd.Intn(len(alnum))]
		}
		return string(b)
	}
	pad := map[string]string{"none": "RM0", "one": "RM1", "two": "RM2"}[sc.ReplyMeta] + rs(3)
	switch sc.Body {
	case "empty", "nil":
		if sc.ReplyMeta == "none" {
			pad = ""
		}
	case "special":
		pad += " \"q\" \\ & = % + é世 \n\t"
	case "big":
		pad += rs(70000)
	}
	route := map[string]string{"echo": "/px/echo", "fail": "/px/fail", "missing": "/px/missing"}[sc.Method]
	if sc.Kind == "push" {
		route = map[string]string{"echo": "/pxu/echo", "missing": "/pxu/missing"}[sc.Method]
	}
	if sc.Codec == "p" {
		route = strings.Replace(strings.Replace(route, "/pxu/", "/pxpu/", 1), "/px/", "/pxp/", 1)
	}
	var reqMeta []erpc.MessageSetting
	wantMeta := ""
	switch sc.ReqMeta {
	case "one":
		reqMeta = []erpc.MessageSetting{erpc.WithAddMeta("qk", "qv "+rs(4))}
	case "realip":
		reqMeta = []erpc.MessageSetting{erpc.WithAddMeta("qk", "qv"), erpc.WithAddMeta(erpc.MetaRealIP, "10.9.8.7:65")}
	case "repeated":
		reqMeta = []erpc.MessageSetting{erpc.WithAddMeta("qk", "v1"), erpc.WithAddMeta("other", "x&y"), erpc.WithAddMeta("qk", "v2")}
	}
	do := func(s erpc.Session, tag string) pxResult {
		settings := append([]erpc.MessageSetting{erpc.WithBodyCodec(sc.Codec[0])}, reqMeta...)
		var arg, res interface{}
		var read func() string
		if sc.Codec == "p" {
			r := new(pb.Payload)
			arg, res, read = &pb.Payload{ServiceMethod: tag, Body: []byte(pad)}, r, func() string { return r.ServiceMethod + "|" + string(r.Body) }
		} else {
			r := new(Res)
			arg, res, read = &Arg{Tag: tag, Pad: pad}, r, func() string { return r.Tag + "|" + r.Pad }
		}
		if sc.Body == "nil" && !strings.HasSuffix(tag, ".w") {
			arg = nil // no argument: a zero-length body
		}
		px.mu.Lock()
		before := px.enters
		px.mu.Unlock()
		out := pxResult{}
		if sc.Kind == "push" {
			st := s.Push(route, arg, settings...)
			out.stat = statStr(st)
			// a push is handled asynchronously: wait for the backend to see it (bounded: a push for a route the
			// backend does not serve never arrives)
			wait := 150 * time.Millisecond
			if sc.Method == "missing" || sc.Failure != "none" {
				wait = 15 * time.Millisecond
			}
			WaitUntil(wait, func() bool { px.mu.Lock(); defer px.mu.Unlock(); return px.enters > before })
			time.Sleep(time.Millisecond)
		} else {
			done := make(chan erpc.CallCmd, 1)
			go func() { done <- s.Call(route, arg, res, settings...) }()
			select {
			case cmd := <-done:
				out.stat = statStr(cmd.Status())
				out.body = read()
				out.meta = metaMap(cmd)
			case <-time.After(3 * time.Second):
				out.hang = true
			}
		}
		px.mu.Lock()
		out.enters = px.enters - before
		px.mu.Unlock()
		return out
	}
	_ = wantMeta
	// 1. the reference: the same exchange sent directly to the backend
	px.mu.Lock()
	px.metas, px.realip = nil, nil
	px.mu.Unlock()
	tagD := sc.ID + ".d"
	tagP := sc.ID + ".p"
	if sc.Failure != "none" {
		// backend failures
		w.mu.Lock()
		fc, fsess := w.fwdConn, w.fwd
		w.mu.Unlock()
		if sc.Failure == "downbefore" {
			fc.Close()
			WaitUntil(500*time.Millisecond, func() bool { return !fsess.Health() })
		} else if sc.Failure == "writefail" {
			w.mu.Lock()
			pc := w.fwdConnP
			w.mu.Unlock()
			pc.FailWrites()
		} else {
			px.mu.Lock()
			px.cut, px.cutTag = func() { fc.Cut() }, tagP
			px.mu.Unlock()
		}
		p := do(w.viaProxy, tagP)
		px.mu.Lock()
		px.cut, px.cutTag = nil, ""
		px.mu.Unlock()
		// "on that call only": the next proxied call (new backend connection) and a direct call work again
		if sc.Failure == "writefail" {
			fc.Close() // the half-broken connection is given up; a new one is made
			WaitUntil(500*time.Millisecond, func() bool { return !fsess.Health() })
		}
		w.ensureFwd()
		sc2 := *sc
		_ = sc2
		nextok := true
		if sc.Kind == "call" {
			n1 := do(w.viaProxy, sc.ID+".n")
			n2 := do(w.direct, sc.ID+".m")
			nextok = strings.HasPrefix(n1.stat, "0|") && strings.HasPrefix(n2.stat, "0|")
		}
		code, msg := int32(0), ""
		fmt.Sscanf(p.stat, "%d|", &code)
		if parts := strings.SplitN(p.stat, "|", 3); len(parts) == 3 {
			msg = parts[1]
		}
		if p.hang {
			rec.Emit("ProxyHang")
			return
		}
		rec.Emit("ProxyOutcome", "pcode", code, "pmsg", msg, "pstat", p.stat, "nextok", nextok,
			"samestatus", false, "samebody", false, "samemeta", false, "backendenters", 0, "expectedenters", 0, "realipok", true, "reqmetaok", true)
		return
	}
	if sc.Body == "nil" {
		// pooled contexts of the proxy have served non-empty bodies before the empty one arrives
		for i := 0; i < 4; i++ {
			do(w.viaProxy, fmt.Sprintf("%s.%d.w", sc.ID, i))
		}
		px.mu.Lock()
		px.metas, px.realip = nil, nil
		px.mu.Unlock()
	}
	if sc.Earlier != "" && sc.Earlier != "none" {
		// the forwarder session has a past; what the backend saw of it is not part of the observed exchange
		pxEarlier(rec, w, sc)
		px.mu.Lock()
		px.metas, px.realip = nil, nil
		px.mu.Unlock()
	}
	d := do(w.direct, tagD)
	px.mu.Lock()
	dMetas, dReal := append([]string(nil), px.metas...), append([]string(nil), px.realip...)
	px.metas, px.realip = nil, nil
	px.mu.Unlock()
	p := do(w.viaProxy, tagP)
	px.mu.Lock()
	pMetas, pReal := append([]string(nil), px.metas...), append([]string(nil), px.realip...)
	px.mu.Unlock()
	if d.hang || p.hang {
		rec.Emit("ProxyHang")
		return
	}
	// compare modulo the tag, which differs between the two exchanges by construction
	norm := func(s, tag string) string { return strings.Replace(s, tag, "<TAG>", -1) }
	expectedEnters := 1
	if sc.Method == "missing" {
		expectedEnters = 0
	}
	realipok := true
	if expectedEnters == 1 && len(pReal) == 1 {
		if sc.ReqMeta == "realip" {
			realipok = pReal[0] == "10.9.8.7:65"
		} else {
			realipok = pReal[0] == Name(w.viaProxy) // the caller's address as the proxy sees it
		}
	} else if expectedEnters == 1 {
		realipok = false
	}
	_ = dReal
	reqmetaok := len(dMetas) == len(pMetas)
	if reqmetaok && len(dMetas) == 1 {
		reqmetaok = dMetas[0] == pMetas[0]
	}
	rec.Emit("ProxyOutcome", "pcode", 0, "pmsg", "", "nextok", true,
		"samestatus", norm(d.stat, tagD) == norm(p.stat, tagP), "samebody", norm(d.body, tagD) == norm(p.body, tagP),
		"samemeta", norm(d.meta, tagD) == norm(p.meta, tagP), "backendenters", p.enters, "expectedenters", expectedEnters,
		"realipok", realipok, "reqmetaok", reqmetaok, "dstat", d.stat, "pstat", p.stat, "dmeta", clipS(d.meta), "pmeta", clipS(p.meta),
		"dbody", clipS(d.body), "pbody", clipS(p.body), "dreq", strings.Join(dMetas, "|"), "preq", strings.Join(pMetas, "|"), "preal", strings.Join(pReal, "|"))
	_ = atomic.LoadInt64
}

// pxEarlier is the preparation step of the scenarios with a past on the proxy's forwarder (backend) session: an exchange
// of the proxy's own with the backend whose context carried a deadline -- given by the caller of that exchange
// ("deadlinemsg", a health probe with a timeout) or by the session's context age, which is switched off again afterwards
// ("agedoff") -- and then the passing of that deadline. The forwarder's connection honours write deadlines like a real
// one (vh/conn.go): a deadline left armed on it makes every later write fail. The exchange is the driver's own; it is
// not compared with anything, only reported.
func pxEarlier(rec *Rec, w *histWorld, sc *ProxyScenario) {
	w.mu.Lock()
	fs := w.fwd
	w.mu.Unlock()
	const span = 5 * time.Millisecond
	settings := []erpc.MessageSetting{erpc.WithBodyCodec('j')}
	switch sc.Earlier {
	case "deadlinemsg":
		ctx, cancel := context.WithTimeout(context.Background(), span)
		defer cancel()
		settings = append(settings, erpc.WithContext(ctx))
	case "agedoff":
		// (the setter is on the PreSession view of the session, which a dial / accept hook of the proxy may have kept)
		fs.(erpc.PreSession).SetContextAge(span)
	}
	v := "hang"
	done := make(chan erpc.CallCmd, 1)
	go func() { done <- fs.Call("/px/echo", &Arg{Tag: sc.ID + ".e", Pad: "RM0pre"}, new(Res), settings...) }()
	select {
	case cmd := <-done:
		v = statStr(cmd.Status())
	case <-time.After(3 * time.Second):
	}
	if sc.Earlier == "agedoff" {
		fs.(erpc.PreSession).SetContextAge(0)
	}
	// whatever deadline that exchange was written under (set before the call returned) has passed after this
	time.Sleep(span + 2*time.Millisecond)
	rec.Emit("ProxyPre", "earlier", sc.Earlier, "v", v, "healthy", fs.Health())
}

func clipS(s string) string {
	if len(s) > 120 {
		return s[:120]
	}
	return s
}
