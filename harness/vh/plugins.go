package vh

import (
	"errors"
	"sync"
	"sync/atomic"

	erpc "github.com/henrylee2cn/erpc/v6"
)

// plugCore is the recording core shared by the plugin profiles.
type plugCore struct {
	name   string
	side   string // "srv" or "cli"
	rec    *Rec
	mu     sync.Mutex
	veto   string // stage at which this plugin returns a non-OK verdict ("" = never)
	vkind  string // "veto" (default) or "panic"
	fired  bool
	Events []string
	muted  int32 // set when the scenario the plugin belongs to is over: later hook runs are not recorded
	gen    int64 // generation of the trace the plugin was created for
}

// MutePlug stops a recording plugin from recording (a hook that runs after its scenario is over must not
// show up in the trace of the next one).
func MutePlug(pl erpc.Plugin) {
	switch x := pl.(type) {
	case *PlugAll:
		atomic.StoreInt32(&x.muted, 1)
	case *PlugHdr:
		atomic.StoreInt32(&x.muted, 1)
	case *PlugBody:
		atomic.StoreInt32(&x.muted, 1)
	}
}

// VetoStatus is the status returned by a vetoing recording plugin.
func VetoStatus() *erpc.Status { return erpc.NewStatus(777, "veto-msg", "veto-cause") }

func (p *plugCore) Name() string { return p.name }

// PlugPause, while 1, makes every recording plugin transparent: preparation steps of a scenario (traffic that sets
// the scene and is not the exchange under observation) neither show up in the trace nor use up a scripted verdict.
var PlugPause int32

func (p *plugCore) hit(stage string, seq int32) *erpc.Status {
	if atomic.LoadInt32(&p.muted) == 1 || atomic.LoadInt32(&PlugPause) == 1 {
		return nil
	}
	p.mu.Lock()
	v := p.veto == stage && !p.fired
	if v {
		p.fired = true
	}
	p.Events = append(p.Events, stage)
	p.mu.Unlock()
	verdict := "ok"
	if v {
		verdict = "veto"
		if p.vkind == "panic" {
			verdict = "panic"
		}
	}
	if stage != "PreReadHeader" || v {
		p.rec.EmitGen(p.gen, "Hook", "side", p.side, "pl", p.name, "stage", stage, "seq", seq, "verdict", verdict)
	}
	if v {
		if p.vkind == "panic" {
			panic("scripted plugin panic at " + stage)
		}
		return VetoStatus()
	}
	return nil
}

// SetPanic makes the plugin panic instead of returning a status at its veto stage.
func SetPanic(pl erpc.Plugin) {
	switch x := pl.(type) {
	case *PlugAll:
		x.vkind = "panic"
	case *PlugHdr:
		x.vkind = "panic"
	case *PlugBody:
		x.vkind = "panic"
	}
}

func seqOfRead(c erpc.ReadCtx) int32   { return c.Seq() }
func seqOfWrite(c erpc.WriteCtx) int32 { return c.Output().Seq() }

// PlugAll implements every per-message stage.
type PlugAll struct{ plugCore }

// PlugHdr implements the header stages only.
type PlugHdr struct{ plugCore }

// PlugBody implements the body and reply-write stages only.
type PlugBody struct{ plugCore }

// NewPlug creates a recording plugin of the given profile ("all", "hdr", "body").
func NewPlug(rec *Rec, side, name, profile, vetoStage string) erpc.Plugin {
	core := plugCore{name: name, side: side, rec: rec, veto: vetoStage, gen: rec.Gen()}
	switch profile {
	case "hdr":
		return &PlugHdr{core}
	case "body":
		return &PlugBody{core}
	}
	return &PlugAll{core}
}

func (p *PlugAll) PreReadHeader(c erpc.PreCtx) error {
	if st := p.hit("PreReadHeader", 0); st != nil {
		return errors.New("veto at PreReadHeader")
	}
	return nil
}
func (p *PlugAll) PostReadCallHeader(c erpc.ReadCtx) *erpc.Status {
	return p.hit("PostReadCallHeader", seqOfRead(c))
}
func (p *PlugAll) PreReadCallBody(c erpc.ReadCtx) *erpc.Status {
	return p.hit("PreReadCallBody", seqOfRead(c))
}
func (p *PlugAll) PostReadCallBody(c erpc.ReadCtx) *erpc.Status {
	return p.hit("PostReadCallBody", seqOfRead(c))
}
func (p *PlugAll) PostReadPushHeader(c erpc.ReadCtx) *erpc.Status {
	return p.hit("PostReadPushHeader", seqOfRead(c))
}
func (p *PlugAll) PreReadPushBody(c erpc.ReadCtx) *erpc.Status {
	return p.hit("PreReadPushBody", seqOfRead(c))
}
func (p *PlugAll) PostReadPushBody(c erpc.ReadCtx) *erpc.Status {
	return p.hit("PostReadPushBody", seqOfRead(c))
}
func (p *PlugAll) PostReadReplyHeader(c erpc.ReadCtx) *erpc.Status {
	return p.hit("PostReadReplyHeader", seqOfRead(c))
}
func (p *PlugAll) PreReadReplyBody(c erpc.ReadCtx) *erpc.Status {
	return p.hit("PreReadReplyBody", seqOfRead(c))
}
func (p *PlugAll) PostReadReplyBody(c erpc.ReadCtx) *erpc.Status {
	return p.hit("PostReadReplyBody", seqOfRead(c))
}
func (p *PlugAll) PreWriteCall(c erpc.WriteCtx) *erpc.Status {
	return p.hit("PreWriteCall", seqOfWrite(c))
}
func (p *PlugAll) PostWriteCall(c erpc.WriteCtx) *erpc.Status {
	return p.hit("PostWriteCall", seqOfWrite(c))
}
func (p *PlugAll) PreWriteReply(c erpc.WriteCtx) *erpc.Status {
	return p.hit("PreWriteReply", seqOfWrite(c))
}
func (p *PlugAll) PostWriteReply(c erpc.WriteCtx) *erpc.Status {
	return p.hit("PostWriteReply", seqOfWrite(c))
}
func (p *PlugAll) PreWritePush(c erpc.WriteCtx) *erpc.Status {
	return p.hit("PreWritePush", seqOfWrite(c))
}
func (p *PlugAll) PostWritePush(c erpc.WriteCtx) *erpc.Status {
	return p.hit("PostWritePush", seqOfWrite(c))
}

func (p *PlugHdr) PreReadHeader(c erpc.PreCtx) error {
	if st := p.hit("PreReadHeader", 0); st != nil {
		return errors.New("veto at PreReadHeader")
	}
	return nil
}
func (p *PlugHdr) PostReadCallHeader(c erpc.ReadCtx) *erpc.Status {
	return p.hit("PostReadCallHeader", seqOfRead(c))
}
func (p *PlugHdr) PostReadPushHeader(c erpc.ReadCtx) *erpc.Status {
	return p.hit("PostReadPushHeader", seqOfRead(c))
}

func (p *PlugBody) PreReadCallBody(c erpc.ReadCtx) *erpc.Status {
	return p.hit("PreReadCallBody", seqOfRead(c))
}
func (p *PlugBody) PostReadCallBody(c erpc.ReadCtx) *erpc.Status {
	return p.hit("PostReadCallBody", seqOfRead(c))
}
func (p *PlugBody) PreReadPushBody(c erpc.ReadCtx) *erpc.Status {
	return p.hit("PreReadPushBody", seqOfRead(c))
}
func (p *PlugBody) PostReadPushBody(c erpc.ReadCtx) *erpc.Status {
	return p.hit("PostReadPushBody", seqOfRead(c))
}
func (p *PlugBody) PreWriteReply(c erpc.WriteCtx) *erpc.Status {
	return p.hit("PreWriteReply", seqOfWrite(c))
}
func (p *PlugBody) PostWriteReply(c erpc.WriteCtx) *erpc.Status {
	return p.hit("PostWriteReply", seqOfWrite(c))
}

// RawFrame is a frame of the default (raw) protocol parsed from captured bytes.
type RawFrame struct {
	Mtype byte
	Seq   string
	Size  int
	Pipe  []byte
}

// ParseRawFrames parses back-to-back frames of the raw protocol (no transfer
// pipe expected) from a captured byte stream; independent of the repository's
// own decoder.
func ParseRawFrames(b []byte) (frames []RawFrame, rest int) {
	for len(b) >= 4 {
		n := int(b[0])<<24 | int(b[1])<<16 | int(b[2])<<8 | int(b[3])
		if n < 5 || n > len(b) {
			break
		}
		f := b[:n]
		b = b[n:]
		// f[4] transfer pipe length, then the pipe ids
		pl := int(f[4])
		p := 5 + pl
		if p >= len(f) || 5+pl > len(f) {
			frames = append(frames, RawFrame{Size: n})
			continue
		}
		if pl > 0 {
			// payload is transformed: header not readable
			frames = append(frames, RawFrame{Size: n, Mtype: 255, Pipe: append([]byte(nil), f[5:5+pl]...)})
			continue
		}
		sl := int(f[p])
		p++
		if p+sl >= len(f) {
			frames = append(frames, RawFrame{Size: n})
			continue
		}
		seq := string(f[p : p+sl])
		p += sl
		frames = append(frames, RawFrame{Mtype: f[p], Seq: seq, Size: n})
	}
	return frames, len(b)
}
