package vh

import (
	"bufio"
	"bytes"
	"encoding/json"
	"flag"
	"fmt"
	"io"
	"math/rand"
	"os"
	"time"

	erpc "github.com/henrylee2cn/erpc/v6"
	"github.com/henrylee2cn/erpc/v6/socket"
	"github.com/henrylee2cn/erpc/v6/xfer"
	"github.com/henrylee2cn/erpc/v6/xfer/gzip"
)

func init() {
	Drivers["data"] = drvData
	gzip.Reg('G', "gzip-9", 9)
}

// DataCase is one abstract case exported by a generator specification
// (Xfer.tla, Wire.tla, Codec.tla, Pool.tla, Hostile.tla).
type DataCase map[string]interface{}

func (c DataCase) S(k string) string {
	s, _ := c[k].(string)
	return s
}
func (c DataCase) I(k string) int {
	f, _ := c[k].(float64)
	return int(f)
}

type dataRun struct {
	rec  *Rec
	rnd  *rand.Rand
	seed int64
}

func drvData(args []string) int {
	fs := flag.NewFlagSet("data", flag.ExitOnError)
	in := fs.String("in", "", "case file (ndjson)")
	out := fs.String("out", "", "trace file (ndjson)")
	seed := fs.Int64("seed", 1, "seed for concretisation")
	fs.Parse(args)
	rec, err := NewRec(*out)
	if err != nil {
		fmt.Fprintln(os.Stderr, err)
		return 2
	}
	defer rec.Close()
	f, err := os.Open(*in)
	if err != nil {
		fmt.Fprintln(os.Stderr, err)
		return 2
	}
	defer f.Close()
	rd := bufio.NewReaderSize(f, 1<<20)
	d := &dataRun{rec: rec, seed: *seed}
	n := 0
	rec.SetTrace("data", map[string]interface{}{"mode": "data"})
	for {
		line, err := rd.ReadBytes('\n')
		if len(line) > 1 {
			var c DataCase
			if e := json.Unmarshal(line, &c); e != nil {
				fmt.Fprintln(os.Stderr, "bad case:", e)
				return 2
			}
			n++
			d.rnd = rand.New(rand.NewSource(*seed*1000003 + int64(n)))
			rec.SetTrace(fmt.Sprintf("c%d", n), map[string]interface{}{"mode": "data"})
			d.runCase(n, c)
		}
		if err != nil {
			break
		}
	}
	rec.Flush()
	return 0
}

// runCase executes one case; a panic escaping the code under test is recorded as such.
func (d *dataRun) runCase(n int, c DataCase) {
	out := map[string]interface{}{}
	escaped := ""
	func() {
		defer func() {
			if p := recover(); p != nil {
				escaped = fmt.Sprint(p)
			}
		}()
		switch c.S("fam") {
		case "xfer":
			d.xferCase(c, out)
		case "wire":
			d.wireCase(c, out)
		case "codec":
			d.codecCase(c, out)
		case "pool":
			d.poolCase(c, out)
		case "hostile":
			d.hostileCase(c, out)
		default:
			out["err"] = "unknown family"
		}
	}()
	kv := []interface{}{"n", n, "case", map[string]interface{}(c), "fam", c.S("fam"), "expect", c.S("expect"), "escaped", escaped != "", "panic", escaped}
	// defaults so that every rule can be evaluated
	for k, v := range map[string]interface{}{"err": "", "equal": false, "undetected": 0, "tried": 0, "samepipe": false,
		"alive": true, "boundok": true, "stateok": true, "controlok": true} {
		if _, ok := out[k]; !ok {
			out[k] = v
		}
	}
	for k, v := range out {
		kv = append(kv, k, v)
	}
	d.rec.Emit("Case", kv...)
}

func (d *dataRun) payload(class string, printable bool) []byte {
	mk := func(n int) []byte {
		b := make([]byte, n)
		d.rnd.Read(b)
		if printable {
			const al = "abcdefghijklmnopqrstuvwxyzABCDEFGHIJKLMNOPQRSTUVWXYZ0123456789 .,;:-_/()[]{}<>!?#@$^*~|'`"
			for i := range b {
				b[i] = al[int(b[i])%len(al)]
			}
		}
		return b
	}
	switch class {
	case "empty":
		return []byte{}
	case "b1":
		return mk(1)
	case "zeros4k":
		if printable {
			return bytes.Repeat([]byte{'0'}, 4096)
		}
		return make([]byte, 4096)
	case "rand200":
		return mk(200)
	case "rand4k":
		return mk(4096)
	case "rand1m":
		return mk(1 << 20)
	}
	return mk(16)
}

func pipeIDs(s string) []byte {
	ids := []byte(s)
	for i := range ids {
		if ids[i] == '?' {
			ids[i] = 0xEE // not registered
		}
	}
	return ids
}

// rwBuf is the IOWithReadBuffer a protocol packs into / unpacks from.
type rwBuf struct {
	r io.Reader
	w *bytes.Buffer
}

func (b *rwBuf) Read(p []byte) (int, error)  { return b.r.Read(p) }
func (b *rwBuf) Write(p []byte) (int, error) { return b.w.Write(p) }

// chunkReader delivers a byte stream in chunks of the given sizes (cycled).
type chunkReader struct {
	b     []byte
	sizes []int
	i     int
}

func (c *chunkReader) Read(p []byte) (int, error) {
	if len(c.b) == 0 {
		return 0, io.EOF
	}
	n := len(p)
	if len(c.sizes) > 0 {
		s := c.sizes[c.i%len(c.sizes)]
		c.i++
		if s < n {
			n = s
		}
	}
	if n > len(c.b) {
		n = len(c.b)
	}
	copy(p, c.b[:n])
	c.b = c.b[n:]
	return n, nil
}

func (d *dataRun) xferCase(c DataCase, out map[string]interface{}) {
	ids := pipeIDs(c.S("pipe"))
	proto := c.S("proto")
	pl := d.payload(c.S("payload"), proto == "json" || c.S("kind") == "replypipe")
	switch c.S("kind") {
	case "direct":
		p := xfer.NewXferPipe()
		if err := p.Append(ids...); err != nil {
			out["err"] = err.Error()
			return
		}
		in := append(make([]byte, 0, len(pl)), pl...)
		packed, err := p.OnPack(in)
		if err != nil {
			out["err"] = "pack: " + err.Error()
			return
		}
		un, err := p.OnUnpack(append([]byte(nil), packed...))
		if err != nil {
			out["err"] = "unpack: " + err.Error()
			return
		}
		out["equal"] = bytes.Equal(un, pl)
		out["packedlen"] = len(packed)
	case "corrupt":
		p := xfer.NewXferPipe()
		if err := p.Append(ids...); err != nil {
			out["err"] = err.Error()
			return
		}
		packed, err := p.OnPack(append(make([]byte, 0, len(pl)), pl...))
		if err != nil {
			out["err"] = "pack: " + err.Error()
			return
		}
		tried, undet := 0, 0
		first := -1
		for pos := 0; pos < len(packed); pos++ {
			for _, mask := range []byte{0x01, 0x80, 0xFF} {
				cp := append([]byte(nil), packed...)
				cp[pos] ^= mask
				tried++
				if _, err := p.OnUnpack(cp); err == nil {
					undet++
					if first < 0 {
						first = pos
					}
				}
			}
		}
		// truncations and extensions are alterations too
		for _, alt := range [][]byte{packed[:len(packed)-1], append(append([]byte(nil), packed...), 0)} {
			tried++
			if _, err := p.OnUnpack(append([]byte(nil), alt...)); err == nil {
				undet++
			}
		}
		out["tried"], out["undetected"], out["firstundetected"] = tried, undet, first
	case "wire", "wireunreg":
		pf := ProtoFuncByName(proto)
		m := socket.NewMessage()
		m.SetSeq(7)
		m.SetMtype(erpc.TypeCall)
		m.SetServiceMethod("/a/b")
		m.SetBodyCodec('j')
		m.SetBody(append([]byte(nil), pl...))
		if err := m.XferPipe().Append(ids...); err != nil {
			out["err"] = err.Error()
			return
		}
		var w bytes.Buffer
		if err := pf(&rwBuf{r: bytes.NewReader(nil), w: &w}).Pack(m); err != nil {
			out["err"] = "pack: " + err.Error()
			return
		}
		frame := w.Bytes()
		if c.S("kind") == "wireunreg" {
			// raw and json framing: 4 bytes size, 1 byte pipe length, pipe ids
			if len(frame) < 6 || frame[4] != 1 {
				out["err"] = ""
				out["equal"] = false
				return
			}
			frame = append([]byte(nil), frame...)
			frame[5] = 0xEE
		}
		got := socket.NewMessage(socket.WithNewBody(func(socket.Header) interface{} { return new([]byte) }))
		err := pf(&rwBuf{r: &chunkReader{b: frame, sizes: []int{7, 1, 64}}, w: &bytes.Buffer{}}).Unpack(got)
		if err != nil {
			out["err"] = "unpack: " + err.Error()
			return
		}
		gb, _ := got.Body().(*[]byte)
		out["equal"] = gb != nil && bytes.Equal(*gb, pl) && bytes.Equal(got.XferPipe().IDs(), ids)
	case "wireunregplain":
		// pack with the registered filters of the pipe only, then name the whole pipe in the frame header
		// (raw and json framing: 4 bytes size, 1 byte pipe length, pipe ids, payload)
		pf := ProtoFuncByName(proto)
		var real []byte
		for _, id := range ids {
			if id != 0xEE {
				real = append(real, id)
			}
		}
		m := socket.NewMessage()
		m.SetSeq(7)
		m.SetMtype(erpc.TypeCall)
		m.SetServiceMethod("/a/b")
		m.SetBodyCodec('j')
		m.SetBody(append([]byte(nil), pl...))
		if err := m.XferPipe().Append(real...); err != nil {
			out["err"] = ""
			out["note"] = "setup: " + err.Error()
			return
		}
		var w bytes.Buffer
		if err := pf(&rwBuf{r: bytes.NewReader(nil), w: &w}).Pack(m); err != nil {
			out["err"] = ""
			out["note"] = "setup pack: " + err.Error()
			return
		}
		f := w.Bytes()
		if len(f) < 5+len(real) || int(f[4]) != len(real) {
			out["err"] = ""
			out["note"] = "unexpected framing"
			return
		}
		payload := f[5+len(real):]
		size := uint32(len(f) - len(real) + len(ids))
		if proto == "json" {
			size -= 4 // the json protocol's size field does not count itself
		}
		frame := []byte{byte(size >> 24), byte(size >> 16), byte(size >> 8), byte(size), byte(len(ids))}
		frame = append(append(frame, ids...), payload...)
		got := socket.NewMessage(socket.WithNewBody(func(socket.Header) interface{} { return new([]byte) }))
		err := pf(&rwBuf{r: &chunkReader{b: frame, sizes: []int{64}}, w: &bytes.Buffer{}}).Unpack(got)
		if err != nil {
			out["err"] = "unpack: " + err.Error()
			return
		}
		out["err"] = ""
		gb, _ := got.Body().(*[]byte)
		out["accepted"] = true
		out["learned"] = string(got.XferPipe().IDs())
		out["equal"] = gb != nil && bytes.Equal(*gb, pl)
	case "replypipe":
		d.replyPipe(c, ids, pl, out)
	}
}

// CTE is a handler that fails with a status of its own: /cte/fail.
type CTE struct{ erpc.CallCtx }

// Fail returns the handler's own error status.
func (c *CTE) Fail(arg *Arg) (*Res, *erpc.Status) { return nil, erpc.NewStatus(1001, "hmsg", "hcause") }

func (d *dataRun) replyPipe(c DataCase, ids, pl []byte, out map[string]interface{}) {
	pf := ProtoFuncByName(c.S("proto"))
	srv := erpc.NewPeer(erpc.PeerConfig{DefaultBodyCodec: "json"})
	cli := erpc.NewPeer(erpc.PeerConfig{DefaultBodyCodec: "json"})
	curCorr = &corrApp{rec: d.rec}
	corrRoutes(srv)
	srv.RouteCall(new(CTE))
	defer func() {
		done := make(chan struct{})
		go func() { cli.Close(); srv.Close(); close(done) }()
		select {
		case <-done:
		case <-time.After(time.Second):
		}
	}()
	a, b := Pipe(fmt.Sprintf("RC%d", d.rnd.Int31()), fmt.Sprintf("RS%d", d.rnd.Int31()))
	a.Tap()
	sd := make(chan struct{})
	go func() { srv.ServeConn(b, pf); close(sd) }()
	cs, st := cli.ServeConn(a, pf)
	<-sd
	if !st.OK() {
		out["err"] = "setup"
		return
	}
	res := new(Res)
	settings := MetaFor("rp")
	if len(ids) > 0 {
		settings = append(settings, erpc.WithXferPipe(ids...))
	}
	route, wantCode := "/ct/call", int32(0)
	var arg interface{} = &Arg{Tag: "rp", Pad: string(pl)}
	switch c.S("outcome") {
	case "herr":
		route, wantCode = "/cte/fail", 1001
	case "nf":
		route, wantCode = "/ct/nothere", erpc.CodeNotFound
	case "baddec":
		arg, wantCode = []byte(`{"tag":12345,"pad":[1]}`), erpc.CodeBadMessage
		settings = append(settings, erpc.WithBodyCodec('j'))
	}
	var cmd erpc.CallCmd
	cd := make(chan erpc.CallCmd, 1)
	go func() { cd <- cs.Call(route, arg, res, settings...) }()
	select {
	case cmd = <-cd:
	case <-time.After(5 * time.Second):
		out["err"] = "the call did not complete within 5 s"
		return
	}
	if wantCode == 0 {
		if !cmd.StatusOK() {
			out["err"] = cmd.Status().String()
			return
		}
		out["equal"] = res.Tag == F("rp") && res.Pad == string(pl)
	} else {
		out["equal"] = cmd.Status().Code() == wantCode
		out["status"] = cmd.Status().String()
	}
	time.Sleep(time.Millisecond)
	_, inb := a.Tapped()
	frames, _ := ParseRawFrames(inb)
	out["samepipe"] = len(frames) == 1 && bytes.Equal(frames[0].Pipe, ids)
	out["replyframes"] = len(frames)
}
