package vh

import (
	"fmt"

	"git.apache.org/thrift.git/lib/go/thrift"
)

// ThriftDoc is a hand-written thrift struct {1: string author, 2: list<i64> nums, 3: binary blob}
// used as a non-trivial value of the thrift body codec.
type ThriftDoc struct {
	Author string
	Nums   []int64
	Blob   []byte
}

// Read implements thrift.TStruct.
func (p *ThriftDoc) Read(iprot thrift.TProtocol) error {
	if _, err := iprot.ReadStructBegin(); err != nil {
		return fmt.Errorf("%T read error: %s", p, err)
	}
	for {
		_, ft, id, err := iprot.ReadFieldBegin()
		if err != nil {
			return fmt.Errorf("%T field %d read error: %s", p, id, err)
		}
		if ft == thrift.STOP {
			break
		}
		switch {
		case id == 1 && ft == thrift.STRING:
			v, err := iprot.ReadString()
			if err != nil {
				return err
			}
			p.Author = v
		case id == 2 && ft == thrift.LIST:
			_, n, err := iprot.ReadListBegin()
			if err != nil {
				return err
			}
			if n < 0 || n > 1<<20 {
				return fmt.Errorf("bad list size %d", n)
			}
			p.Nums = make([]int64, 0, n)
			for i := 0; i < n; i++ {
				v, err := iprot.ReadI64()
				if err != nil {
					return err
				}
				p.Nums = append(p.Nums, v)
			}
			if err := iprot.ReadListEnd(); err != nil {
				return err
			}
		case id == 3 && ft == thrift.STRING:
			v, err := iprot.ReadBinary()
			if err != nil {
				return err
			}
			p.Blob = v
		default:
			if err := iprot.Skip(ft); err != nil {
				return err
			}
		}
		if err := iprot.ReadFieldEnd(); err != nil {
			return err
		}
	}
	return iprot.ReadStructEnd()
}

// Write implements thrift.TStruct.
func (p *ThriftDoc) Write(oprot thrift.TProtocol) error {
	if err := oprot.WriteStructBegin("ThriftDoc"); err != nil {
		return err
	}
	if err := oprot.WriteFieldBegin("author", thrift.STRING, 1); err != nil {
		return err
	}
	if err := oprot.WriteString(p.Author); err != nil {
		return err
	}
	if err := oprot.WriteFieldEnd(); err != nil {
		return err
	}
	if err := oprot.WriteFieldBegin("nums", thrift.LIST, 2); err != nil {
		return err
	}
	if err := oprot.WriteListBegin(thrift.I64, len(p.Nums)); err != nil {
		return err
	}
	for _, v := range p.Nums {
		if err := oprot.WriteI64(v); err != nil {
			return err
		}
	}
	if err := oprot.WriteListEnd(); err != nil {
		return err
	}
	if err := oprot.WriteFieldEnd(); err != nil {
		return err
	}
	if err := oprot.WriteFieldBegin("blob", thrift.STRING, 3); err != nil {
		return err
	}
	if err := oprot.WriteBinary(p.Blob); err != nil {
		return err
	}
	if err := oprot.WriteFieldEnd(); err != nil {
		return err
	}
	if err := oprot.WriteFieldStop(); err != nil {
		return err
	}
	return oprot.WriteStructEnd()
}
