package vh

import (
	"bytes"
	"context"
	"fmt"
	"runtime"
	"strings"
	"sync"
	"time"

	erpc "github.com/henrylee2cn/erpc/v6"
	"github.com/henrylee2cn/erpc/v6/socket"
	"github.com/henrylee2cn/erpc/v6/utils"
	"github.com/henrylee2cn/erpc/v6/xfer"
	"github.com/henrylee2cn/goutil"
)

type ctxKey struct{}

func strs(v interface{}) []string {
	a, _ := v.([]interface{})
	out := make([]string, 0, len(a))
	for _, x := range a {
		s, _ := x.(string)
		out = append(out, s)
	}
	return out
}

// gateConn is a connection whose SetReadBuffer blocks until released: socket.Reset calls it (through
// TryOptimize) while it holds the socket's mutex, which lets the harness line up two Close calls.
type gateConn struct {
	*Conn
	gate    chan struct{}
	entered chan struct{}
	once    sync.Once
}

func (g *gateConn) SetReadBuffer(int) error {
	g.once.Do(func() { close(g.entered) })
	<-g.gate
	return nil
}
func (g *gateConn) SetWriteBuffer(int) error { return nil }

// concurrentClose closes a pooled socket from two goroutines that both find it open.
func concurrentClose(s socket.Socket) {
	socket.SetReadBuffer(4096) // makes Reset call SetReadBuffer on connections that have it (only gateConn here)
	cg, _ := Pipe("plg", "prg")
	g := &gateConn{Conn: cg, gate: make(chan struct{}), entered: make(chan struct{})}
	rd := make(chan struct{})
	go func() { s.Reset(g); close(rd) }()
	select {
	case <-g.entered:
	case <-time.After(time.Second):
		close(g.gate)
		<-rd
		s.Close()
		return
	}
	var wg sync.WaitGroup
	for i := 0; i < 2; i++ {
		wg.Add(1)
		go func() { defer wg.Done(); s.Close() }()
	}
	// both closers are past their first (lock-free) look at the state and wait for the mutex
	for i := 0; i < 50; i++ {
		runtime.Gosched()
	}
	time.Sleep(2 * time.Millisecond)
	close(g.gate)
	<-rd
	wg.Wait()
}

func msgObserve(m socket.Message) string {
	st := "nil"
	if s := m.Status(); s != nil {
		st = fmt.Sprintf("%d/%s", s.Code(), s.Msg())
	}
	bodyNil := m.Body() == nil
	ctxBg := m.Context() == context.Background()
	return fmt.Sprintf("seq=%d mtype=%d method=%q status=%s statusok=%v metalen=%d meta=%q bodynil=%v codec=%d pipe=%d ids=%v size=%d ctxbg=%v",
		m.Seq(), m.Mtype(), m.ServiceMethod(), st, m.StatusOK(), m.Meta().Len(), m.Meta().QueryString(), bodyNil, m.BodyCodec(),
		m.XferPipe().Len(), m.XferPipe().IDs(), m.Size(), ctxBg)
}

func msgPack(m socket.Message) string {
	m.SetSeq(5)
	m.SetMtype(1)
	m.SetServiceMethod("/x")
	var w bytes.Buffer
	err := socket.RawProtoFunc(&rwBuf{r: bytes.NewReader(nil), w: &w}).Pack(m)
	return fmt.Sprintf("%x err=%v", w.Bytes(), err)
}

func (d *dataRun) poolCase(c DataCase, out map[string]interface{}) {
	muts := strs(c["muts"])
	next := c.S("next")
	switch c.S("kind") {
	case "message":
		prev := runtime.GOMAXPROCS(1)
		defer runtime.GOMAXPROCS(prev)
		var got, want string
		recycled := false
		for try := 0; try < 5 && !recycled; try++ {
			m := socket.GetMessage()
			for _, mu := range muts {
				switch mu {
				case "seq":
					m.SetSeq(int32(100 + d.rnd.Intn(1000)))
				case "mtype":
					m.SetMtype(3)
				case "method":
					m.SetServiceMethod("/stale/" + d.rstr(4, alnum))
				case "status":
					m.SetStatus(erpc.NewStatus(777, "stale", "stale cause"))
				case "metaadd":
					m.Meta().Add("stale", d.rstr(5, alnum))
				case "metaset":
					m.Meta().Set("k", "stale-"+d.rstr(3, alnum))
				case "body":
					m.SetBody(&Arg{Tag: "stale"})
				case "newbody":
					m.SetNewBody(func(socket.Header) interface{} { return new(Arg) })
				case "codec":
					m.SetBodyCodec('j')
				case "pipe":
					m.XferPipe().Append('g')
				case "ctx":
					socket.WithContext(context.WithValue(context.Background(), ctxKey{}, 1))(m)
				case "size":
					m.SetSize(4242)
				}
			}
			socket.PutMessage(m)
			m2 := socket.GetMessage()
			recycled = m2 == m
			fresh := socket.NewMessage()
			if next == "pack" {
				got, want = msgPack(m2), msgPack(fresh)
			} else {
				got, want = msgObserve(m2), msgObserve(fresh)
				// the new-body function must be gone too
				if err := m2.UnmarshalBody([]byte(`{"tag":"x"}`)); err != nil || m2.Body() != nil {
					got += fmt.Sprintf(" newbody-left(body=%v err=%v)", m2.Body(), err)
				}
			}
		}
		out["recycled"] = recycled
		out["equal"] = got == want
		if got != want {
			out["got"], out["want"] = got, want
		}
	case "getmessage":
		prev := runtime.GOMAXPROCS(1)
		defer runtime.GOMAXPROCS(prev)
		var got, want string
		panicked := false
		for try := 0; try < 3; try++ {
			var settings []socket.MessageSetting
			for _, mu := range muts {
				switch mu {
				case "setmeta":
					settings = append(settings, socket.WithSetMeta("token", "stale-"+d.rstr(4, alnum)))
				case "method":
					settings = append(settings, socket.WithServiceMethod("/stale/"+d.rstr(4, alnum)))
				case "body":
					settings = append(settings, socket.WithBody(&Arg{Tag: "stale"}))
				case "status":
					settings = append(settings, socket.WithStatus(erpc.NewStatus(777, "stale", "stale cause")))
				case "pipeg":
					settings = append(settings, socket.WithXferPipe('g'))
				case "badpipe":
					settings = append(settings, socket.WithXferPipe(250)) // no such filter: the setting panics
				}
			}
			func() {
				// (as Session.Push / Call do: the panic of a setting is caught and reported as a bad message)
				defer func() {
					if recover() != nil {
						panicked = true
					}
				}()
				m := socket.GetMessage(settings...)
				socket.PutMessage(m)
			}()
			m2 := socket.GetMessage()
			fresh := socket.NewMessage()
			if next == "pack" {
				got, want = msgPack(m2), msgPack(fresh)
			} else {
				got, want = msgObserve(m2), msgObserve(fresh)
			}
			if got != want {
				break
			}
		}
		out["panicked"] = panicked
		out["equal"] = got == want
		if got != want {
			out["got"], out["want"] = got, want
		}
	case "args":
		prev := runtime.GOMAXPROCS(1)
		defer runtime.GOMAXPROCS(prev)
		var got, want string
		recycled := false
		for try := 0; try < 5 && !recycled; try++ {
			a := utils.AcquireArgs()
			for _, mu := range muts {
				switch mu {
				case "add":
					a.Add("k"+d.rstr(1, "abc"), "stale-"+d.rstr(4, alnum))
				case "addempty":
					a.Add("e", "")
				case "set":
					a.Set("k", "stale2-"+d.rstr(3, alnum))
				case "parse":
					a.Parse("a=stale1&b=stale2&c=stale3")
				case "parsebare":
					a.Parse("x&y=stale&z")
				case "del":
					a.Del("k")
				}
			}
			utils.ReleaseArgs(a)
			a2 := utils.AcquireArgs()
			recycled = a2 == a
			fresh := new(utils.Args)
			obs := func(x *utils.Args) string {
				switch next {
				case "parsebare":
					x.Parse("tok&x=1&flag")
				case "add":
					x.Add("n", "new")
				case "set":
					x.Set("k", "new")
				}
				var vis []string
				x.VisitAll(func(k, v []byte) { vis = append(vis, string(k)+"="+string(v)) })
				return fmt.Sprintf("len=%d qs=%q visit=%v tok=%q k=%q a=%q", x.Len(), x.QueryString(), vis, x.Peek("tok"), x.Peek("k"), x.Peek("a"))
			}
			got, want = obs(a2), obs(fresh)
		}
		out["recycled"] = recycled
		out["equal"] = got == want
		if got != want {
			out["got"], out["want"] = got, want
		}
	case "socket":
		prev := runtime.GOMAXPROCS(1)
		defer runtime.GOMAXPROCS(prev)
		var got, want string
		recycled := false
		for try := 0; try < 5 && !recycled; try++ {
			c1, _ := Pipe("pl1", "pr1")
			s := socket.GetSocket(c1)
			for _, mu := range muts {
				switch mu {
				case "setid":
					s.SetID("stale-id")
				case "swapstore":
					s.Swap().Store("stale", 1)
				case "swapreplace":
					m := goutil.RwMap()
					m.Store("stale2", 2)
					s.Swap(m)
				}
			}
			conc := false
			for _, mu := range muts {
				conc = conc || mu == "concclose"
			}
			if conc {
				concurrentClose(s)
			} else {
				s.Close()
			}
			c2, _ := Pipe("pl2", "pr2")
			s2 := socket.GetSocket(c2)
			recycled = s2 == s
			if conc {
				// a socket that went back to the pool twice would now be handed to a second user as well
				cx, _ := Pipe("plx", "prx")
				s3 := socket.GetSocket(cx)
				if s3 == s2 {
					out["equal"] = false
					out["got"], out["want"] = "the same pooled socket handed to two users", "two different sockets"
					out["recycled"] = true
					return
				}
				defer s3.Close()
			}
			c3, _ := Pipe("pl2", "pr2")
			fresh := socket.NewSocket(c3)
			obs := func(x socket.Socket) string {
				_, stale := x.Swap().Load("stale")
				_, stale2 := x.Swap().Load("stale2")
				return fmt.Sprintf("id=%s swaplen=%d stale=%v stale2=%v remote=%s", x.ID(), x.SwapLen(), stale, stale2, x.RemoteAddr())
			}
			got, want = obs(s2), obs(fresh)
			s2.Close()
		}
		out["recycled"] = recycled
		out["equal"] = got == want
		if got != want {
			out["got"], out["want"] = got, want
		}
	case "xferpipe":
		p := xfer.NewXferPipe()
		for _, mu := range muts {
			switch mu {
			case "appendg":
				p.Append('g')
			case "appendm":
				p.Append('m')
			case "appendgm":
				p.Append('g', 'm')
			}
		}
		p.Reset()
		fresh := xfer.NewXferPipe()
		in := []byte("payload")
		o1, e1 := p.OnPack(append([]byte(nil), in...))
		o2, e2 := fresh.OnPack(append([]byte(nil), in...))
		got := fmt.Sprintf("len=%d ids=%v names=%v pack=%x err=%v", p.Len(), p.IDs(), p.Names(), o1, e1)
		want := fmt.Sprintf("len=%d ids=%v names=%v pack=%x err=%v", fresh.Len(), fresh.IDs(), fresh.Names(), o2, e2)
		out["recycled"] = true
		out["equal"] = got == want
		if got != want {
			out["got"], out["want"] = got, want
		}
	case "ctx":
		d.ctxCase(muts, next, out)
	}
}

// ---- handler contexts are recycled by running request 2 after request 1 on one session

type ctxProbe struct {
	mu   sync.Mutex
	feat map[string]bool
	obs2 string
	// the next user's operation is under way: the write hooks of the sending peer record what they see
	armed bool
	w     []string
	// contexts (by address) that a read loop of this run has held, i.e. that have been through the pool's hands
	seen map[string]bool
	// the context (by address) handed to the next user's outgoing push
	pushCtx string
	// messages taken up by the read loops of the serving peer (a push leaves no other trace when nothing handles it)
	srvReads int
}

var cprobe ctxProbe

// CX is the controller used by the pooled-context cases: /cx/one uses the features of request 1,
// /cx/two observes a (possibly recycled) context from inside the handler.
type CX struct{ erpc.CallCtx }

func ctxView(c erpc.CallCtx) string {
	var metas []string
	c.VisitMeta(func(k, v []byte) { metas = append(metas, string(k)+"="+string(v)) })
	out := c.Output()
	st := "nil"
	if s := out.Status(); s != nil {
		st = fmt.Sprintf("%d", s.Code())
	}
	_, sw := c.Swap().Load("stale")
	_, hasDl := c.Context().Deadline()
	if hasDl || c.Context().Value(ctxKey{}) != nil || c.Context().Err() != nil {
		metas = append(metas, fmt.Sprintf("stale-context(deadline=%v value=%v err=%v)", hasDl, c.Context().Value(ctxKey{}), c.Context().Err()))
	}
	return fmt.Sprintf("meta=%v swapleft=%v swaplen=%d outmeta=%q outcodec=%d outpipe=%d outstatus=%s outbodynil=%v inpipe=%d codec=%c",
		metas, sw, c.Swap().Len(), out.Meta().QueryString(), out.BodyCodec(), out.XferPipe().Len(), st, out.Body() == nil, c.Input().XferPipe().Len(), c.GetBodyCodec())
}

func (c *CX) One(arg *Arg) (*Res, *erpc.Status) {
	cprobe.mu.Lock()
	f := cprobe.feat
	cprobe.mu.Unlock()
	if f["outmeta"] {
		c.SetMeta("stale-out", "1")
		c.AddMeta("stale-out2", "2")
	}
	if f["outcodec"] {
		c.SetBodyCodec('j')
	}
	if f["swap"] {
		c.Swap().Store("stale", 1)
	}
	if f["status"] {
		return nil, erpc.NewStatus(1001, "stale status", "x")
	}
	return &Res{Tag: F(arg.Tag)}, nil
}

// Fail is a previous use that ends with the handler's error.
func (c *CX) Fail(arg *Arg) (*Res, *erpc.Status) {
	return nil, erpc.NewStatus(1002, "stale status of a failed call", "x")
}

func (c *CX) Two(arg *Arg) (*Res, *erpc.Status) {
	v := ctxView(c.CallCtx)
	cprobe.mu.Lock()
	cprobe.obs2 = v
	cprobe.mu.Unlock()
	return &Res{Tag: F(arg.Tag)}, nil
}

// CXP is the push variant: /cxp/two.
type CXP struct{ erpc.PushCtx }

func (c *CXP) Two(arg *Arg) *erpc.Status {
	var metas []string
	c.VisitMeta(func(k, v []byte) { metas = append(metas, string(k)+"="+string(v)) })
	_, sw := c.Swap().Load("stale")
	cprobe.mu.Lock()
	cprobe.obs2 = fmt.Sprintf("meta=%v swapleft=%v swaplen=%d codec=%c", metas, sw, c.Swap().Len(), c.GetBodyCodec())
	cprobe.mu.Unlock()
	return nil
}

// Fail is a previous use that ends with the push handler's error.
func (c *CXP) Fail(arg *Arg) *erpc.Status {
	return erpc.NewStatus(1003, "stale status of a failed push", "x")
}

// wctxView is everything a write hook can see through the WriteCtx it is given (the sequence number and the size of the
// written frame depend on how many messages the session has sent and are left out).
func wctxView(c erpc.WriteCtx) string {
	st := "nil"
	if s := c.Status(); s != nil {
		st = fmt.Sprintf("%d", s.Code())
	}
	o := c.Output()
	ost := "nil"
	if s := o.Status(); s != nil {
		ost = fmt.Sprintf("%d", s.Code())
	}
	_, sw := c.Swap().Load("stale")
	return fmt.Sprintf("status=%s statusok=%v swaplen=%d swapleft=%v out(mtype=%d method=%q status=%s statusok=%v meta=%q bodynil=%v codec=%d pipe=%d ctxbg=%v)",
		st, c.StatusOK(), c.Swap().Len(), sw, o.Mtype(), o.ServiceMethod(), ost, o.StatusOK(), o.Meta().QueryString(), o.Body() == nil, o.BodyCodec(),
		o.XferPipe().Len(), o.Context() == context.Background())
}

// ctxWatch is a plugin of both peers of the pooled-context cases. It changes nothing: its write hooks record what
// they are shown while the next user's operation is under way (sending side only), its pre-read hook notes which
// contexts the read loops take from the pool.
type ctxWatch struct{ sending bool }

func (w *ctxWatch) Name() string { return "verif-ctxwatch" }
func (w *ctxWatch) hook(name string, c erpc.WriteCtx) *erpc.Status {
	cprobe.mu.Lock()
	defer cprobe.mu.Unlock()
	if !w.sending || !cprobe.armed {
		return nil
	}
	cprobe.w = append(cprobe.w, name+":"+wctxView(c))
	if name == "PreWritePush" {
		cprobe.pushCtx = fmt.Sprintf("%p", c)
	}
	return nil
}
func (w *ctxWatch) PreWriteCall(c erpc.WriteCtx) *erpc.Status  { return w.hook("PreWriteCall", c) }
func (w *ctxWatch) PostWriteCall(c erpc.WriteCtx) *erpc.Status { return w.hook("PostWriteCall", c) }
func (w *ctxWatch) PreWritePush(c erpc.WriteCtx) *erpc.Status  { return w.hook("PreWritePush", c) }
func (w *ctxWatch) PostWritePush(c erpc.WriteCtx) *erpc.Status { return w.hook("PostWritePush", c) }
func (w *ctxWatch) PreReadHeader(c erpc.PreCtx) error {
	cprobe.mu.Lock()
	if cprobe.seen != nil {
		cprobe.seen[fmt.Sprintf("%p", c)] = true
	}
	if !w.sending {
		cprobe.srvReads++
	}
	cprobe.mu.Unlock()
	return nil
}

// ctxBadOps are the previous uses that end not OK (spec/Pool.tla CtxBad).
var ctxBadOps = map[string]bool{"callerr": true, "callnotfound": true, "callbadbody": true, "pusherr": true, "pushnotfound": true, "badmtype": true}

func (d *dataRun) ctxCase(feats []string, next string, out map[string]interface{}) {
	prev := runtime.GOMAXPROCS(1)
	defer runtime.GOMAXPROCS(prev)
	f := map[string]bool{}
	for _, x := range feats {
		f[x] = true
	}
	var bad []string
	for _, x := range feats {
		if ctxBadOps[x] {
			bad = append(bad, x)
		}
	}
	recycledPush := false
	// everything the previous operation set going has come to rest (its contexts are back in the pool)
	settle := func() {
		for i := 0; i < 20; i++ {
			runtime.Gosched()
		}
		time.Sleep(500 * time.Microsecond)
	}
	run := func(withFirst bool) (string, string) {
		// the pool is emptied first (the read loops of earlier sessions have returned their contexts by now; two
		// collections drop what a sync.Pool holds): every context this run meets is either constructed for it or has
		// been used by it, and the reference run works on freshly constructed contexts only
		settle()
		runtime.GC()
		runtime.GC()
		srv := erpc.NewPeer(erpc.PeerConfig{}, &ctxWatch{})
		cli := erpc.NewPeer(erpc.PeerConfig{}, &ctxWatch{sending: true})
		srv.RouteCall(new(CX))
		srv.RoutePush(new(CXP))
		cli.RouteCall(new(CX))
		defer func() {
			done := make(chan struct{})
			go func() { cli.Close(); srv.Close(); close(done) }()
			select {
			case <-done:
			case <-time.After(time.Second):
			}
		}()
		n := d.rnd.Int31()
		cs, ss, ca, _ := connectPeers(cli, srv, fmt.Sprintf("XC%d", n), fmt.Sprintf("XS%d", n))
		cprobe.mu.Lock()
		cprobe.feat, cprobe.obs2 = f, ""
		cprobe.armed, cprobe.w, cprobe.seen, cprobe.pushCtx, cprobe.srvReads = false, nil, map[string]bool{}, "", 0
		cprobe.mu.Unlock()
		if withFirst {
			var st []erpc.MessageSetting
			if f["meta"] {
				st = append(st, erpc.WithAddMeta("stale-in", "1"), erpc.WithAddMeta("stale-in2", ""))
			}
			if f["pipe"] {
				st = append(st, erpc.WithXferPipe('g'))
			}
			if f["codec"] {
				st = append(st, erpc.WithBodyCodec('x'))
			}
			setAge := func(dur time.Duration) {
				if x, ok := ss.(interface{ SetContextAge(time.Duration) }); ok {
					x.SetContextAge(dur)
				}
			}
			if f["ctxage"] {
				setAge(time.Hour)
			}
			cs.Call("/cx/one", &Arg{Tag: "one"}, new(Res), st...)
			if f["ctxage"] {
				setAge(0)
			}
			if f["callctx"] {
				// the server calls the client with a context of its own: a pooled context of the process handles the reply
				cctx, cancel := context.WithCancel(context.WithValue(context.Background(), ctxKey{}, "stale-ctx"))
				ss.Call("/cx/two", &Arg{Tag: "rev"}, new(Res), erpc.WithContext(cctx))
				cancel()
				cprobe.mu.Lock()
				cprobe.obs2 = ""
				cprobe.mu.Unlock()
			}
			// previous uses that end not OK, in the order given
			for _, op := range bad {
				cprobe.mu.Lock()
				reads := cprobe.srvReads
				cprobe.mu.Unlock()
				// (a push is handled behind the sender's back: it has been taken up once the serving read loop asks for the next message)
				pushed := func() {
					WaitUntil(200*time.Millisecond, func() bool { cprobe.mu.Lock(); defer cprobe.mu.Unlock(); return cprobe.srvReads > reads })
				}
				switch op {
				case "callerr":
					cs.Call("/cx/fail", &Arg{Tag: "bad"}, new(Res))
				case "callnotfound":
					cs.Call("/cx/nosuch", &Arg{Tag: "bad"}, new(Res))
				case "callbadbody":
					cs.Call("/cx/one", "not an object", new(Res), erpc.WithBodyCodec('j'))
				case "pusherr":
					cs.Push("/cxp/fail", &Arg{Tag: "bad"})
					pushed()
				case "pushnotfound":
					cs.Push("/cxp/nosuch", &Arg{Tag: "bad"})
					pushed()
				case "badmtype":
					// a well-formed frame of a type no session serves, written straight onto the connection: the serving session
					// ends; the next user works on a new session of the same two peers
					ca.Write(packFrame(9, 77, "/cx/one", &Arg{Tag: "bad"}, nil))
					WaitUntil(time.Second, func() bool {
						select {
						case <-ss.CloseNotify():
							return true
						default:
							return false
						}
					})
					settle()
					n2 := d.rnd.Int31()
					cs, ss, ca, _ = connectPeers(cli, srv, fmt.Sprintf("XC%d", n2), fmt.Sprintf("XS%d", n2))
				}
				settle()
			}
			cprobe.mu.Lock()
			cprobe.obs2 = ""
			cprobe.mu.Unlock()
		}
		cprobe.mu.Lock()
		cprobe.armed = true
		cprobe.mu.Unlock()
		reply := ""
		if next == "call" {
			res := new(Res)
			cmd := cs.Call("/cx/two", &Arg{Tag: "two"}, res)
			var rm []string
			if m := cmd.InputMeta(); m != nil {
				m.VisitAll(func(k, v []byte) { rm = append(rm, string(k)+"="+string(v)) })
			}
			reply = fmt.Sprintf("status=%s res=%s rmeta=%v rcodec=%c", statStr(cmd.Status()), res.Tag, rm, cmd.InputBodyCodec())
		} else {
			cs.Push("/cxp/two", &Arg{Tag: "two"})
			WaitUntil(50*time.Millisecond, func() bool { cprobe.mu.Lock(); defer cprobe.mu.Unlock(); return cprobe.obs2 != "" })
		}
		settle() // (every hook of the operation has run, its contexts are back in the pool)
		cprobe.mu.Lock()
		defer cprobe.mu.Unlock()
		cprobe.armed = false
		// what the sending side's write hooks saw is part of the observation
		reply += " whooks=" + strings.Join(cprobe.w, "; ")
		if withFirst && cprobe.seen[cprobe.pushCtx] {
			recycledPush = true
		}
		return cprobe.obs2, reply
	}
	o1, r1 := run(true)
	// an outgoing push after previous uses that ended not OK is meant to get a context that one of them used (checked by
	// the context's address); should the pool have handed out another one, the recycled run is repeated
	for try := 0; try < 3 && next == "push" && len(bad) > 0 && !recycledPush; try++ {
		o1, r1 = run(true)
	}
	o2, r2 := run(false)
	out["recycled"] = true
	if next == "push" && len(bad) > 0 {
		out["recycled"] = recycledPush
	}
	out["equal"] = o1 == o2 && r1 == r2 && !strings.Contains(o1, "stale") && !strings.Contains(r1, "stale")
	if o1 != o2 || r1 != r2 {
		out["got"], out["want"] = o1+" | "+r1, o2+" | "+r2
	}
}
