package vh

import (
	"bufio"
	"encoding/json"
	"flag"
	"fmt"
	"io"
	"net"
	"os"
	"sync"
	"sync/atomic"
	"time"

	erpc "github.com/henrylee2cn/erpc/v6"
)

func init() { Drivers["redial"] = drvRedial }

// RedialScenario is one history exported by spec/Redial.tla.
type RedialScenario struct {
	ID    string `json:"id"`
	Steps []struct {
		Op     string `json:"op"`
		Expect string `json:"expect"`
		Budget int    `json:"budget"`
	} `json:"steps"`
}

// forwarder accepts TCP connections on a fixed loopback port and serves each of them on the server
// peer through an in-memory connection; it can refuse new connections and cut the existing ones.
type forwarder struct {
	srv   erpc.Peer
	addr  string
	mu    sync.Mutex
	lis   net.Listener
	conns map[net.Conn]*Conn
	n     int64
	tap   bool    // record the bytes of every connection
	all   []*Conn // every connection ever accepted (when tap is set)
}

// tapped returns everything the clients sent and received through the forwarder so far.
func (f *forwarder) tapped() (out, in []byte) {
	f.mu.Lock()
	defer f.mu.Unlock()
	for _, a := range f.all {
		o, i := a.Tapped()
		out, in = append(out, o...), append(in, i...)
	}
	return
}

var fwSeq int64

func newForwarder(srv erpc.Peer) (*forwarder, error) {
	f := &forwarder{srv: srv, conns: map[net.Conn]*Conn{}}
	l, err := LoopListen()
	if err != nil {
		return nil, err
	}
	f.addr = l.Addr().String()
	f.lis = l
	go f.accept(l)
	return f, nil
}

func (f *forwarder) accept(l net.Listener) {
	for {
		c, err := l.Accept()
		if err != nil {
			return
		}
		k := atomic.AddInt64(&fwSeq, 1) // process-wide: the server peer indexes its sessions by this name
		a, b := Pipe(fmt.Sprintf("fw%d", k), c.RemoteAddr().String())
		f.mu.Lock()
		if f.lis != l {
			// the server went down while this connection was being accepted
			f.mu.Unlock()
			c.Close()
			continue
		}
		f.conns[c] = a
		if f.tap {
			a.Tap()
			f.all = append(f.all, a)
		}
		f.mu.Unlock()
		go f.srv.ServeConn(b)
		gone := func() { f.mu.Lock(); delete(f.conns, c); f.mu.Unlock() } // the map holds live connections only
		go func() { io.Copy(a, c); a.Close(); c.Close(); gone() }()
		go func() { io.Copy(c, a); c.Close(); a.Close(); gone() }()
	}
}

// waitConn waits until the forwarder has registered at least one live connection.
func (f *forwarder) waitConn(d time.Duration) bool {
	return WaitUntil(d, func() bool { f.mu.Lock(); defer f.mu.Unlock(); return len(f.conns) > 0 })
}

// waitConnOf waits until the forwarder has registered the connection that comes from the given client address (the
// connection a session uses is accepted by the kernel before the accept loop gets to see it: cutting "every connection"
// before that would miss it, and the session would rightly not notice any loss).
func (f *forwarder) waitConnOf(clientAddr string, d time.Duration) bool {
	return WaitUntil(d, func() bool {
		f.mu.Lock()
		defer f.mu.Unlock()
		for c := range f.conns {
			if c.RemoteAddr().String() == clientAddr {
				return true
			}
		}
		return false
	})
}

func (f *forwarder) isUp() bool { f.mu.Lock(); defer f.mu.Unlock(); return f.lis != nil }

func (f *forwarder) cut() {
	f.mu.Lock()
	for c, a := range f.conns {
		c.Close()
		a.Close()
		delete(f.conns, c)
	}
	f.mu.Unlock()
}

func (f *forwarder) down() {
	f.mu.Lock()
	if f.lis != nil {
		f.lis.Close()
		f.lis = nil
	}
	f.mu.Unlock()
	f.cut()
}

// refuse closes the listener (no new connections) and leaves the existing connections alone.
func (f *forwarder) refuse() {
	f.mu.Lock()
	if f.lis != nil {
		f.lis.Close()
		f.lis = nil
	}
	f.mu.Unlock()
}

func (f *forwarder) up() error {
	f.mu.Lock()
	defer f.mu.Unlock()
	if f.lis != nil {
		return nil
	}
	var l net.Listener
	var err error
	for i := 0; i < 50; i++ {
		l, err = net.Listen("tcp", f.addr)
		if err == nil {
			break
		}
		time.Sleep(2 * time.Millisecond)
	}
	if err != nil {
		return err
	}
	f.lis = l
	go f.accept(l)
	return nil
}

func drvRedial(args []string) int {
	fs := flag.NewFlagSet("redial", flag.ExitOnError)
	in := fs.String("in", "", "scenario file (ndjson)")
	out := fs.String("out", "", "trace file (ndjson)")
	fs.Int64("seed", 1, "")
	fs.Parse(args)
	rec, err := NewRec(*out)
	if err != nil {
		fmt.Fprintln(os.Stderr, err)
		return 2
	}
	defer rec.Close()
	f, err := os.Open(*in)
	if err != nil {
		fmt.Fprintln(os.Stderr, err)
		return 2
	}
	defer f.Close()
	rd := bufio.NewReaderSize(f, 1<<20)
	app := NewApp(rec, nil)
	CurApp = app
	erpc.VerifPoint = tornPoint // set once, before any session exists
	srv := erpc.NewPeer(erpc.PeerConfig{})
	srv.RouteCall(new(T))
	n := 0
	for {
		line, err := rd.ReadBytes('\n')
		if len(line) > 1 {
			var sc RedialScenario
			if e := json.Unmarshal(line, &sc); e != nil {
				fmt.Fprintln(os.Stderr, "bad scenario:", e)
				return 2
			}
			n++
			fw, err := newForwarder(srv) // a fresh forwarder (port) per scenario: no cross-talk between scenarios
			if err != nil {
				fmt.Fprintln(os.Stderr, "forwarder:", err)
				return 2
			}
			runRedial(rec, app, fw, &sc, n)
			fw.down()
		}
		if err != nil {
			break
		}
	}
	rec.Flush()
	return 0
}

type dialHooks struct {
	rec    *Rec
	redial int32
	over   int32
	bad    int32 // re-established connections are rejected by this hook
}

func (d *dialHooks) Name() string { return "verif-dial-hooks" }
func (d *dialHooks) PostDial(s erpc.PreSession, isRedial bool) *erpc.Status {
	if atomic.LoadInt32(&d.over) != 0 {
		return nil // the scenario is over: do not write into the next trace
	}
	if isRedial && atomic.LoadInt32(&d.bad) == 1 {
		d.rec.Emit("DialHookReject")
		return erpc.NewStatus(403, "Forbidden", "scripted rejection of the re-established connection")
	}
	if isRedial {
		atomic.AddInt32(&d.redial, 1)
	}
	// what a dial hook is there for: it configures the new connection through the PreSession it is given
	// (socket options by way of ControlFD), on the first dial and on every re-dial alike
	fdSeen := false
	s.ControlFD(func(fd uintptr) { fdSeen = fd != 0 })
	d.rec.Emit("DialHook", "redial", isRedial, "fd", fdSeen)
	return nil
}

// torn-call gate: the next call that reaches the point call.stored (registered as pending, not yet written)
// is held there until released
var (
	tornArmed   int32
	tornReached chan struct{}
	tornRelease chan struct{}
)

func tornPoint(point string, sess erpc.Session, a, b int64) {
	if point == "call.stored" && atomic.CompareAndSwapInt32(&tornArmed, 1, 0) {
		close(tornReached)
		<-tornRelease
	}
}

func runRedial(rec *Rec, app *App, fw *forwarder, sc *RedialScenario, n int) {
	budget := sc.Steps[0].Budget
	rec.SetTrace(sc.ID, map[string]interface{}{"mode": "redial", "budget": budget})
	fw.up()
	app.ClearBehav()
	rt := int32(budget)
	if budget == 99 {
		rt = -1
	}
	hooks := &dialHooks{rec: rec}
	interval := 3 * time.Millisecond
	if budget == 3 {
		interval = 100 * time.Millisecond // the blip configuration: outages of 1.5 intervals
	}
	cli := erpc.NewPeer(erpc.PeerConfig{RedialTimes: rt, RedialInterval: interval, DialTimeout: 2 * time.Second}, hooks,
		NewPlug(rec, "cli", "CL", "all", ""))
	sess, st := cli.Dial(fw.addr)
	if !st.OK() {
		// the very first dial to a listening forwarder failed (dial timeout on a loaded machine, no local port left):
		// nothing can be concluded from this run
		rec.Emit("EnvFailure", "what", "initial dial failed: "+st.String())
		return
	}
	rec.Emit("DialDone", "ok", st.OK())
	defer func() {
		// make sure nothing keeps redialing for ever
		atomic.StoreInt32(&hooks.over, 1)
		fw.up()
		done := make(chan struct{})
		go func() { cli.Close(); close(done) }()
		select {
		case <-done:
		case <-time.After(2 * time.Second):
		}
		fw.cut()
		rec.Flush()
	}()
	userID := ""
	losses := 0
	srvUp := true
	type inflightT struct {
		done chan erpc.CallCmd
		res  *Res
		hold chan struct{}
		tag  string
	}
	var inf *inflightT
	call := func(tag string, expect string) {
		res := new(Res)
		done := make(chan erpc.CallCmd, 1)
		go func() { done <- sess.Call(CallRoute, &Arg{Tag: tag}, res) }()
		select {
		case cmd := <-done:
			rec.Emit("CallDone", "expect", expect, "code", cmd.Status().Code(), "msg", cmd.Status().Msg(), "resok", res.Tag == F(tag))
		case <-time.After(4 * time.Second):
			rec.Emit("CallHang", "expect", expect)
		}
	}
	// after a fault the client must notice it by itself (its reader sees the loss): wait for the first sign
	var hooksBefore int32
	var wasOk bool
	preLoss := func() {
		hooksBefore = atomic.LoadInt32(&hooks.redial)
		wasOk = erpc.VerifStatus(sess) == 1
	}
	detectLoss := func() {
		before := hooksBefore
		if !wasOk {
			return
		}
		if !WaitUntil(time.Second, func() bool {
			return erpc.VerifStatus(sess) != 1 || atomic.LoadInt32(&hooks.redial) != before
		}) {
			rec.Emit("LossUndetected")
		}
	}
	for i, stp := range sc.Steps[1:] {
		tag := fmt.Sprintf("%s.%d", sc.ID, i)
		switch stp.Op {
		case "call":
			call(tag, stp.Expect)
			if !srvUp {
				// the model takes "a call while the server is unreachable" as one step that uses up the round of
				// attempts: let that round finish before the server may come back (bounded; the probes judge the result)
				WaitUntil(time.Second, func() bool {
					select {
					case <-sess.CloseNotify():
						return true
					default:
						return false
					}
				})
			}
		case "calltorn":
			// the call is registered as pending, then the connection is lost and the reader notices, then the call goes on
			tornReached, tornRelease = make(chan struct{}), make(chan struct{})
			atomic.StoreInt32(&tornArmed, 1)
			res := new(Res)
			done := make(chan erpc.CallCmd, 1)
			go func() { done <- sess.Call(CallRoute, &Arg{Tag: tag}, res) }()
			select {
			case <-tornReached:
				losses++
				fw.waitConnOf(sess.LocalAddr().String(), 500*time.Millisecond)
				preLoss()
				fw.cut()
				detectLoss()
				time.Sleep(5 * time.Millisecond)
			case <-time.After(time.Second):
				atomic.StoreInt32(&tornArmed, 0)
			}
			select {
			case <-tornRelease:
			default:
				close(tornRelease)
			}
			select {
			case cmd := <-done:
				rec.Emit("CallDone", "expect", stp.Expect, "code", cmd.Status().Code(), "msg", cmd.Status().Msg(), "resok", res.Tag == F(tag), "torn", true)
			case <-time.After(4 * time.Second):
				rec.Emit("CallHang", "expect", stp.Expect, "torn", true)
			}
		case "calllong":
			hold := make(chan struct{})
			ent := make(chan struct{})
			app.SetBehav(tag, &Behav{Hold: hold, Entered: ent})
			inf = &inflightT{done: make(chan erpc.CallCmd, 1), res: new(Res), hold: hold, tag: tag}
			go func(x *inflightT) { x.done <- sess.Call(CallRoute, &Arg{Tag: x.tag}, x.res) }(inf)
			select {
			case <-ent:
			case <-time.After(2 * time.Second):
			}
		case "collect":
			if inf != nil {
				// after a fault the call must already complete by itself; otherwise let the handler reply
				if stp.Expect == "ok" {
					releaseHold(&Behav{Hold: inf.hold})
				}
				select {
				case cmd := <-inf.done:
					rec.Emit("CallDone", "expect", stp.Expect, "code", cmd.Status().Code(), "msg", cmd.Status().Msg(), "resok", inf.res.Tag == F(inf.tag), "inflight", true)
				case <-time.After(4 * time.Second):
					rec.Emit("CallHang", "expect", stp.Expect, "inflight", true)
				}
				releaseHold(&Behav{Hold: inf.hold})
				inf = nil
			}
		case "cut":
			losses++
			if sess.Health() && erpc.VerifStatus(sess) == 1 {
				fw.waitConnOf(sess.LocalAddr().String(), 500*time.Millisecond) // the connection the session uses must be known to the forwarder
			}
			preLoss()
			fw.cut()
			detectLoss()
		case "down":
			srvUp = false
			losses++
			if sess.Health() && erpc.VerifStatus(sess) == 1 {
				fw.waitConnOf(sess.LocalAddr().String(), 500*time.Millisecond)
			}
			preLoss()
			fw.down()
			detectLoss()
		case "blip":
			// an outage that needs two of the three attempts: the server is back after 1.5 redial intervals
			losses++
			if sess.Health() && erpc.VerifStatus(sess) == 1 {
				fw.waitConnOf(sess.LocalAddr().String(), 500*time.Millisecond)
			}
			preLoss()
			t0 := time.Now()
			fw.down()
			detectLoss()
			if rest := interval*3/2 - time.Since(t0); rest > 0 {
				time.Sleep(rest)
			}
			fw.up()
		case "hooksbad":
			atomic.StoreInt32(&hooks.bad, 1)
			srvUp = false // as far as redials are concerned
		case "hooksok":
			atomic.StoreInt32(&hooks.bad, 0)
			srvUp = fw.isUp()
		case "up":
			srvUp = atomic.LoadInt32(&hooks.bad) == 0
			fw.up()
		case "setid":
			userID = fmt.Sprintf("user-%d", n)
			sess.SetID(userID)
		case "wait":
			// quiescence: healthy again, or ended; bounded by a complete round of attempts
			// (healthy means healthy and staying so: right after a loss the previous read loop and a caller may both
			//  redial, and the session can be up, down and up again within a few milliseconds)
			stableSince := time.Time{}
			ok := WaitUntil(3*time.Second, func() bool {
				select {
				case <-sess.CloseNotify():
					return true
				default:
				}
				if stp.Expect == "healthy" {
					if sess.Health() && erpc.VerifStatus(sess) == 1 {
						if stableSince.IsZero() {
							stableSince = time.Now()
						}
						return time.Since(stableSince) > 20*time.Millisecond
					}
					stableSince = time.Time{}
				}
				return false
			})
			if !ok {
				rec.Emit("WaitHang", "expect", stp.Expect)
			}
			time.Sleep(3 * time.Millisecond)
			notified := false
			select {
			case <-sess.CloseNotify():
				notified = true
			default:
			}
			got, listed := cli.GetSession(sess.ID())
			idok := userID == "" || sess.ID() == userID
			rec.Emit("Probe", "expect", stp.Expect, "health", sess.Health(), "notified", notified, "indexed", listed && got == sess, "idok", idok,
				"count", cli.CountSession(), "id", sess.ID(), "redialhooks", atomic.LoadInt32(&hooks.redial), "losses", losses, "budget", budget, "status", erpc.VerifStatusNames[erpc.VerifStatus(sess)])
		}
	}
	if inf != nil {
		releaseHold(&Behav{Hold: inf.hold})
	}
}
