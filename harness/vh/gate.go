package vh

import (
	"fmt"
	"math/rand"
	"runtime"
	"sync"
	"time"

	erpc "github.com/henrylee2cn/erpc/v6"
)

// Gates implements erpc.VerifPoint: it records linearization-point events and
// can park the calling goroutine at chosen points until the driver releases it.
type Gates struct {
	mu      sync.Mutex
	cond    *sync.Cond
	held    map[string]bool
	waiting []*waiter
	hits    map[string]int
	lastA   map[string]int64
	recOnly map[string]bool
	stuck   []string
	rec     *Rec
	record  bool
	namer   func(erpc.Session) string
	rnd     *rand.Rand
	jitter  int // 0 = off; otherwise 1/jitter of the points yield or sleep
	maxPark time.Duration
}

type waiter struct {
	keys [4]string
	ch   chan struct{}
	a, b int64
}

func (w *waiter) match(key string) bool {
	for _, k := range w.keys {
		if k == key {
			return true
		}
	}
	return false
}

// NewGates creates a controller and installs it as erpc.VerifPoint.
func NewGates(rec *Rec) *Gates {
	g := &Gates{
		held:    map[string]bool{},
		hits:    map[string]int{},
		lastA:   map[string]int64{},
		rec:     rec,
		maxPark: 15 * time.Second,
	}
	g.cond = sync.NewCond(&g.mu)
	erpc.VerifPoint = g.point
	return g
}

// SetNamer sets the function naming sessions in events and hold keys.
func (g *Gates) SetNamer(f func(erpc.Session) string) { g.mu.Lock(); g.namer = f; g.mu.Unlock() }

// Record switches recording of point events on or off.
func (g *Gates) Record(on bool) { g.mu.Lock(); g.record = on; g.mu.Unlock() }

// RecordOnly records just the named points (when full recording is off).
func (g *Gates) RecordOnly(pts ...string) {
	g.mu.Lock()
	g.recOnly = map[string]bool{}
	for _, p := range pts {
		g.recOnly[p] = true
	}
	g.mu.Unlock()
}

// Jitter enables random yields/sleeps at points (PCT-like perturbation).
func (g *Gates) Jitter(seed int64, oneIn int) {
	g.mu.Lock()
	g.rnd = rand.New(rand.NewSource(seed))
	g.jitter = oneIn
	g.mu.Unlock()
}

func (g *Gates) name(s erpc.Session) string {
	if s == nil {
		return ""
	}
	if g.namer != nil {
		return g.namer(s)
	}
	return ""
}

func (g *Gates) point(pt string, sess erpc.Session, a, b int64) {
	g.mu.Lock()
	namer := g.namer
	g.mu.Unlock()
	sn := ""
	if namer != nil && sess != nil {
		sn = namer(sess)
	}
	g.mu.Lock()
	g.hits[pt]++
	g.lastA[pt] = a
	rec := g.record || g.recOnly[pt]
	var nap time.Duration
	yield := false
	if g.jitter > 0 && g.rnd.Intn(g.jitter) == 0 {
		if g.rnd.Intn(3) == 0 {
			nap = time.Duration(g.rnd.Intn(300)) * time.Microsecond
		} else {
			yield = true
		}
	}
	keys := [4]string{pt, fmt.Sprintf("%s#%d", pt, a), sn + ":" + pt, fmt.Sprintf("%s:%s#%d", sn, pt, a)}
	var ch chan struct{}
	var key string
	for _, k := range keys {
		if g.held[k] {
			key = keys[3]
			ch = make(chan struct{})
			g.waiting = append(g.waiting, &waiter{keys: keys, ch: ch, a: a, b: b})
			g.cond.Broadcast()
			break
		}
	}
	g.mu.Unlock()
	if rec {
		g.rec.Emit("P", "pt", pt, "s", sn, "a", a, "b", b)
	}
	if ch != nil {
		select {
		case <-ch:
		case <-time.After(g.maxPark):
			g.mu.Lock()
			g.stuck = append(g.stuck, key)
			g.mu.Unlock()
		}
		return
	}
	if nap > 0 {
		time.Sleep(nap)
	} else if yield {
		runtime.Gosched()
	}
}

// Hold makes goroutines arriving at key park there. Key forms: "point",
// "point#a", "sess:point", "sess:point#a".
func (g *Gates) Hold(keys ...string) {
	g.mu.Lock()
	for _, k := range keys {
		g.held[k] = true
	}
	g.mu.Unlock()
}

// Unhold stops parking at key (already parked goroutines stay parked).
func (g *Gates) Unhold(keys ...string) {
	g.mu.Lock()
	for _, k := range keys {
		delete(g.held, k)
	}
	g.mu.Unlock()
}

// WaitParked waits until a goroutine is parked at key.
func (g *Gates) WaitParked(key string, d time.Duration) bool {
	deadline := time.Now().Add(d)
	t := time.AfterFunc(d, func() { g.mu.Lock(); g.cond.Broadcast(); g.mu.Unlock() })
	defer t.Stop()
	g.mu.Lock()
	defer g.mu.Unlock()
	for g.find(key) < 0 {
		if time.Now().After(deadline) {
			return false
		}
		g.cond.Wait()
	}
	return true
}

func (g *Gates) find(key string) int {
	for i, w := range g.waiting {
		if w.match(key) {
			return i
		}
	}
	return -1
}

// Parked reports how many goroutines are parked at key.
func (g *Gates) Parked(key string) int {
	g.mu.Lock()
	defer g.mu.Unlock()
	n := 0
	for _, w := range g.waiting {
		if w.match(key) {
			n++
		}
	}
	return n
}

// ParkedArgs returns the (a, b) arguments of the first goroutine parked at key.
func (g *Gates) ParkedArgs(key string) (a, b int64, ok bool) {
	g.mu.Lock()
	defer g.mu.Unlock()
	if i := g.find(key); i >= 0 {
		return g.waiting[i].a, g.waiting[i].b, true
	}
	return 0, 0, false
}

// Release lets one goroutine parked at key continue; returns false if none.
func (g *Gates) Release(key string) bool {
	g.mu.Lock()
	defer g.mu.Unlock()
	i := g.find(key)
	if i < 0 {
		return false
	}
	close(g.waiting[i].ch)
	g.waiting = append(g.waiting[:i], g.waiting[i+1:]...)
	return true
}

// ReleaseAll clears the hold set and releases every parked goroutine.
func (g *Gates) ReleaseAll() {
	g.mu.Lock()
	g.held = map[string]bool{}
	for _, w := range g.waiting {
		close(w.ch)
	}
	g.waiting = nil
	g.mu.Unlock()
}

// Hits returns how often a point fired since the last ResetHits.
func (g *Gates) Hits(pt string) int { g.mu.Lock(); defer g.mu.Unlock(); return g.hits[pt] }

// LastA returns the first argument of the most recent firing of a point.
func (g *Gates) LastA(pt string) int64 { g.mu.Lock(); defer g.mu.Unlock(); return g.lastA[pt] }

// ResetHits clears hit counters and the stuck list.
func (g *Gates) ResetHits() {
	g.mu.Lock()
	g.hits = map[string]int{}
	g.stuck = nil
	g.mu.Unlock()
}

// Stuck returns keys at which a goroutine waited longer than the park limit.
func (g *Gates) Stuck() []string {
	g.mu.Lock()
	defer g.mu.Unlock()
	return append([]string(nil), g.stuck...)
}
