package vh

import (
	"bufio"
	"bytes"
	"encoding/json"
	"flag"
	"fmt"
	"math/rand"
	"os"
	"runtime"
	"sync"
	"sync/atomic"
	"time"

	erpc "github.com/henrylee2cn/erpc/v6"
	"github.com/henrylee2cn/erpc/v6/plugin/auth"
	"github.com/henrylee2cn/erpc/v6/socket"
)

func init() { Drivers["auth"] = drvAuth }

// AuthScenario is one terminal state exported by spec/Accept.tla.
type AuthScenario struct {
	ID          string   `json:"id"`
	Path        string   `json:"path"`
	Neighbour   string   `json:"neighbour"`
	Cut         string   `json:"cut"`
	First       string   `json:"first"`
	Pipe        string   `json:"pipe"`
	Timing      string   `json:"timing"`
	HookPos     string   `json:"hookpos"`
	HookVerdict string   `json:"hookverdict"`
	Established bool     `json:"established"`
	Handled     int      `json:"handled"`
	Replies     []string `json:"replies"`
}

func drvAuth(args []string) int {
	fs := flag.NewFlagSet("auth", flag.ExitOnError)
	in := fs.String("in", "", "scenario file (ndjson)")
	out := fs.String("out", "", "trace file (ndjson)")
	seed := fs.Int64("seed", 1, "seed")
	fs.Parse(args)
	rec, err := NewRec(*out)
	if err != nil {
		fmt.Fprintln(os.Stderr, err)
		return 2
	}
	defer rec.Close()
	f, err := os.Open(*in)
	if err != nil {
		fmt.Fprintln(os.Stderr, err)
		return 2
	}
	defer f.Close()
	rd := bufio.NewReaderSize(f, 1<<20)
	n := 0
	for {
		line, err := rd.ReadBytes('\n')
		if len(line) > 1 {
			var sc AuthScenario
			if e := json.Unmarshal(line, &sc); e != nil {
				fmt.Fprintln(os.Stderr, "bad scenario:", e)
				return 2
			}
			n++
			runAuth(rec, &sc, n, rand.New(rand.NewSource(*seed*7919+int64(n))))
		}
		if err != nil {
			break
		}
	}
	rec.Flush()
	return 0
}

// otherHook is an additional PostAccept plugin with a scripted verdict.
type otherHook struct {
	rec    *Rec
	reject bool
}

func (o *otherHook) Name() string { return "other-accept-hook" }
func (o *otherHook) PostAccept(s erpc.PreSession) *erpc.Status {
	if o.reject {
		o.rec.Emit("HookReject")
		return erpc.NewStatus(403, "Forbidden", "other hook rejects")
	}
	return nil
}

func packFrame(mtype byte, seq int32, method string, body interface{}, stat *erpc.Status) []byte {
	m := socket.NewMessage()
	m.SetMtype(mtype)
	m.SetSeq(seq)
	m.SetServiceMethod(method)
	m.SetBodyCodec('j')
	if body != nil {
		m.SetBody(body)
	}
	if stat != nil {
		m.SetStatus(stat)
	}
	var w bytes.Buffer
	socket.RawProtoFunc(&rwBuf{r: bytes.NewReader(nil), w: &w}).Pack(m)
	return w.Bytes()
}

// two byte tokens of the same length: a public part (who the client claims to be) followed by the secret.  The public part
// is longer than an AUTH_REPLY frame, so that a receive buffer reused for a reply in between still holds the whole secret.
const authBytesPublic = "token:alice@example.com:"
const authBytesGood, authBytesBad = authBytesPublic + "VALID:7f3a91c2-5be04d1796a8c3f2e0b14d67a9c85f30", authBytesPublic + "WRONG:0000aaaa-00000000000000000000000000000000"

// authPublicLen is the length of the public part of a byte token.
const authPublicLen = len(authBytesPublic)

// splitPoint returns where a raw frame is cut for the timing class "split": inside the size prefix, inside the frame
// header, right after the header (before the body codec and the body), or inside the body (for byte tokens: after the
// public part of the credential).
func splitPoint(frame []byte, cut string, bytesToken bool) int {
	// size(4) xferlen(1) xfer seqlen(1) seq mtype(1) methodlen(1) method statuslen(2) status metalen(2) meta codec(1) body
	p := 4
	p += 1 + int(frame[p])
	hdr := p
	p += 1 + int(frame[p])
	p++
	p += 1 + int(frame[p])
	p += 2 + int(frame[p])<<8 + int(frame[p+1])
	p += 2 + int(frame[p])<<8 + int(frame[p+1])
	k := len(frame) / 2
	switch cut {
	case "insize":
		k = 2
	case "inhdr":
		k = hdr + (p-hdr)/2
	case "afterhdr":
		k = p
	case "midcred":
		body := p + 1
		if bytesToken {
			k = body + authPublicLen
		} else {
			k = body + (len(frame)-body)/2
		}
	}
	if k >= len(frame) {
		k = len(frame) - 1
	}
	if k < 1 {
		k = 1
	}
	return k
}

// authNeighbourBefore is another connection of the process, to another peer with a checker of its own, that authenticates
// with a valid byte token (a frame of exactly the layout of the observed client's) and leaves again (a session that
// stays keeps a receive buffer to itself while its reader waits): the returned function closes that peer.
func authNeighbourBefore(n int) func() {
	srv2 := erpc.NewPeer(erpc.PeerConfig{}, auth.NewCheckerPlugin(func(sess auth.Session, recv auth.RecvOnce) (interface{}, *erpc.Status) {
		var tok []byte
		if st := recv(&tok); !st.OK() || string(tok) != authBytesGood {
			return nil, erpc.NewStatus(erpc.CodeUnauthorized, "Unauthorized", "bad token")
		}
		return "welcome", nil
	}))
	a2, b2 := Pipe(fmt.Sprintf("NC%d", n), fmt.Sprintf("NS%d", n))
	got := make(chan struct{})
	go func() {
		var once sync.Once
		buf := make([]byte, 4096)
		for {
			k, err := a2.Read(buf)
			if k > 0 {
				once.Do(func() { close(got) })
			}
			if err != nil {
				once.Do(func() { close(got) })
				return
			}
		}
	}()
	a2.Write(packFrame(erpc.TypeAuthCall, 1, "", []byte(authBytesGood), nil))
	srv2.ServeConn(b2)
	select {
	case <-got:
	case <-time.After(time.Second):
	}
	a2.Close()
	WaitUntil(time.Second, func() bool { return srv2.CountSession() == 0 })
	return func() { srv2.Close() }
}

// authNeighbour is another connection of the process, to another peer with a checker of its own: once the observed
// connection's checker has received its token, the neighbour authenticates with a valid token (a frame of exactly the
// same layout), and its checker holds its verdict until the observed one has decided.
func authNeighbour(n int, aRecv, bRecv, aDone chan struct{}) {
	var once sync.Once
	srv2 := erpc.NewPeer(erpc.PeerConfig{}, auth.NewCheckerPlugin(func(sess auth.Session, recv auth.RecvOnce) (interface{}, *erpc.Status) {
		var tok []byte
		st := recv(&tok)
		once.Do(func() { close(bRecv) })
		select {
		case <-aDone:
		case <-time.After(time.Second):
		}
		if !st.OK() || string(tok) != authBytesGood {
			return nil, erpc.NewStatus(erpc.CodeUnauthorized, "Unauthorized", "bad token")
		}
		return "welcome", nil
	}))
	defer srv2.Close()
	select {
	case <-aRecv:
	case <-time.After(time.Second):
		once.Do(func() { close(bRecv) })
		return
	}
	a2, b2 := Pipe(fmt.Sprintf("NC%d", n), fmt.Sprintf("NS%d", n))
	go func() {
		buf := make([]byte, 4096)
		for {
			if _, err := a2.Read(buf); err != nil {
				return
			}
		}
	}()
	a2.Write(packFrame(erpc.TypeAuthCall, 1, "", []byte(authBytesGood), nil))
	srv2.ServeConn(b2)
	once.Do(func() { close(bRecv) })
	a2.Close()
}

func runAuth(rec *Rec, sc *AuthScenario, n int, rnd *rand.Rand) {
	rec.SetTrace(sc.ID, map[string]interface{}{"mode": "auth", "path": sc.Path, "neighbour": sc.Neighbour, "cut": sc.Cut, "first": sc.First, "pipe": sc.Pipe, "timing": sc.Timing,
		"hookpos": sc.HookPos, "hookverdict": sc.HookVerdict, "expestablished": sc.Established})
	app := NewApp(rec, nil)
	CurApp = app
	bytesMode := sc.First == "authgoodbytes" || sc.First == "authbadbytes"
	aRecv, bRecv, aDone := make(chan struct{}), make(chan struct{}), make(chan struct{})
	var aOnce sync.Once
	if sc.Neighbour == "before" {
		// one processor: this connection's reader runs where the neighbour's reader ran
		old := runtime.GOMAXPROCS(1)
		defer runtime.GOMAXPROCS(old)
	}
	if sc.Neighbour == "good" {
		// one processor: the neighbour's reader runs where this connection's reader ran (and finds what that one left
		// in the processor-local caches of the process)
		old := runtime.GOMAXPROCS(1)
		defer runtime.GOMAXPROCS(old)
		defer aOnce.Do(func() { close(aDone) })
		go authNeighbour(n, aRecv, bRecv, aDone)
	}
	checker := auth.NewCheckerPlugin(func(sess auth.Session, recv auth.RecvOnce) (interface{}, *erpc.Status) {
		var token string
		if bytesMode {
			// a checker that takes its token as bytes, and does something slow between receiving and comparing it
			var tok []byte
			if st := recv(&tok); !st.OK() {
				rec.Emit("AuthFail", "why", "recv", "code", st.Code())
				return nil, st
			}
			if sc.Neighbour == "good" {
				close(aRecv)
				select {
				case <-bRecv:
				case <-time.After(300 * time.Millisecond):
					rec.Emit("NeighbourLate")
				}
				defer aOnce.Do(func() { close(aDone) })
			}
			if string(tok) == authBytesGood {
				rec.Emit("AuthOK")
				return "welcome", nil
			}
			rec.Emit("AuthFail", "why", "token", "got", fmt.Sprintf("%q", tok))
			return nil, erpc.NewStatus(erpc.CodeUnauthorized, "Unauthorized", "bad token")
		}
		if st := recv(&token); !st.OK() {
			rec.Emit("AuthFail", "why", "recv", "code", st.Code())
			return nil, st
		}
		if token == "boom" {
			var short []byte
			_ = short[7] // the checker function panics on this token
		}
		if token == "setid-bad" || token == "setid-good" {
			sess.SetID("user-" + token) // the checker assigns the id before it decides
		}
		if token == "good" || token == "setid-good" {
			rec.Emit("AuthOK")
			return "welcome", nil
		}
		rec.Emit("AuthFail", "why", "token")
		return nil, erpc.NewStatus(erpc.CodeUnauthorized, "Unauthorized", "bad token")
	})
	plugins := []erpc.Plugin{NewPlug(rec, "srv", "M", "all", "")}
	other := &otherHook{rec: rec, reject: sc.HookVerdict == "reject"}
	if sc.HookPos == "before" {
		plugins = append(plugins, other)
	}
	plugins = append(plugins, checker)
	if sc.HookPos == "after" {
		plugins = append(plugins, other)
	}
	srv := erpc.NewPeer(erpc.PeerConfig{}, plugins...)
	srv.RouteCall(new(T))
	srv.RoutePush(new(U))
	defer func() {
		done := make(chan struct{})
		go func() { srv.Close(); close(done) }()
		select {
		case <-done:
		case <-time.After(time.Second):
		}
		rec.Flush()
	}()
	cname := fmt.Sprintf("AC%d", n)
	a, b := Pipe(cname, fmt.Sprintf("AS%d", n))
	// what the client sends first
	var first []byte
	switch sc.First {
	case "authgood":
		first = packFrame(erpc.TypeAuthCall, 1, "", "good", nil)
	case "authbad":
		first = packFrame(erpc.TypeAuthCall, 1, "", "bad", nil)
	case "authpanic":
		first = packFrame(erpc.TypeAuthCall, 1, "", "boom", nil)
	case "authsetidbad":
		first = packFrame(erpc.TypeAuthCall, 1, "", "setid-bad", nil)
	case "authsetidgood":
		first = packFrame(erpc.TypeAuthCall, 1, "", "setid-good", nil)
	case "authgoodbytes":
		first = packFrame(erpc.TypeAuthCall, 1, "", []byte(authBytesGood), nil)
	case "authbadbytes":
		first = packFrame(erpc.TypeAuthCall, 1, "", []byte(authBytesBad), nil)
	case "authundecodable":
		first = packFrame(erpc.TypeAuthCall, 1, "", []byte("{{{not json"), nil)
	case "authstatus":
		first = packFrame(erpc.TypeAuthCall, 1, "", "good", erpc.NewStatus(500, "client says error", ""))
	case "call":
		first = packFrame(erpc.TypeCall, 1, CallRoute, &Arg{Tag: sc.ID + ".first"}, nil)
	case "push":
		first = packFrame(erpc.TypePush, 1, PushRoute, &Arg{Tag: sc.ID + ".first"}, nil)
	case "reply":
		first = packFrame(erpc.TypeReply, 1, "", "good", nil)
	case "type9":
		first = packFrame(9, 1, CallRoute, "good", nil)
	case "garbage":
		first = make([]byte, 64)
		rnd.Read(first)
		first[0] = 0 // keep the announced size small
		first[1] = 0
	case "truncated":
		f := packFrame(erpc.TypeAuthCall, 1, "", "good", nil)
		first = f[:len(f)/2]
	case "silence":
	}
	var rest []byte
	if sc.Pipe == "call" || sc.Pipe == "callpush" {
		rest = append(rest, packFrame(erpc.TypeCall, 11, CallRoute, &Arg{Tag: sc.ID + ".c"}, nil)...)
	}
	if sc.Pipe == "push" || sc.Pipe == "callpush" {
		rest = append(rest, packFrame(erpc.TypePush, 12, PushRoute, &Arg{Tag: sc.ID + ".p"}, nil)...)
	}
	// client side reader: frames the server writes, and whether the server closed the connection
	var mu sync.Mutex
	authReplies, callReplies, otherFrames := 0, 0, 0
	var clientEOF int32
	gotAuthReply := make(chan struct{}, 1)
	go func() {
		raw := socket.NewSocket(a)
		for {
			m := socket.GetMessage(socket.WithNewBody(func(socket.Header) interface{} { return new([]byte) }))
			if err := raw.ReadMessage(m); err != nil {
				atomic.StoreInt32(&clientEOF, 1)
				return
			}
			mu.Lock()
			switch m.Mtype() {
			case erpc.TypeAuthReply:
				authReplies++
				select {
				case gotAuthReply <- struct{}{}:
				default:
				}
			case erpc.TypeReply:
				callReplies++
			default:
				otherFrames++
			}
			mu.Unlock()
		}
	}()
	splitAt := 0
	if sc.Neighbour == "before" {
		// the neighbour authenticates (successfully) right before this client sends anything (the scripted client's reader
		// is given time to start first: it takes a receive buffer of its own and waits)
		time.Sleep(2 * time.Millisecond)
		defer authNeighbourBefore(n)()
	}
	if sc.Timing == "split" && len(first) > 1 {
		// the first frame is delivered in two pieces: the first piece now, the rest after a pause
		splitAt = splitPoint(first, sc.Cut, bytesMode)
		a.Write(first[:splitAt])
		rec.Emit("ClientPiece", "sent", splitAt, "of", len(first), "cut", sc.Cut)
	} else if sc.Timing == "atonce" {
		a.Write(append(append([]byte(nil), first...), rest...))
	} else {
		a.Write(first)
	}
	served := make(chan erpc.Session, 1)
	if sc.Path == "listen" {
		// the accept loop behind ListenAndServe, on an in-memory listener
		lis := NewMemListener(fmt.Sprintf("AL%d", n))
		go erpc.VerifServeListener(srv, lis)
		lis.Inject(b)
		go func() {
			// the loop reports nothing: the session is established when it is listed, rejected when the server closed the connection
			// (a checker that calls SetID makes the still unauthenticated session visible for a moment: only a healthy one counts)
			var s erpc.Session
			WaitUntil(3*time.Second, func() bool {
				s = nil
				srv.RangeSession(func(x erpc.Session) bool {
					if x.Health() {
						s = x
					}
					return false
				})
				return s != nil || atomic.LoadInt32(&clientEOF) == 1
			})
			served <- s
		}()
	} else {
		go func() {
			s, _ := srv.ServeConn(b)
			served <- s
		}()
	}
	if splitAt > 0 {
		// the pause: the server takes the first piece (a Read of its own on the server side: nothing else is in the
		// connection) and must go on waiting; the client watches for any response, then sends the rest of its first
		// frame and what it pipelines behind it
		WaitUntil(2*time.Second, func() bool { return a.Unread() == 0 || atomic.LoadInt32(&clientEOF) == 1 })
		time.Sleep(20 * time.Millisecond)
		mu.Lock()
		rec.Emit("ClientWatch", "taken", a.Unread() == 0, "authreplies", authReplies, "callreplies", callReplies, "otherframes", otherFrames, "eof", atomic.LoadInt32(&clientEOF) == 1)
		mu.Unlock()
		rec.Emit("ClientComplete")
		a.Write(append(append([]byte(nil), first[splitAt:]...), rest...))
	}
	if sc.Timing == "stepwise" {
		select {
		case <-gotAuthReply:
		case <-time.After(30 * time.Millisecond):
		}
		a.Write(rest)
	}
	// a client that sent nothing decodable eventually gives up
	closedByClient := false
	var sess erpc.Session
	select {
	case sess = <-served:
	case <-time.After(60 * time.Millisecond):
		closedByClient = true
		a.Close()
		select {
		case sess = <-served:
		case <-time.After(3 * time.Second):
			rec.Emit("ServeHang")
		}
	}
	// an established session handles what was pipelined (bounded wait: the handlers run in goroutines of their own)
	if sess != nil && sc.Established {
		WaitUntil(2*time.Second, func() bool { return atomic.LoadInt64(&app.Enters) >= int64(sc.Handled) })
	}
	// settle
	last := rec.Count()
	for i := 0; i < 40; i++ {
		time.Sleep(500 * time.Microsecond)
		if now := rec.Count(); now == last && i >= 4 {
			break
		} else {
			last = now
		}
	}
	_, listed := srv.GetSession(cname)
	for _, id := range []string{"user-setid-bad", "user-setid-good"} {
		if _, ok := srv.GetSession(id); ok {
			listed = true
		}
	}
	srv.RangeSession(func(erpc.Session) bool { listed = true; return true })
	serverClosed := false
	if sess == nil {
		// the server side must have closed its end: a write from the client fails or the reader saw EOF
		serverClosed = WaitUntil(200*time.Millisecond, func() bool { return atomic.LoadInt32(&clientEOF) == 1 })
	}
	mu.Lock()
	rec.Emit("Quiesce", "listed", listed, "count", srv.CountSession(), "clienteof", atomic.LoadInt32(&clientEOF) == 1 && !closedByClient || (sess == nil && serverClosed),
		"serverclosed", serverClosed || closedByClient, "closedbyclient", closedByClient, "established", sess != nil,
		"authreplies", authReplies, "callreplies", callReplies, "otherframes", otherFrames, "enters", atomic.LoadInt64(&app.Enters))
	mu.Unlock()
}
