package vh

func (d *dataRun) poolCase(c DataCase, out map[string]interface{}) { out["err"] = "not implemented" }
