// Package vh is the Go side of the /verif machinery: recorder, hold points,
// in-memory connections, scripted raw peer and instrumented application code.
package vh

import (
	"bufio"
	"encoding/json"
	"os"
	"sync"
)

// Rec is the trace recorder.  One NDJSON line per event; the sequence number
// "i" is taken under the recorder's mutex, never from a clock.
type Rec struct {
	mu    sync.Mutex
	f     *os.File
	w     *bufio.Writer
	n     int64
	trace string
	mem   []map[string]interface{}
	keep  bool
	gen   int64 // number of traces started so far
}

// Gen returns the generation of the current trace (it changes with every SetTrace).
func (r *Rec) Gen() int64 {
	r.mu.Lock()
	defer r.mu.Unlock()
	return r.gen
}

// EmitGen records the event only while the trace of generation gen is still the current one: an observer
// that belongs to one scenario must not write into the trace of the next.
func (r *Rec) EmitGen(gen int64, ev string, kv ...interface{}) {
	if r.Gen() != gen {
		return
	}
	r.Emit(ev, kv...)
}

// NewRec opens (truncates) path.
func NewRec(path string) (*Rec, error) {
	f, err := os.Create(path)
	if err != nil {
		return nil, err
	}
	return &Rec{f: f, w: bufio.NewWriterSize(f, 1<<16)}, nil
}

// SetTrace starts a new trace: emits a Reset line carrying cfg.
func (r *Rec) SetTrace(id string, cfg map[string]interface{}) {
	r.mu.Lock()
	r.trace = id
	r.gen++
	r.mu.Unlock()
	kv := []interface{}{}
	for k, v := range cfg {
		kv = append(kv, k, v)
	}
	r.Emit("Reset", kv...)
}

// Emit writes one event. kv are alternating keys and values.
func (r *Rec) Emit(ev string, kv ...interface{}) {
	m := make(map[string]interface{}, 3+len(kv)/2)
	for i := 0; i+1 < len(kv); i += 2 {
		m[kv[i].(string)] = kv[i+1]
	}
	m["ev"] = ev
	r.mu.Lock()
	r.n++
	m["i"] = r.n
	m["t"] = r.trace
	b, err := json.Marshal(m)
	if err == nil {
		r.w.Write(b)
		r.w.WriteByte('\n')
	}
	if r.keep {
		r.mem = append(r.mem, m)
	}
	r.mu.Unlock()
}

// Flush flushes buffered lines.
func (r *Rec) Flush() {
	r.mu.Lock()
	r.w.Flush()
	r.mu.Unlock()
}

// Close flushes and closes.
func (r *Rec) Close() {
	r.Flush()
	r.f.Close()
}

// Count returns the number of events so far.
func (r *Rec) Count() int64 {
	r.mu.Lock()
	defer r.mu.Unlock()
	return r.n
}
