package vh

import (
	"bufio"
	"encoding/json"
	"flag"
	"fmt"
	"os"
	"sort"
	"sync"
	"time"

	erpc "github.com/henrylee2cn/erpc/v6"
	"github.com/henrylee2cn/erpc/v6/socket"
)

func init() { Drivers["hub"] = drvHub }

// HubScenario is one history exported by spec/Hub.tla.
type HubScenario struct {
	ID    string `json:"id"`
	Steps []struct {
		Op    string     `json:"op"`
		S     string     `json:"s"`
		U     string     `json:"u"`
		Index [][]string `json:"index"`
		Live  []string   `json:"live"`
		Quiet bool       `json:"quiet"`
	} `json:"steps"`
}

func drvHub(args []string) int {
	fs := flag.NewFlagSet("hub", flag.ExitOnError)
	in := fs.String("in", "", "scenario file (ndjson)")
	out := fs.String("out", "", "trace file (ndjson)")
	sum := fs.String("summary", "", "summary file (json)")
	fs.Parse(args)
	rec, err := NewRec(*out)
	if err != nil {
		fmt.Fprintln(os.Stderr, err)
		return 2
	}
	defer rec.Close()
	f, err := os.Open(*in)
	if err != nil {
		fmt.Fprintln(os.Stderr, err)
		return 2
	}
	defer f.Close()
	rd := bufio.NewReaderSize(f, 1<<20)
	drifts := map[string][]string{}
	n := 0
	for {
		line, err := rd.ReadBytes('\n')
		if len(line) > 1 {
			var sc HubScenario
			if e := json.Unmarshal(line, &sc); e != nil {
				fmt.Fprintln(os.Stderr, "bad scenario:", e)
				return 2
			}
			n++
			if d := runHub(rec, &sc); len(d) > 0 {
				drifts[sc.ID] = d
			}
		}
		if err != nil {
			break
		}
	}
	rec.Flush()
	if *sum != "" {
		b, _ := json.Marshal(map[string]interface{}{"scenarios": n, "drift": drifts})
		os.WriteFile(*sum, b, 0644)
	}
	return 0
}

func runHub(rec *Rec, sc *HubScenario) (drift []string) {
	rec.SetTrace(sc.ID, map[string]interface{}{"mode": "hub"})
	disc := &DiscCounter{Rec: rec}
	peer := erpc.NewPeer(erpc.PeerConfig{}, disc)
	app := NewApp(rec, nil)
	app.Routes(peer)
	holds := map[string]*Behav{}
	sess := map[string]erpc.Session{}
	defer func() {
		// the end of every history: Peer.Close() while the handlers that are still running run on; it must wait for
		// those of live sessions, and return once they are through
		// (judged at quiescent ends only: the sessions the model has live there, with a handler still running)
		busyLive := 0
		if k := len(sc.Steps); k > 0 && sc.Steps[k-1].Quiet {
			for _, nme := range sc.Steps[k-1].Live {
				if s := sess[nme]; s != nil && holds[nme] != nil && s.Health() {
					busyLive++
				}
			}
		}
		fin := make(chan struct{})
		go func() { peer.Close(); close(fin) }()
		early := false
		if busyLive > 0 {
			select {
			case <-fin:
				early = true
			case <-time.After(15 * time.Millisecond):
			}
		}
		for _, b := range holds {
			releaseHold(b)
		}
		returned := false
		select {
		case <-fin:
			returned = true
		case <-time.After(3 * time.Second):
		}
		rec.Emit("PeerClose", "busylive", busyLive, "early", early, "returned", returned)
		rec.Flush()
	}()
	remote := map[string]*Conn{}
	var async sync.WaitGroup
	waitAsync := func(d time.Duration) bool {
		done := make(chan struct{})
		go func() { async.Wait(); close(done) }()
		select {
		case <-done:
			return true
		case <-time.After(d):
			return false
		}
	}
	var order []string
	known := map[string]bool{}
	for i, st := range sc.Steps {
		switch st.Op {
		case "accept":
			a, b := Pipe(st.S, "addr-"+st.S)
			s, stat := peer.ServeConn(a)
			if !stat.OK() {
				drift = append(drift, fmt.Sprintf("step %d: ServeConn failed %v", i, stat))
				return
			}
			sess[st.S] = s
			remote[st.S] = b
			order = append(order, st.S)
			known[s.ID()] = true
			rec.Emit("Op", "op", "accept", "s", st.S, "u", s.ID())
		case "setid":
			known[st.U] = true
			rec.Emit("Op", "op", "setid", "s", st.S, "u", st.U)
			async.Add(1)
			go func(s erpc.Session, u string) { s.SetID(u); async.Done() }(sess[st.S], st.U)
			time.Sleep(300 * time.Microsecond)
		case "close":
			rec.Emit("Op", "op", "close", "s", st.S, "u", "")
			async.Add(1)
			go func(s erpc.Session) { s.Close(); async.Done() }(sess[st.S])
			time.Sleep(300 * time.Microsecond)
		case "disc":
			rec.Emit("Op", "op", "disc", "s", st.S, "u", "")
			remote[st.S].Close()
			s := sess[st.S]
			if holds[st.S] == nil {
				WaitUntil(2*time.Second, func() bool {
					select {
					case <-s.CloseNotify():
						return disc.Count(st.S) > 0
					default:
						return false
					}
				})
			} else {
				time.Sleep(time.Millisecond) // the disconnect waits for the running handler
			}
		case "starth":
			rec.Emit("Op", "op", "starth", "s", st.S, "u", "")
			tag := sc.ID + "." + st.S
			b := &Behav{Hold: make(chan struct{}), Entered: make(chan struct{})}
			holds[st.S] = b
			app.SetBehav(tag, b)
			raw := socket.NewSocket(remote[st.S])
			m := socket.NewMessage()
			m.SetMtype(erpc.TypeCall)
			m.SetSeq(int32(100 + i))
			m.SetServiceMethod(CallRoute)
			m.SetBodyCodec('j')
			m.SetBody(&Arg{Tag: tag})
			raw.WriteMessage(m)
			select {
			case <-b.Entered:
			case <-time.After(2 * time.Second):
				drift = append(drift, fmt.Sprintf("step %d: handler of %s not entered", i, st.S))
			}
		case "endh":
			rec.Emit("Op", "op", "endh", "s", st.S, "u", "")
			if b := holds[st.S]; b != nil {
				releaseHold(b)
				delete(holds, st.S)
			}
			time.Sleep(500 * time.Microsecond)
		}
		if !st.Quiet {
			continue // a Close / SetID is still blocked behind a running handler: not a quiescent point
		}
		if !waitAsync(3 * time.Second) {
			rec.Emit("Stuck", "step", i)
		}
		// closed sessions finish their disconnect asynchronously
		WaitUntil(time.Second, func() bool {
			for _, nme := range order {
				s := sess[nme]
				if !s.Health() {
					select {
					case <-s.CloseNotify():
						if disc.Count(nme) == 0 {
							return false
						}
					default:
						return false
					}
				}
			}
			return true
		})
		// quiescent point: probe the index
		time.Sleep(200 * time.Microsecond)
		var rng [][]string
		peer.RangeSession(func(s erpc.Session) bool {
			rng = append(rng, []string{s.ID(), Name(s)})
			return true
		})
		sort.Slice(rng, func(a, b int) bool { return rng[a][0]+rng[a][1] < rng[b][0]+rng[b][1] })
		ids := make([]string, 0, len(known))
		for id := range known {
			ids = append(ids, id)
		}
		sort.Strings(ids)
		gets := [][]string{}
		for _, id := range ids {
			nm := ""
			if s, ok := peer.GetSession(id); ok {
				nm = Name(s)
			}
			gets = append(gets, []string{id, nm})
		}
		var ss []map[string]interface{}
		for _, nme := range order {
			s := sess[nme]
			notified := false
			select {
			case <-s.CloseNotify():
				notified = true
			default:
			}
			e := map[string]interface{}{"s": nme, "health": s.Health(), "notified": notified, "hooks": disc.Count(nme), "postcall": 0}
			if !s.Health() {
				e["postcall"] = int(s.Call(CallRoute, &Arg{Tag: "post"}, new(Res)).Status().Code())
			}
			ss = append(ss, e)
		}
		if rng == nil {
			rng = [][]string{}
		}
		rec.Emit("Probe", "range", rng, "count", peer.CountSession(), "gets", gets, "sess", ss, "step", i)
		// conformance with Layer M: the model's index after this step
		want := map[string]string{}
		for _, p := range st.Index {
			want[p[0]] = p[1]
		}
		if len(want) != len(rng) {
			drift = append(drift, fmt.Sprintf("step %d %s(%s,%s): index %v, model %v", i, st.Op, st.S, st.U, rng, st.Index))
		} else {
			for _, p := range rng {
				if want[p[0]] != p[1] {
					drift = append(drift, fmt.Sprintf("step %d %s(%s,%s): index %v, model %v", i, st.Op, st.S, st.U, rng, st.Index))
					break
				}
			}
		}
	}
	return
}
