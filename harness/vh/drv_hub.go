package vh

import (
	"bufio"
	"encoding/json"
	"flag"
	"fmt"
	"os"
	"sort"
	"time"

	erpc "github.com/henrylee2cn/erpc/v6"
)

func init() { Drivers["hub"] = drvHub }

// HubScenario is one history exported by spec/Hub.tla.
type HubScenario struct {
	ID    string `json:"id"`
	Steps []struct {
		Op    string          `json:"op"`
		S     string          `json:"s"`
		U     string          `json:"u"`
		Index [][]string      `json:"index"`
		Live  []string        `json:"live"`
	} `json:"steps"`
}

func drvHub(args []string) int {
	fs := flag.NewFlagSet("hub", flag.ExitOnError)
	in := fs.String("in", "", "scenario file (ndjson)")
	out := fs.String("out", "", "trace file (ndjson)")
	sum := fs.String("summary", "", "summary file (json)")
	fs.Parse(args)
	rec, err := NewRec(*out)
	if err != nil {
		fmt.Fprintln(os.Stderr, err)
		return 2
	}
	defer rec.Close()
	f, err := os.Open(*in)
	if err != nil {
		fmt.Fprintln(os.Stderr, err)
		return 2
	}
	defer f.Close()
	rd := bufio.NewReaderSize(f, 1<<20)
	drifts := map[string][]string{}
	n := 0
	for {
		line, err := rd.ReadBytes('\n')
		if len(line) > 1 {
			var sc HubScenario
			if e := json.Unmarshal(line, &sc); e != nil {
				fmt.Fprintln(os.Stderr, "bad scenario:", e)
				return 2
			}
			n++
			if d := runHub(rec, &sc); len(d) > 0 {
				drifts[sc.ID] = d
			}
		}
		if err != nil {
			break
		}
	}
	rec.Flush()
	if *sum != "" {
		b, _ := json.Marshal(map[string]interface{}{"scenarios": n, "drift": drifts})
		os.WriteFile(*sum, b, 0644)
	}
	return 0
}

func runHub(rec *Rec, sc *HubScenario) (drift []string) {
	rec.SetTrace(sc.ID, map[string]interface{}{"mode": "hub"})
	disc := &DiscCounter{Rec: rec}
	peer := erpc.NewPeer(erpc.PeerConfig{}, disc)
	app := NewApp(rec, nil)
	app.Routes(peer)
	defer func() {
		fin := make(chan struct{})
		go func() { peer.Close(); close(fin) }()
		select {
		case <-fin:
		case <-time.After(500 * time.Millisecond):
		}
		rec.Flush()
	}()
	sess := map[string]erpc.Session{}
	remote := map[string]*Conn{}
	var order []string
	known := map[string]bool{}
	for i, st := range sc.Steps {
		switch st.Op {
		case "accept":
			a, b := Pipe(st.S, "addr-"+st.S)
			s, stat := peer.ServeConn(a)
			if !stat.OK() {
				drift = append(drift, fmt.Sprintf("step %d: ServeConn failed %v", i, stat))
				return
			}
			sess[st.S] = s
			remote[st.S] = b
			order = append(order, st.S)
			known[s.ID()] = true
			rec.Emit("Op", "op", "accept", "s", st.S, "u", s.ID())
		case "setid":
			known[st.U] = true
			rec.Emit("Op", "op", "setid", "s", st.S, "u", st.U)
			done := make(chan struct{})
			go func() { sess[st.S].SetID(st.U); close(done) }()
			select {
			case <-done:
			case <-time.After(3 * time.Second):
				rec.Emit("Stuck", "op", "setid", "s", st.S)
			}
		case "close":
			rec.Emit("Op", "op", "close", "s", st.S, "u", "")
			done := make(chan struct{})
			go func() { sess[st.S].Close(); close(done) }()
			select {
			case <-done:
			case <-time.After(3 * time.Second):
				rec.Emit("Stuck", "op", "close", "s", st.S)
			}
		case "disc":
			rec.Emit("Op", "op", "disc", "s", st.S, "u", "")
			remote[st.S].Close()
			s := sess[st.S]
			WaitUntil(2*time.Second, func() bool {
				select {
				case <-s.CloseNotify():
					return disc.Count(st.S) > 0
				default:
					return false
				}
			})
		}
		// quiescent point: probe the index
		time.Sleep(200 * time.Microsecond)
		var rng [][]string
		peer.RangeSession(func(s erpc.Session) bool {
			rng = append(rng, []string{s.ID(), Name(s)})
			return true
		})
		sort.Slice(rng, func(a, b int) bool { return rng[a][0]+rng[a][1] < rng[b][0]+rng[b][1] })
		ids := make([]string, 0, len(known))
		for id := range known {
			ids = append(ids, id)
		}
		sort.Strings(ids)
		gets := [][]string{}
		for _, id := range ids {
			nm := ""
			if s, ok := peer.GetSession(id); ok {
				nm = Name(s)
			}
			gets = append(gets, []string{id, nm})
		}
		var ss []map[string]interface{}
		for _, nme := range order {
			s := sess[nme]
			notified := false
			select {
			case <-s.CloseNotify():
				notified = true
			default:
			}
			e := map[string]interface{}{"s": nme, "health": s.Health(), "notified": notified, "hooks": disc.Count(nme), "postcall": 0}
			if !s.Health() {
				e["postcall"] = int(s.Call(CallRoute, &Arg{Tag: "post"}, new(Res)).Status().Code())
			}
			ss = append(ss, e)
		}
		if rng == nil {
			rng = [][]string{}
		}
		rec.Emit("Probe", "range", rng, "count", peer.CountSession(), "gets", gets, "sess", ss, "step", i)
		// conformance with Layer M: the model's index after this step
		want := map[string]string{}
		for _, p := range st.Index {
			want[p[0]] = p[1]
		}
		if len(want) != len(rng) {
			drift = append(drift, fmt.Sprintf("step %d %s(%s,%s): index %v, model %v", i, st.Op, st.S, st.U, rng, st.Index))
		} else {
			for _, p := range rng {
				if want[p[0]] != p[1] {
					drift = append(drift, fmt.Sprintf("step %d %s(%s,%s): index %v, model %v", i, st.Op, st.S, st.U, rng, st.Index))
					break
				}
			}
		}
	}
	return
}
