package vh

import (
	"bufio"
	"context"
	"encoding/json"
	"flag"
	"fmt"
	"os"
	"strings"
	"sync"
	"sync/atomic"
	"time"

	erpc "github.com/henrylee2cn/erpc/v6"
	"github.com/henrylee2cn/erpc/v6/socket"
)

func init() { Drivers["sess"] = drvSess }

// SessScenario is one behaviour of spec/SessionGen.tla.
type SessScenario struct {
	ID    string          `json:"id"`
	Mode  string          `json:"mode"` // "strict" or "free"
	Steps [][]interface{} `json:"steps"`
	Holds []string        `json:"holds"` // free mode: points at which to delay (released when the schedule ends)
}

type sessRun struct {
	rec      *Rec
	g        *Gates
	app      *App
	disc     *DiscCounter
	peer     erpc.Peer
	sc       *SessScenario
	sn       string // name of the session under test
	sess     erpc.Session
	a, b     *Conn
	raw      socket.Socket
	wmu      sync.Mutex
	seqOf    map[string]int32 // call id -> seq
	nseq     int32
	hseq     map[string]int32
	calls    map[string]*callObs
	fin      map[string]chan struct{}
	nfq      []int32
	ended    int32
	curReply int32      // seq of the reply the reader is currently bound to (0: none)
	sentq    [][2]int32 // frames written by the raw peer, in order: {kind(1 reply,2 call), seq}
	drift    []string
	wireSeen map[int32]bool
	expBody  map[int32]string
	wmu2     sync.Mutex
	closed   map[string]bool
	holds    map[string]*Behav // free mode: handler holds by inbound call id
	replied  map[string]bool   // calls to which the raw peer sent a reply
	connDown bool
	anyBad   bool
}

type callObs struct {
	cmd  erpc.CallCmd
	ch   chan erpc.CallCmd
	done chan struct{}
}

var hangsSeen int32

// stepWait bounds the wait for a goroutine to reach its next hold point; once hangs were seen
// repeatedly in this process the remaining scenarios use a short bound.
var stepWait = 3 * time.Second

func noteHang() {
	if atomic.AddInt32(&hangsSeen, 1) >= 2 {
		stepWait = 300 * time.Millisecond
	}
}

func drvSess(args []string) int {
	fs := flag.NewFlagSet("sess", flag.ExitOnError)
	in := fs.String("in", "", "scenario file (ndjson)")
	out := fs.String("out", "", "trace file (ndjson)")
	sum := fs.String("summary", "", "summary file (json)")
	seed := fs.Int64("seed", 1, "seed")
	fs.Parse(args)
	rec, err := NewRec(*out)
	if err != nil {
		fmt.Fprintln(os.Stderr, err)
		return 2
	}
	defer rec.Close()
	g := NewGates(rec)
	g.SetNamer(func(s erpc.Session) string { return Name(s) })
	app := NewApp(rec, g)
	disc := &DiscCounter{Rec: rec}
	peer := erpc.NewPeer(erpc.PeerConfig{}, disc, preVeto{})
	app.Routes(peer)

	f, err := os.Open(*in)
	if err != nil {
		fmt.Fprintln(os.Stderr, err)
		return 2
	}
	defer f.Close()
	rd := bufio.NewReaderSize(f, 1<<20)
	type res struct {
		ID    string   `json:"id"`
		Mode  string   `json:"mode"`
		Steps int      `json:"steps"`
		Drift []string `json:"drift"`
	}
	var results []res
	n := 0
	for {
		line, err := rd.ReadBytes('\n')
		if len(line) > 1 {
			var sc SessScenario
			if e := json.Unmarshal(line, &sc); e != nil {
				fmt.Fprintln(os.Stderr, "bad scenario:", e)
				return 2
			}
			n++
			r := &sessRun{rec: rec, g: g, app: app, disc: disc, peer: peer, sc: &sc}
			r.run(n, *seed)
			results = append(results, res{sc.ID, sc.Mode, len(sc.Steps), r.drift})
		}
		if err != nil {
			break
		}
	}
	rec.Flush()
	if *sum != "" {
		b, _ := json.Marshal(map[string]interface{}{"scenarios": results})
		os.WriteFile(*sum, b, 0644)
	}
	return 0
}

var sessStrictHolds = []string{
	"call.seq", "call.stored", "write.checked", "call.written", "cmd.done",
	"read.next", "reply.found", "reply.locked", "read.frame", "read.spawn",
	"reply.done", "ctx.put", "h.enter",
	"close.cas", "close.deleted", "close.notified", "close.waitedCtx", "close.waitedCalls", "close.closed", "close.sock", "close.hooked",
	"rd.loaded", "rd.stored", "rd.deleted", "rd.waited", "rd.cancelled", "rd.sock", "rd.closed", "rd.hooked",
}

func (r *sessRun) key(pt string) string { return r.sn + ":" + pt }
func (r *sessRun) keyN(pt string, n int32) string {
	return fmt.Sprintf("%s:%s#%d", r.sn, pt, n)
}

func (r *sessRun) driftf(format string, a ...interface{}) {
	r.drift = append(r.drift, fmt.Sprintf(format, a...))
}

// preVeto refuses, before anything is written, the calls for preVetoRoute (and no others).
type preVeto struct{}

const preVetoRoute = "/pre/veto"

func (preVeto) Name() string { return "verif-pre-veto" }
func (preVeto) PreWriteCall(ctx erpc.WriteCtx) *erpc.Status {
	if ctx.Output().ServiceMethod() == preVetoRoute {
		return erpc.NewStatus(778, "refused", "scripted refusal before the write")
	}
	return nil
}

// sessNoisePeer serves the neighbouring connections of neighbourNoise: a peer of its own, without plugins or routes.
var sessNoisePeer erpc.Peer

// neighbourNoise: before a free-running scenario, a few other connections of the process (to another peer) receive
// messages that end with a non-OK handling status -- a push and a call for routes that do not exist, a frame of an
// unsupported type -- and go away.  What they leave behind in the process (pooled handler contexts, buffers) must
// not matter to the session under observation.
func neighbourNoise(n int) {
	if sessNoisePeer == nil {
		sessNoisePeer = erpc.NewPeer(erpc.PeerConfig{})
	}
	var wg sync.WaitGroup
	for k := 0; k < 16; k++ {
		wg.Add(1)
		go func(k int) {
			defer wg.Done()
			a, b := Pipe(fmt.Sprintf("NX%d.%d", n, k), fmt.Sprintf("NY%d.%d", n, k))
			go func() {
				buf := make([]byte, 4096)
				for {
					if _, err := b.Read(buf); err != nil {
						return
					}
				}
			}()
			ns, st := sessNoisePeer.ServeConn(a)
			if !st.OK() {
				return
			}
			b.Write(packFrame(erpc.TypePush, 1, "/no/such/push", &Arg{Tag: "noise"}, nil))
			b.Write(packFrame(erpc.TypeCall, 2, "/no/such/call", &Arg{Tag: "noise"}, nil))
			b.Write(packFrame(9, 3, "/no/such/type", &Arg{Tag: "noise"}, nil))
			select {
			case <-ns.CloseNotify():
			case <-time.After(200 * time.Millisecond):
			}
			b.Close()
			ns.Close()
		}(k)
	}
	wg.Wait()
}

func (r *sessRun) run(n int, seed int64) {
	sc := r.sc
	if sc.Mode != "strict" {
		r.g.RecordOnly()
		neighbourNoise(n)
	}
	r.sn = fmt.Sprintf("S%d", n)
	rn := fmt.Sprintf("R%d", n)
	r.seqOf = map[string]int32{}
	r.hseq = map[string]int32{}
	r.calls = map[string]*callObs{}
	r.fin = map[string]chan struct{}{}
	r.wireSeen = map[int32]bool{}
	r.expBody = map[int32]string{}
	r.closed = map[string]bool{}
	r.holds = map[string]*Behav{}
	r.replied = map[string]bool{}
	r.app.ClearBehav()
	r.g.ResetHits()
	r.rec.SetTrace(sc.ID, map[string]interface{}{"mode": sc.Mode, "s": r.sn})
	strict := sc.Mode == "strict"
	if strict {
		r.g.Record(true)
		for _, p := range sessStrictHolds {
			r.g.Hold(r.key(p))
		}
		// harness-side point of the application handler
	} else {
		r.g.Record(false)
		r.g.RecordOnly("read.frame", "read.spawn", "close.closed", "close.waitedCtx", "rd.loaded")
		r.g.Jitter(seed*7919+int64(n), 3)
		for _, h := range sc.Holds {
			r.g.Hold(r.key(h))
		}
	}
	r.a, r.b = Pipe(r.sn, rn)
	r.raw = socket.NewSocket(r.b)
	sess, stat := r.peer.ServeConn(r.a)
	if !stat.OK() {
		r.driftf("ServeConn failed: %v", stat)
		r.g.ReleaseAll()
		return
	}
	r.sess = sess
	r.rec.Emit("SessEst", "s", r.sn, "id", sess.ID())
	if !strict && n%4 == 1 {
		// earlier on this session: a call that failed before anything was written (its context had been cancelled).
		// It is over and done with; the calls of the scenario must be waited for, completed and counted as if it had
		// never been made
		cctx, cancel := context.WithCancel(context.Background())
		cancel()
		r.sess.Call(CallRoute, &Arg{Tag: "pre"}, nil, erpc.WithContext(cctx))
		r.nseq++
	}
	if !strict && n%4 == 2 {
		// ... or a push whose message setting panics inside Push (an unregistered transfer filter id panics by contract);
		// Push recovers from it, nothing was written
		func() {
			defer func() { recover() }()
			r.sess.Push(PushRoute, &Arg{Tag: "pre"}, erpc.WithXferPipe('?'))
		}()
		// (the setting runs before the sequence number is taken: none was used)
	}
	if !strict && n%4 == 3 {
		// ... or a call that a PreWriteCall plugin of this side refused (nothing was written either)
		r.sess.Call(preVetoRoute, &Arg{Tag: "pre"}, nil)
		r.nseq++
	}
	go r.rawReader()
	if strict {
		if !r.g.WaitParked(r.key("read.next"), stepWait) {
			r.driftf("reader did not park at read.next initially")
		}
	}
	for i, st := range sc.Steps {
		act := st[0].(string)
		id, _ := st[1].(string)
		if strict {
			ok := r.strictStep(act, id)
			if !ok {
				r.driftf("step %d %s(%s): thread did not reach the expected point", i, act, id)
				noteHang()
				break
			}
			r.compare(i, act, st)
		} else {
			r.freeStep(act, id)
		}
	}
	// end of schedule: let everything run, then observe quiescence
	if len(r.holds) > 0 && r.closeInProgress() {
		// a Close() that fails to wait for held handlers gets the time to return first
		time.Sleep(5 * time.Millisecond)
	}
	for _, b := range r.holds {
		releaseHold(b)
	}
	r.g.ReleaseAll()
	r.g.Record(false)
	r.g.Jitter(0, 0)
	r.quiesce()
	r.rec.Emit("End", "s", r.sn, "drift", len(r.drift))
	// tidy up (a session wedged by a defect must not wedge the driver)
	r.rec.Emit("ConnDown", "s", r.sn, "tidy", true)
	r.b.Close()
	fin := make(chan struct{})
	go func() { r.sess.Close(); close(fin) }()
	select {
	case <-fin:
	case <-time.After(300 * time.Millisecond):
	}
	// let the observers of this run finish before the next trace starts
	WaitUntil(600*time.Millisecond, func() bool {
		for _, co := range r.calls {
			select {
			case <-co.done:
			default:
				return false
			}
		}
		return true
	})
	atomic.StoreInt32(&r.ended, 1)
	r.rec.Flush()
}

func releaseHold(b *Behav) {
	defer func() { recover() }()
	close(b.Hold)
}

func (r *sessRun) closeInProgress() bool {
	for name, ch := range r.fin {
		if strings.HasPrefix(name, "close:") {
			select {
			case <-ch:
			default:
				return true
			}
		}
	}
	return false
}

func (g *Gates) jitterOff() { g.mu.Lock(); g.jitter = 0; g.mu.Unlock() }

// startCall launches AsyncCall for call id in its own goroutine.
func (r *sessRun) startCall(id string) {
	r.nseq++
	seq := r.nseq
	r.seqOf[id] = seq
	hitsBefore := r.g.Hits("call.seq")
	co := &callObs{ch: make(chan erpc.CallCmd, 4), done: make(chan struct{})}
	r.calls[id] = co
	fin := make(chan struct{})
	r.fin["call:"+id] = fin
	tag := r.sc.ID + "." + id
	r.wmu2.Lock()
	r.expBody[seq] = `"` + tag + `"`
	r.wmu2.Unlock()
	r.rec.Emit("CallStart", "c", id, "s", r.sn, "arg", tag, "meta", "m-"+tag, "seq", seq)
	ready := make(chan struct{})
	go func() {
		res := new(Res)
		cmd := r.sess.AsyncCall(CallRoute, &Arg{Tag: tag}, res, co.ch, erpc.WithSetMeta(MetaKey, "m-"+tag))
		if cmd == nil {
			// AsyncCall must return the command of the call: without it the caller can never learn the outcome
			r.rec.Emit("CallNil", "c", id, "s", r.sn)
			cmd = erpc.NewFakeCallCmd(CallRoute, nil, nil, erpc.NewStatus(-1, "nil CallCmd", ""))
		}
		co.cmd = cmd
		close(ready)
		r.rec.Emit("CallRet", "c", id, "s", r.sn, "seq", cmd.Output().Seq())
		close(fin)
	}()
	// sequence numbers are allocated in the order the calls are started
	if !WaitUntil(500*time.Millisecond, func() bool { return r.g.Hits("call.seq") > hitsBefore }) {
		r.driftf("call %s did not allocate its sequence number", id)
	} else if got := int32(r.g.LastA("call.seq")); got != seq {
		r.driftf("call %s got seq %d, expected %d", id, got, seq)
	}
	go func() {
		<-ready
		<-co.cmd.Done()
		// drain the completion channel: count deliveries
		deliveries := 0
		timeout := time.After(50 * time.Millisecond)
	L:
		for {
			select {
			case <-co.ch:
				deliveries++
			case <-timeout:
				break L
			}
		}
		st := co.cmd.Status()
		resv, _ := co.cmd.Reply()
		rt := ""
		if rr, ok := resv.(*Res); ok && rr != nil {
			rt = rr.Tag
		}
		rmeta := ""
		if m := co.cmd.InputMeta(); m != nil {
			rmeta = string(m.Peek(MetaKey))
		}
		if atomic.LoadInt32(&r.ended) != 0 {
			close(co.done)
			return // a late completion of a run that is over must not leak into the next trace
		}
		r.rec.Emit("CallDone", "c", id, "s", r.sn, "code", st.Code(), "msg", st.Msg(), "res", rt, "rmeta", rmeta, "deliveries", deliveries,
			"okres", rt == F(tag), "okmeta", rmeta == GM("m-"+tag))
		close(co.done)
	}()
}

func (r *sessRun) startClose(id string) {
	fin := make(chan struct{})
	r.fin["close:"+id] = fin
	go func() {
		r.rec.Emit("CloseCall", "s", r.sn, "k", id)
		r.sess.Close()
		r.rec.Emit("CloseRet", "s", r.sn, "k", id, "health", r.sess.Health())
		close(fin)
	}()
}

func (r *sessRun) waitFin(name string) bool {
	ch := r.fin[name]
	if ch == nil {
		return false
	}
	select {
	case <-ch:
		return true
	case <-time.After(stepWait):
		return false
	}
}

func (r *sessRun) relWait(rel, wait string) bool {
	if rel != "" {
		if !r.g.Release(rel) {
			// the thread is not parked where the model says it is
			if !r.g.WaitParked(rel, stepWait) || !r.g.Release(rel) {
				return false
			}
		}
	}
	if wait != "" {
		return r.g.WaitParked(wait, stepWait)
	}
	return true
}

// waitAny waits until a goroutine is parked at one of the keys; returns its index.
func (r *sessRun) waitAny(keys ...string) int {
	deadline := time.Now().Add(stepWait)
	for time.Now().Before(deadline) {
		for i, k := range keys {
			if strings.HasPrefix(k, "fin:") {
				select {
				case <-r.fin[k[4:]]:
					return i
				default:
				}
			} else if r.g.Parked(k) > 0 {
				return i
			}
		}
		time.Sleep(100 * time.Microsecond)
	}
	return -1
}

func (r *sessRun) hSeq(h string) int32 {
	if s, ok := r.hseq[h]; ok {
		return s
	}
	s := int32(100 + len(r.hseq) + 1)
	r.hseq[h] = s
	return s
}

func (r *sessRun) rawWrite(m socket.Message) error {
	r.wmu.Lock()
	defer r.wmu.Unlock()
	return r.raw.WriteMessage(m)
}

func (r *sessRun) sendReply(c string, kind string) {
	seq := r.seqOf[c]
	m := socket.NewMessage()
	m.SetMtype(erpc.TypeReply)
	m.SetSeq(seq)
	tag := r.sc.ID + "." + c
	if kind == "good" {
		m.SetBodyCodec('j')
		m.SetBody(&Res{Tag: F(tag)})
		m.Meta().Set(MetaKey, GM("m-"+tag))
	} else {
		// body that cannot be decoded, codec id 0
		m.SetBodyCodec(0)
		m.SetBody([]byte("\x01garbage"))
		if r.sc.Mode == "free" {
			// free-running replays vary the hostile answer (the strict ones follow the model's reader steps, which
			// are those of the undecodable codec-0 body): a well-formed frame of an unsupported type in place of
			// the reply, or a reply whose JSON body does not parse
			switch (int(seq) + len(r.sc.ID) + len(r.sentq)) % 3 {
			case 1:
				m.SetMtype(9)
			case 2:
				// (the call completes with Bad Message and the session lives on: kind "badbody" for Layer P)
				m.SetBodyCodec('j')
				m.SetBody([]byte("{{{ not json"))
				kind = "badbody"
			}
		}
	}
	err := r.rawWrite(m)
	if err == nil {
		r.sentq = append(r.sentq, [2]int32{1, seq})
		r.replied[c] = true
		if kind != "good" && kind != "badbody" {
			r.anyBad = true
		}
	}
	r.rec.Emit("RemoteReply", "c", c, "s", r.sn, "seq", seq, "kind", kind, "err", err != nil)
}

func (r *sessRun) sendCall(h string) {
	seq := r.hSeq(h)
	m := socket.NewMessage()
	m.SetMtype(erpc.TypeCall)
	m.SetSeq(seq)
	m.SetServiceMethod(CallRoute)
	m.SetBodyCodec('j')
	tag := r.sc.ID + "." + h
	m.SetBody(&Arg{Tag: tag})
	m.Meta().Set(MetaKey, "m-"+tag)
	r.wmu2.Lock()
	r.expBody[seq] = `"` + F(tag) + `"`
	r.wmu2.Unlock()
	if r.sc.Mode == "free" {
		b := &Behav{Hold: make(chan struct{}), Entered: make(chan struct{})}
		r.holds[h] = b
		r.app.SetBehav(tag, b)
	}
	err := r.rawWrite(m)
	if err == nil {
		r.sentq = append(r.sentq, [2]int32{2, seq})
	}
	r.rec.Emit("RemoteCall", "h", h, "s", r.sn, "seq", seq, "arg", tag, "err", err != nil)
}

// rawReader records every frame the session under test writes.
func (r *sessRun) rawReader() {
	for {
		m := socket.GetMessage(socket.WithNewBody(func(h socket.Header) interface{} { return new([]byte) }))
		err := r.raw.ReadMessage(m)
		if err != nil {
			socket.PutMessage(m)
			return
		}
		code := int32(0)
		if st := m.Status(); st != nil {
			code = st.Code()
		}
		body := ""
		if bp, ok := m.Body().(*[]byte); ok && bp != nil {
			body = string(*bp)
			if len(body) > 120 {
				body = body[:120]
			}
		}
		r.wmu2.Lock()
		r.wireSeen[m.Seq()] = true
		exp := r.expBody[m.Seq()]
		r.wmu2.Unlock()
		bodyok := exp != "" && strings.Contains(body, exp)
		r.rec.Emit("Wire", "s", r.sn, "dir", "out", "mtype", int(m.Mtype()), "seq", m.Seq(), "code", code, "body", body, "bodyok", bodyok)
		socket.PutMessage(m)
	}
}

func (r *sessRun) sawOnWire(seq int32) bool {
	r.wmu2.Lock()
	defer r.wmu2.Unlock()
	return r.wireSeen[seq]
}

// strictStep replays one model action; returns false when the real thread
// did not get where the model says it gets.
func (r *sessRun) strictStep(act, id string) bool {
	k, kn := r.key, r.keyN
	switch act {
	// ---- outbound call
	case "CSeq":
		r.startCall(id)
		return r.g.WaitParked(kn("call.seq", r.seqOf[id]), stepWait)
	case "CStore":
		n := r.seqOf[id]
		return r.relWait(kn("call.seq", n), kn("call.stored", n))
	case "CCheck":
		n := r.seqOf[id]
		if !r.g.Release(kn("call.stored", n)) {
			return false
		}
		return r.waitAny(kn("write.checked", n), kn("cmd.done", n)) >= 0
	case "CWrite":
		n := r.seqOf[id]
		if !r.g.Release(kn("write.checked", n)) {
			return false
		}
		return r.waitAny(kn("call.written", n), kn("cmd.done", n)) >= 0
	case "CFail":
		n := r.seqOf[id]
		if !r.g.Release(kn("cmd.done", n)) {
			return false
		}
		return r.waitFin("call:" + id)
	case "CReturn":
		n := r.seqOf[id]
		if !r.g.Release(kn("call.written", n)) {
			return false
		}
		return r.waitFin("call:" + id)
	// ---- environment
	case "RemoteReply_good":
		r.sendReply(id, "good")
		return true
	case "RemoteReply_bad":
		r.sendReply(id, "bad")
		return true
	case "RemoteCall":
		r.sendCall(id)
		return true
	case "ConnDown":
		r.rec.Emit("ConnDown", "s", r.sn)
		r.connDown = true
		r.b.Close()
		return true
	// ---- reader
	case "RRecv":
		if !r.g.Release(k("read.next")) {
			return false
		}
		w := r.waitAny(k("reply.found"), k("read.frame"))
		r.curReply = 0
		if w == 0 && len(r.sentq) > 0 {
			r.curReply = r.sentq[0][1]
			r.sentq = r.sentq[1:]
		} else if w == 1 {
			if a, _, ok := r.g.ParkedArgs(k("read.frame")); ok && a == 0 && len(r.sentq) > 0 {
				f := r.sentq[0]
				r.sentq = r.sentq[1:]
				if f[0] == 1 { // a reply that matched no pending call
					r.nfq = append(r.nfq, f[1])
				}
			}
		}
		return w >= 0
	case "RLock":
		return r.relWait(k("reply.found"), k("reply.locked"))
	case "RDecode":
		return r.relWait(k("reply.locked"), k("read.frame"))
	case "RFrame":
		if !r.g.Release(k("read.frame")) {
			return false
		}
		for {
			keys := []string{k("read.spawn"), k("rd.loaded")}
			if r.curReply != 0 {
				// early return with a bound reply: the repaired read loop completes the call itself
				keys = append(keys, kn("cmd.done", r.curReply), kn("reply.done", r.curReply))
			}
			w := r.waitAny(keys...)
			if w < 2 {
				return w >= 0
			}
			r.g.Release(keys[w])
		}
	case "RSpawn":
		if !r.g.Release(k("read.spawn")) {
			return false
		}
		return r.waitAny(k("read.next"), k("rd.loaded")) >= 0
	// ---- reply goroutine
	case "RhDone":
		return r.g.WaitParked(kn("cmd.done", r.seqOf[id]), stepWait)
	case "RhComplete":
		n := r.seqOf[id]
		return r.relWait(kn("cmd.done", n), kn("reply.done", n))
	case "RhUnlock":
		n := r.seqOf[id]
		return r.relWait(kn("reply.done", n), kn("ctx.put", n))
	case "RhPut":
		return r.g.Release(kn("ctx.put", r.seqOf[id]))
	case "NfPut":
		// goroutine of a reply that matched no call: parked at ctx.put#seq
		if len(r.nfq) == 0 {
			return false
		}
		n := r.nfq[0]
		r.nfq = r.nfq[1:]
		if !r.g.WaitParked(kn("ctx.put", n), stepWait) {
			return false
		}
		return r.g.Release(kn("ctx.put", n))
	// ---- inbound handler
	case "HEnter":
		return r.g.WaitParked(kn("h.enter", r.hSeq(id)), stepWait)
	case "HCheck":
		n := r.hSeq(id)
		if !r.g.Release(kn("h.enter", n)) {
			return false
		}
		return r.waitAny(kn("write.checked", n), kn("ctx.put", n)) >= 0
	case "HWrite":
		n := r.hSeq(id)
		if !r.g.Release(kn("write.checked", n)) {
			return false
		}
		w := r.waitAny(kn("ctx.put", n), kn("write.checked", n))
		if w == 1 { // second attempt after a write failure (500 reply): let it run
			r.g.Release(kn("write.checked", n))
			w = r.waitAny(kn("ctx.put", n))
		}
		return w >= 0
	case "HPut":
		return r.g.Release(kn("ctx.put", r.hSeq(id)))
	// ---- closer
	case "ClCall":
		return true
	case "ClLock":
		r.startClose(id)
		return r.waitAny(k("close.cas"), "fin:close:"+id) >= 0
	case "ClDelete":
		return r.relWait(k("close.cas"), k("close.deleted"))
	case "ClNotify":
		return r.relWait(k("close.deleted"), k("close.notified"))
	case "ClWaitCtx":
		return r.relWait(k("close.notified"), k("close.waitedCtx"))
	case "ClWaitCalls":
		return r.relWait(k("close.waitedCtx"), k("close.waitedCalls"))
	case "ClClosed":
		return r.relWait(k("close.waitedCalls"), k("close.closed"))
	case "ClSock":
		return r.relWait(k("close.closed"), k("close.sock"))
	case "ClHook":
		return r.relWait(k("close.sock"), k("close.hooked"))
	case "ClReturn":
		if !r.g.Release(k("close.hooked")) {
			return false
		}
		return r.waitFin("close:" + id)
	// ---- readDisconnected
	case "RdStore":
		if !r.g.Release(k("rd.loaded")) {
			return false
		}
		// returns, stores (rd.stored), skips the store (rd.deleted) or reloads (rd.loaded)
		time.Sleep(200 * time.Microsecond)
		r.waitAnyShort(k("rd.stored"), k("rd.deleted"), k("rd.loaded"))
		return true
	case "RdDelete":
		return r.relWait(k("rd.stored"), k("rd.deleted"))
	case "RdWait":
		return r.relWait(k("rd.cancelled"), k("rd.waited"))
	case "RdRange":
		if !r.g.Release(k("rd.deleted")) {
			return false
		}
		// the Range runs until it is done (rd.cancelled) or blocks on a call's mutex
		r.waitAnyShort(k("rd.cancelled"))
		return true
	case "RdCancelOne":
		return true
	case "RdCancelEnd":
		return r.g.WaitParked(k("rd.cancelled"), stepWait)
	case "RdSock":
		if !r.g.Release(k("rd.waited")) {
			return false
		}
		time.Sleep(200 * time.Microsecond)
		r.waitAnyShort(k("rd.sock"))
		return true
	case "RdClosed":
		return r.relWait(k("rd.sock"), k("rd.closed"))
	case "RdHook":
		if !r.relWait(k("rd.closed"), k("rd.hooked")) {
			return false
		}
		return r.g.Release(k("rd.hooked"))
	}
	r.driftf("unknown action %s", act)
	return false
}

func (r *sessRun) waitAnyShort(keys ...string) int {
	deadline := time.Now().Add(20 * time.Millisecond)
	for time.Now().Before(deadline) {
		for i, k := range keys {
			if r.g.Parked(k) > 0 {
				return i
			}
		}
		time.Sleep(100 * time.Microsecond)
	}
	return -1
}

// compare checks the projection of the real session against the model's successor state.
func (r *sessRun) compare(i int, act string, st []interface{}) {
	if len(st) < 8 {
		return
	}
	wantStatus, _ := st[2].(string)
	wantPending := int(st[3].(float64))
	wantIndexed, _ := st[4].(bool)
	wantNotified, _ := st[5].(bool)
	wantHooks := int(st[6].(float64))
	gotStatus := erpc.VerifStatusNames[erpc.VerifStatus(r.sess)]
	gotPending := erpc.VerifPending(r.sess)
	got, ok := r.peer.GetSession(r.sess.ID())
	gotIndexed := ok && got == r.sess
	gotNotified := false
	select {
	case <-r.sess.CloseNotify():
		gotNotified = true
	default:
	}
	gotHooks := r.disc.Count(r.sn)
	if gotStatus != wantStatus {
		r.driftf("step %d %s: status %s, model %s", i, act, gotStatus, wantStatus)
	}
	if act != "RdCancelOne" && act != "RdRange" && gotPending != wantPending {
		r.driftf("step %d %s: pending %d, model %d", i, act, gotPending, wantPending)
	}
	if gotIndexed != wantIndexed {
		r.driftf("step %d %s: indexed %v, model %v", i, act, gotIndexed, wantIndexed)
	}
	if gotNotified != wantNotified {
		r.driftf("step %d %s: notified %v, model %v", i, act, gotNotified, wantNotified)
	}
	if gotHooks != wantHooks {
		r.driftf("step %d %s: discHooks %d, model %d", i, act, gotHooks, wantHooks)
	}
	r.rec.Emit("M", "step", i, "a", act, "status", gotStatus, "pending", gotPending, "indexed", gotIndexed, "notified", gotNotified, "hooks", gotHooks)
}

// freeStep executes only the application and environment actions of the
// behaviour; the framework goroutines run freely (with jitter).
func (r *sessRun) freeStep(act, id string) {
	switch act {
	case "CSeq":
		r.startCall(id)
	case "ClCall":
		if !r.closed[id] {
			r.closed[id] = true
			r.startClose(id)
		}
	case "RemoteReply_good", "RemoteReply_bad":
		// the remote can only reply to a call it has seen
		seq := r.seqOf[id]
		if WaitUntil(300*time.Millisecond, func() bool { return r.sawOnWire(seq) }) {
			r.sendReply(id, strings.TrimPrefix(act, "RemoteReply_"))
		}
	case "RemoteCall":
		r.sendCall(id)
	case "ConnDown":
		r.rec.Emit("ConnDown", "s", r.sn)
		r.connDown = true
		r.b.Close()
	case "HEnter":
		// wait (briefly) until the application handler has really been entered
		if b := r.holds[id]; b != nil {
			select {
			case <-b.Entered:
			case <-time.After(30 * time.Millisecond):
			}
		}
	case "HCheck":
		// the application handler returns now; if a Close() is in progress give a Close that
		// fails to wait the time to return first, so that the trace shows it
		if b := r.holds[id]; b != nil {
			if r.closeInProgress() {
				time.Sleep(3 * time.Millisecond)
			}
			releaseHold(b)
		}
	default:
		if strings.HasPrefix(act, "Cl") || strings.HasPrefix(act, "Rd") {
			time.Sleep(50 * time.Microsecond)
		}
	}
}

// quiesce waits for the run to settle and records the observations of Layer P.
func (r *sessRun) quiesce() {
	start := time.Now()
	// a call is expected to complete if its reply was sent, the connection is down or the reader failed;
	// a Close() is expected to return unless a call is legitimately still waiting for its reply
	// (once the session has reached a closed state every call is expected to be complete: the observer goroutine
	// that notes a completion may lag behind the Close() that caused it, so this is waited for, not sampled)
	expectDone := func(c string) bool {
		if r.replied[c] || r.connDown || r.anyBad {
			return true
		}
		st := erpc.VerifStatus(r.sess)
		return st == 3 || st == 5
	}
	settled := func() bool {
		legitPending := false
		for c, co := range r.calls {
			select {
			case <-co.done:
			default:
				if expectDone(c) {
					return false
				}
				legitPending = true
			}
		}
		for name, ch := range r.fin {
			if strings.HasPrefix(name, "close:") {
				select {
				case <-ch:
				default:
					if !legitPending {
						return false
					}
				}
			}
		}
		return true
	}
	first := 2 * time.Second
	if atomic.LoadInt32(&hangsSeen) >= 2 {
		first = 300 * time.Millisecond
	}
	ok := WaitUntil(first, settled)
	var blocked []string
	if !ok {
		// second stage: wait longer, then classify (once hangs have been seen twice in this
		// process, later scenarios do not pay for the long wait again)
		long := 8 * time.Second
		if atomic.LoadInt32(&hangsSeen) >= 2 {
			long = 500 * time.Millisecond
		}
		ok = WaitUntil(long, settled)
		if !ok {
			noteHang()
			blocked = Blocked("erpc/v6.(*session)", "erpc/v6.(*handlerCtx)", "erpc/v6.(*callCmd)")
		}
	}
	// give asynchronous tails (disconnect hook, notify) a moment
	WaitUntil(200*time.Millisecond, func() bool {
		st := erpc.VerifStatus(r.sess)
		return st == 1 || st == 3 || st == 5
	})
	// ... until the trace has stopped growing (a fixed short sleep is not enough on a loaded machine)
	last, stable := r.rec.Count(), 0
	for i := 0; i < 300 && stable < 4; i++ {
		time.Sleep(500 * time.Microsecond)
		if now := r.rec.Count(); now == last {
			stable++
		} else {
			last, stable = now, 0
		}
	}
	// the disconnect hook is the last step of both close paths (after the status change): awaited, not sampled
	if st := erpc.VerifStatus(r.sess); st == 3 || st == 5 {
		WaitUntil(time.Second, func() bool { return r.disc.Count(r.sn) > 0 })
		// ... and so is the return of a Close() that has reached the closed state (its observer may lag)
		if st == 3 {
			WaitUntil(time.Second, func() bool {
				for name, ch := range r.fin {
					if strings.HasPrefix(name, "close:") {
						select {
						case <-ch:
						default:
							return false
						}
					}
				}
				return true
			})
		}
	}
	// a session that has reached a closed state has completed every call: the observer goroutines that note
	// the completions may lag behind the Close() / disconnect that caused them, so they are awaited (bounded)
	if st := erpc.VerifStatus(r.sess); st == 3 || st == 5 {
		WaitUntil(2*time.Second, func() bool {
			for _, co := range r.calls {
				select {
				case <-co.done:
				default:
					return false
				}
			}
			return true
		})
	}
	pendingCalls := []string{}
	for c, co := range r.calls {
		select {
		case <-co.done:
		default:
			pendingCalls = append(pendingCalls, c)
		}
	}
	unreturned := []string{}
	for name, ch := range r.fin {
		if strings.HasPrefix(name, "close:") {
			select {
			case <-ch:
			default:
				unreturned = append(unreturned, name)
			}
		}
	}
	notified := false
	select {
	case <-r.sess.CloseNotify():
		notified = true
	default:
	}
	got, okk := r.peer.GetSession(r.sess.ID())
	indexed := okk && got == r.sess
	inRange := false
	r.peer.RangeSession(func(s erpc.Session) bool {
		if s == r.sess {
			inRange = true
		}
		return true
	})
	// post-close behaviour of new calls and pushes
	st := erpc.VerifStatus(r.sess)
	health := r.sess.Health()
	var postCall, postPush int32 = -1, -1
	if st != 1 {
		done := make(chan struct{})
		go func() {
			cmd := r.sess.Call(CallRoute, &Arg{Tag: "post"}, new(Res))
			postCall = cmd.Status().Code()
			ps := r.sess.Push(PushRoute, &Arg{Tag: "post"})
			postPush = ps.Code()
			close(done)
		}()
		select {
		case <-done:
		case <-time.After(2 * time.Second):
			postCall = -2
		}
	}
	if blocked == nil {
		blocked = []string{}
	}
	r.rec.Emit("Quiesce", "s", r.sn, "waited_ms", time.Since(start).Milliseconds(),
		"pending", pendingCalls, "unreturned", unreturned, "blocked", blocked,
		"status", erpc.VerifStatusNames[st], "health", health, "notified", notified,
		"indexed", indexed, "inrange", inRange, "hooks", r.disc.Count(r.sn),
		"postcall", postCall, "postpush", postPush, "npending", erpc.VerifPending(r.sess))
}
