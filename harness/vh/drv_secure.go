package vh

import (
	"bufio"
	"bytes"
	"encoding/json"
	"flag"
	"fmt"
	"math/rand"
	"os"
	"strings"
	"sync"
	"sync/atomic"
	"time"

	erpc "github.com/henrylee2cn/erpc/v6"
	"github.com/henrylee2cn/erpc/v6/plugin/secure"
	"github.com/henrylee2cn/erpc/v6/proto/pbproto/pb"
)

func init() { Drivers["secure"] = drvSecure }

// SecureScenario is one cell exported by spec/Secure.tla.
type SecureScenario struct {
	ID       string `json:"id"`
	Kind     string `json:"kind"`
	Marker   string `json:"marker"`
	Accept   string `json:"accept"`
	Enforce  bool   `json:"enforce"`
	Keys     string `json:"keys"`
	KeyLen   int    `json:"keylen"`
	Codec    string `json:"codec"`
	Body     string `json:"body"`
	ReqEnc   bool   `json:"reqenc"`
	Invoked  bool   `json:"invoked"`
	ReplyEn  string `json:"replyenc"`
	Status   string `json:"status"`
	Resend   bool   `json:"resend"`
	Prev     string `json:"prev"`
	SwapSeed bool   `json:"swapseed"`
	Conc     bool   `json:"conc"`
	Hret     string `json:"hret"`
	Nbr      string `json:"nbr"`
	Nret     string `json:"nret"`
}

// secNeighbour is a plugin next to the secure plugin that lets every message pass: each of its read hooks
// (header, pre-body, post-body of CALL / PUSH / REPLY) and write hooks reports success, either with a nil
// status or with a status object of code 0 (scenario field nret). It looks at nothing and changes nothing.
type secNeighbour struct{ okstatus bool }

func (n *secNeighbour) ret() *erpc.Status {
	if n.okstatus {
		return erpc.NewStatus(erpc.CodeOK, "", nil)
	}
	return nil
}
func (n *secNeighbour) Name() string                                  { return "verif-neighbour" }
func (n *secNeighbour) PreWriteCall(erpc.WriteCtx) *erpc.Status       { return n.ret() }
func (n *secNeighbour) PostWriteCall(erpc.WriteCtx) *erpc.Status      { return n.ret() }
func (n *secNeighbour) PreWritePush(erpc.WriteCtx) *erpc.Status       { return n.ret() }
func (n *secNeighbour) PostWritePush(erpc.WriteCtx) *erpc.Status      { return n.ret() }
func (n *secNeighbour) PreWriteReply(erpc.WriteCtx) *erpc.Status      { return n.ret() }
func (n *secNeighbour) PostWriteReply(erpc.WriteCtx) *erpc.Status     { return n.ret() }
func (n *secNeighbour) PostReadCallHeader(erpc.ReadCtx) *erpc.Status  { return n.ret() }
func (n *secNeighbour) PreReadCallBody(erpc.ReadCtx) *erpc.Status     { return n.ret() }
func (n *secNeighbour) PostReadCallBody(erpc.ReadCtx) *erpc.Status    { return n.ret() }
func (n *secNeighbour) PostReadPushHeader(erpc.ReadCtx) *erpc.Status  { return n.ret() }
func (n *secNeighbour) PreReadPushBody(erpc.ReadCtx) *erpc.Status     { return n.ret() }
func (n *secNeighbour) PostReadPushBody(erpc.ReadCtx) *erpc.Status    { return n.ret() }
func (n *secNeighbour) PostReadReplyHeader(erpc.ReadCtx) *erpc.Status { return n.ret() }
func (n *secNeighbour) PreReadReplyBody(erpc.ReadCtx) *erpc.Status    { return n.ret() }
func (n *secNeighbour) PostReadReplyBody(erpc.ReadCtx) *erpc.Status   { return n.ret() }

// secPlace puts the neighbour before or after the secure plugin in a peer's plugin list.
func secPlace(sec erpc.Plugin, nb erpc.Plugin, where string) []erpc.Plugin {
	switch where {
	case "before":
		return []erpc.Plugin{nb, sec}
	case "after":
		return []erpc.Plugin{sec, nb}
	}
	return []erpc.Plugin{sec}
}

// secHret = 1: the CALL handlers report success with a status object of code 0 instead of nil.
var secHret int32

func secOK() *erpc.Status {
	if atomic.LoadInt32(&secHret) == 1 {
		return erpc.NewStatus(erpc.CodeOK, "success", nil)
	}
	return nil
}

// secMute suppresses the handlers' recording (exchanges that only prepare the session, or the concurrent batch).
var secMute int32

// swapSeeder leaves an entry in the swap of every accepted session, as an authentication plugin would.
type swapSeeder struct{}

func (swapSeeder) Name() string { return "verif-swap-seeder" }
func (swapSeeder) PostAccept(s erpc.PreSession) *erpc.Status {
	s.Swap().Store("user", "alice")
	return nil
}

var secEnforce int32
var secRec *Rec
var secWant atomic.Value // expected argument (tag|pad)

// SJ / SP: CALL+PUSH controllers for the secure scenarios (json struct / protobuf bodies).
type SJ struct{ erpc.CallCtx }

func (c *SJ) Call(arg *Arg) (*Res, *erpc.Status) {
	if atomic.LoadInt32(&secMute) == 1 {
		return &Res{Tag: F(arg.Tag), Pad: arg.Pad}, nil
	}
	secRec.Emit("HEnter", "kind", "call", "argok", arg.Tag+"|"+arg.Pad == secWant.Load().(string))
	if atomic.LoadInt32(&secEnforce) == 1 {
		secure.EnforceSecure(c.Output())
	}
	return &Res{Tag: F(arg.Tag), Pad: arg.Pad}, secOK()
}

type SJP struct{ erpc.PushCtx }

func (c *SJP) Push(arg *Arg) *erpc.Status {
	if atomic.LoadInt32(&secMute) == 1 {
		return nil
	}
	secRec.Emit("HEnter", "kind", "push", "argok", arg.Tag+"|"+arg.Pad == secWant.Load().(string))
	return nil
}

type SP struct{ erpc.CallCtx }

func (c *SP) Call(arg *pb.Payload) (*pb.Payload, *erpc.Status) {
	if atomic.LoadInt32(&secMute) == 1 {
		if atomic.LoadInt32(&secEnforce) == 1 {
			secure.EnforceSecure(c.Output())
		}
		return &pb.Payload{ServiceMethod: F(arg.ServiceMethod), Body: arg.Body}, nil
	}
	secRec.Emit("HEnter", "kind", "call", "argok", arg.ServiceMethod+"|"+string(arg.Body) == secWant.Load().(string))
	if atomic.LoadInt32(&secEnforce) == 1 {
		secure.EnforceSecure(c.Output())
	}
	return &pb.Payload{ServiceMethod: F(arg.ServiceMethod), Body: arg.Body}, secOK()
}

type SPP struct{ erpc.PushCtx }

func (c *SPP) Push(arg *pb.Payload) *erpc.Status {
	if atomic.LoadInt32(&secMute) == 1 {
		return nil
	}
	secRec.Emit("HEnter", "kind", "push", "argok", arg.ServiceMethod+"|"+string(arg.Body) == secWant.Load().(string))
	return nil
}

func drvSecure(args []string) int {
	fs := flag.NewFlagSet("secure", flag.ExitOnError)
	in := fs.String("in", "", "scenario file (ndjson)")
	out := fs.String("out", "", "trace file (ndjson)")
	seed := fs.Int64("seed", 1, "seed")
	fs.Parse(args)
	rec, err := NewRec(*out)
	if err != nil {
		fmt.Fprintln(os.Stderr, err)
		return 2
	}
	defer rec.Close()
	secRec = rec
	f, err := os.Open(*in)
	if err != nil {
		fmt.Fprintln(os.Stderr, err)
		return 2
	}
	defer f.Close()
	rd := bufio.NewReaderSize(f, 1<<20)
	n := 0
	for {
		line, err := rd.ReadBytes('\n')
		if len(line) > 1 {
			var sc SecureScenario
			if e := json.Unmarshal(line, &sc); e != nil {
				fmt.Fprintln(os.Stderr, "bad scenario:", e)
				return 2
			}
			n++
			runSecure(rec, &sc, n, rand.New(rand.NewSource(*seed*7919+int64(n))))
		}
		if err != nil {
			break
		}
	}
	rec.Flush()
	return 0
}

// rsSafe derives a short deterministic alphanumeric string from a number (usable from several goroutines).
func rsSafe(k int) string {
	b := make([]byte, 6)
	x := uint32(k)*2654435761 + 12345
	for i := range b {
		x = x*1664525 + 1013904223
		b[i] = alnum[(x>>16)%uint32(len(alnum))]
	}
	return string(b)
}

func runSecure(rec *Rec, sc *SecureScenario, n int, rnd *rand.Rand) {
	rec.SetTrace(sc.ID, map[string]interface{}{"mode": "secure", "kind": sc.Kind, "marker": sc.Marker, "accept": sc.Accept, "enforce": sc.Enforce, "hret": sc.Hret,
		"keys": sc.Keys, "keylen": sc.KeyLen, "codec": sc.Codec, "body": sc.Body, "reqenc": sc.ReqEnc, "invoked": sc.Invoked, "replyenc": sc.ReplyEn, "status": sc.Status, "resend": sc.Resend, "prev": sc.Prev, "swapseed": sc.SwapSeed, "conc": sc.Conc, "nbr": sc.Nbr, "nret": sc.Nret})
	key := func() string {
		b := make([]byte, sc.KeyLen)
		for i := range b {
			b[i] = alnum[rnd.Intn(len(alnum))]
		}
		return string(b)
	}
	k1 := key()
	k2 := k1
	if sc.Keys == "different" {
		k2 = key()
	}
	if sc.Hret == "okstatus" {
		atomic.StoreInt32(&secHret, 1)
	} else {
		atomic.StoreInt32(&secHret, 0)
	}
	if sc.Enforce {
		atomic.StoreInt32(&secEnforce, 1)
	} else {
		atomic.StoreInt32(&secEnforce, 0)
	}
	// the neighbouring plugin (one object per peer): on the serving side before / after the secure plugin or on the
	// routes, on the calling side before / after it ("route": after, the calling peer serves nothing here)
	srvNb, cliNb := &secNeighbour{okstatus: sc.Nret == "okstatus"}, &secNeighbour{okstatus: sc.Nret == "okstatus"}
	cliWhere := sc.Nbr
	if cliWhere == "route" {
		cliWhere = "after"
	}
	var routePlugins []erpc.Plugin
	if sc.Nbr == "route" {
		routePlugins = []erpc.Plugin{srvNb}
	}
	srvPlugins := secPlace(secure.NewPlugin(9999, k2), srvNb, sc.Nbr)
	if sc.SwapSeed {
		srvPlugins = append(srvPlugins, swapSeeder{})
	}
	srv := erpc.NewPeer(erpc.PeerConfig{DefaultBodyCodec: "json"}, srvPlugins...)
	cli := erpc.NewPeer(erpc.PeerConfig{DefaultBodyCodec: "json"}, secPlace(secure.NewPlugin(9999, k1), cliNb, cliWhere)...)
	srv.RouteCall(new(SJ), routePlugins...)
	srv.RoutePush(new(SJP), routePlugins...)
	srv.RouteCall(new(SP), routePlugins...)
	srv.RoutePush(new(SPP), routePlugins...)
	defer func() {
		done := make(chan struct{})
		go func() { cli.Close(); srv.Close(); close(done) }()
		select {
		case <-done:
		case <-time.After(time.Second):
		}
		rec.Flush()
	}()
	var cs erpc.Session
	var a *Conn
	var fw *forwarder
	if sc.Resend {
		// a redial-enabled client over loopback TCP; the connection is lost, the redial fails (server away), the
		// server comes back: the exchange below is then re-written after a redial inside Call / Push
		cli.Close()
		cli = erpc.NewPeer(erpc.PeerConfig{DefaultBodyCodec: "json", RedialTimes: 1, RedialInterval: 3 * time.Millisecond, DialTimeout: 200 * time.Millisecond},
			secure.NewPlugin(9999, k1))
		var err error
		if fw, err = newForwarder(srv); err != nil {
			rec.Emit("SetupFailed")
			return
		}
		defer fw.down()
		fw.tap = true
		s, st := cli.Dial(fw.addr)
		if !st.OK() {
			rec.Emit("SetupFailed")
			return
		}
		cs = s
		fw.waitConn(300 * time.Millisecond)
		fw.down()
		ended := WaitUntil(2*time.Second, func() bool {
			select {
			case <-cs.CloseNotify():
				return true
			default:
				return false
			}
		})
		fw.up()
		if !ended {
			rec.Emit("SetupFailed")
			return
		}
	} else {
		var b *Conn
		a, b = Pipe(fmt.Sprintf("XC%d", n), fmt.Sprintf("XS%d", n))
		a.Tap()
		sd := make(chan struct{})
		go func() { srv.ServeConn(b); close(sd) }()
		var st *erpc.Status
		cs, st = cli.ServeConn(a)
		<-sd
		if !st.OK() {
			rec.Emit("SetupFailed")
			return
		}
	}
	rs := func(k int) string {
		bb := make([]byte, k)
		for i := range bb {
			bb[i] = alnum[rnd.Intn(len(alnum))]
		}
		return string(bb)
	}
	tag := "TAG" + rs(28)
	pad := ""
	switch sc.Body {
	case "short":
		pad = "PAD" + rs(24)
	case "long":
		pad = "PAD" + rs(5000)
	case "special":
		pad = "PAD" + rs(24) + " \"quoted\" \\ & = % + é世"
	}
	secWant.Store(tag + "|" + pad)
	settings := []erpc.MessageSetting{erpc.WithBodyCodec(sc.Codec[0])}
	if sc.Marker == "secure" {
		settings = append(settings, secure.WithSecureMeta())
	}
	switch sc.Accept {
	case "true":
		settings = append(settings, secure.WithAcceptSecureMeta(true))
	case "false":
		settings = append(settings, secure.WithAcceptSecureMeta(false))
	}
	var arg, res interface{}
	var read func() (string, string)
	route := "/sj/call"
	if sc.Kind == "push" {
		route = "/sjp/push"
	}
	if sc.Codec == "p" {
		route = "/sp/call"
		if sc.Kind == "push" {
			route = "/spp/push"
		}
		r := new(pb.Payload)
		arg, res, read = &pb.Payload{ServiceMethod: tag, Body: []byte(pad)}, r, func() (string, string) { return r.ServiceMethod, string(r.Body) }
	} else {
		r := new(Res)
		arg, res, read = &Arg{Tag: tag, Pad: pad}, r, func() (string, string) { return r.Tag, r.Pad }
	}
	tapBase := 0
	inBase := 0
	if sc.Prev == "secure" {
		// an earlier secure call on this session (refused when the keys differ); it is not part of the observation
		atomic.StoreInt32(&secMute, 1)
		var parg, pres interface{} = &Arg{Tag: "prev" + rs(8), Pad: "prevpad"}, new(Res)
		if sc.Codec == "p" {
			parg, pres = &pb.Payload{ServiceMethod: "prev" + rs(8), Body: []byte("prevpad")}, new(pb.Payload)
		}
		proute := "/sj/call"
		if sc.Codec == "p" {
			proute = "/sp/call"
		}
		pd := make(chan struct{})
		go func() {
			cs.Call(proute, parg, pres, erpc.WithBodyCodec(sc.Codec[0]), secure.WithSecureMeta())
			close(pd)
		}()
		select {
		case <-pd:
		case <-time.After(2 * time.Second):
		}
		time.Sleep(time.Millisecond)
		atomic.StoreInt32(&secMute, 0)
		if a != nil {
			o, i := a.Tapped()
			tapBase, inBase = len(o), len(i)
		}
	}
	if sc.Conc {
		// 8 goroutines x 30 exchanges with the scenario's markers at the same time; each checks its own result
		atomic.StoreInt32(&secMute, 1)
		var wg sync.WaitGroup
		var okN, wrong, errs int32
		total := 8 * 30
		for g := 0; g < 8; g++ {
			wg.Add(1)
			go func(g int) {
				defer wg.Done()
				for i := 0; i < 30; i++ {
					t := fmt.Sprintf("conc-%d-%d-%s", g, i, rsSafe(g*100+i))
					var ca, cr interface{}
					var rd func() string
					if sc.Codec == "p" {
						r := new(pb.Payload)
						ca, cr, rd = &pb.Payload{ServiceMethod: t, Body: []byte(t)}, r, func() string { return r.ServiceMethod + "|" + string(r.Body) }
					} else {
						r := new(Res)
						ca, cr, rd = &Arg{Tag: t, Pad: t}, r, func() string { return r.Tag + "|" + r.Pad }
					}
					cmd := cs.Call(route, ca, cr, settings...)
					switch {
					case !cmd.StatusOK():
						atomic.AddInt32(&errs, 1)
					case rd() == F(t)+"|"+t:
						atomic.AddInt32(&okN, 1)
					default:
						atomic.AddInt32(&wrong, 1)
					}
				}
			}(g)
		}
		wd := make(chan struct{})
		go func() { wg.Wait(); close(wd) }()
		select {
		case <-wd:
		case <-time.After(20 * time.Second):
		}
		atomic.StoreInt32(&secMute, 0)
		rec.Emit("ConcDone", "total", total, "ok", atomic.LoadInt32(&okN), "wrong", atomic.LoadInt32(&wrong), "errs", atomic.LoadInt32(&errs))
		return
	}
	if sc.Kind == "call" {
		done := make(chan erpc.CallCmd, 1)
		go func() { done <- cs.Call(route, arg, res, settings...) }()
		select {
		case cmd := <-done:
			rt, rp := read()
			rec.Emit("CallDone", "code", cmd.Status().Code(), "msg", cmd.Status().Msg(), "resok", rt == F(tag) && rp == pad)
		case <-time.After(3 * time.Second):
			rec.Emit("CallHang")
		}
	} else {
		before := rec.Count()
		pst := cs.Push(route, arg, settings...)
		rec.Emit("PushRet", "code", pst.Code())
		// the push is handled asynchronously: wait for its handler (bounded: with another key it never runs)
		wait := 200 * time.Millisecond
		if !sc.Invoked {
			wait = 15 * time.Millisecond
		}
		WaitUntil(wait, func() bool { return rec.Count() >= before+2 })
	}
	time.Sleep(time.Millisecond)
	var out, inb []byte
	if fw != nil {
		out, inb = fw.tapped()
	} else {
		out, inb = a.Tapped()
		if tapBase <= len(out) && inBase <= len(inb) {
			out, inb = out[tapBase:], inb[inBase:] // only the bytes of the observed exchange
		}
	}
	// the tag is searched verbatim; for JSON bodies the pad's special characters are escaped, so the
	// alphanumeric head of the pad is searched as well
	head := pad
	if len(head) > 27 {
		head = head[:27]
	}
	reqclear := bytes.Contains(out, []byte(tag)) || (len(head) >= 20 && bytes.Contains(out, []byte(head)))
	replyclear := bytes.Contains(inb, []byte(F(tag))) || bytes.Contains(inb, []byte(tag)) || (len(head) >= 20 && bytes.Contains(inb, []byte(head)))
	rec.Emit("WireView", "reqclear", reqclear, "replyclear", replyclear, "outlen", len(out), "inlen", len(inb), "hasreply", len(inb) > 0 && strings.Contains(sc.Kind, "call"))
}
