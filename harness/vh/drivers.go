package vh

// Drivers maps driver names to entry points (args → exit code).
var Drivers = map[string]func(args []string) int{}
