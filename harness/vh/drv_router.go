package vh

import (
	"bufio"
	"encoding/json"
	"flag"
	"fmt"
	"github.com/henrylee2cn/erpc/v6/plugin/ignorecase"
	"os"
	"os/exec"
	"strings"
	"sync"
	"time"

	erpc "github.com/henrylee2cn/erpc/v6"
)

func init() {
	Drivers["router"] = drvRouter
	Drivers["routeconflict"] = drvRouteConflict
}

var (
	ranMu sync.Mutex
	ran   []string
)

func noteRan(id string) { ranMu.Lock(); ran = append(ran, id); ranMu.Unlock() }
func takeRan() []string {
	ranMu.Lock()
	defer ranMu.Unlock()
	r := ran
	ran = nil
	if r == nil {
		r = []string{}
	}
	return r
}

type CtlA struct{ erpc.CallCtx }

func (c *CtlA) AaBb(a *Arg) (*Res, *erpc.Status) {
	noteRan("CtlA.AaBb")
	return &Res{Tag: "CtlA.AaBb"}, nil
}
func (c *CtlA) ABcXYz(a *Arg) (*Res, *erpc.Status) {
	noteRan("CtlA.ABcXYz")
	return &Res{Tag: "CtlA.ABcXYz"}, nil
}
func (c *CtlA) Aa_Bb(a *Arg) (*Res, *erpc.Status) {
	noteRan("CtlA.Aa_Bb")
	return &Res{Tag: "CtlA.Aa_Bb"}, nil
}

type Ctl_B struct{ erpc.CallCtx }

func (c *Ctl_B) X(a *Arg) (*Res, *erpc.Status) { noteRan("Ctl_B.X"); return &Res{Tag: "Ctl_B.X"}, nil }
func (c *Ctl_B) ABC_XYZ(a *Arg) (*Res, *erpc.Status) {
	noteRan("Ctl_B.ABC_XYZ")
	return &Res{Tag: "Ctl_B.ABC_XYZ"}, nil
}

type Ctl__A struct{ erpc.CallCtx }

func (c *Ctl__A) AaBb(a *Arg) (*Res, *erpc.Status) {
	noteRan("Ctl__A.AaBb")
	return &Res{Tag: "Ctl__A.AaBb"}, nil
}

// CtlTwin / PshTwin: two methods of one controller that the http mapper sends to the same name.
type CtlTwin struct{ erpc.CallCtx }

func (c *CtlTwin) AaBb(a *Arg) (*Res, *erpc.Status) {
	noteRan("CtlTwin.AaBb")
	return &Res{Tag: "CtlTwin.AaBb"}, nil
}
func (c *CtlTwin) Aa__Bb(a *Arg) (*Res, *erpc.Status) {
	noteRan("CtlTwin.Aa__Bb")
	return &Res{Tag: "CtlTwin.Aa__Bb"}, nil
}

type PshTwin struct{ erpc.PushCtx }

func (c *PshTwin) AaBb(a *Arg) *erpc.Status   { noteRan("PshTwin.AaBb"); return nil }
func (c *PshTwin) Aa__Bb(a *Arg) *erpc.Status { noteRan("PshTwin.Aa__Bb"); return nil }

type PshA struct{ erpc.PushCtx }

func (c *PshA) AaBb(a *Arg) *erpc.Status { noteRan("PshA.AaBb"); return nil }
func (c *PshA) Zz(a *Arg) *erpc.Status   { noteRan("PshA.Zz"); return nil }

func FnCall(ctx erpc.CallCtx, a *Arg) (*Res, *erpc.Status) {
	noteRan("FnCall")
	return &Res{Tag: "FnCall"}, nil
}
func FnPush(ctx erpc.PushCtx, a *Arg) *erpc.Status { noteRan("FnPush"); return nil }

type SameC struct{ erpc.CallCtx }

func (s *SameC) Same(a *Arg) (*Res, *erpc.Status) {
	noteRan("SameCall")
	return &Res{Tag: "SameCall"}, nil
}

type SameP struct{ erpc.PushCtx }

func (s *SameP) Same(a *Arg) *erpc.Status { noteRan("SamePush"); return nil }

func setMapper(m string) {
	if m == "rpc" {
		erpc.SetServiceMethodMapper(erpc.RPCServiceMethodMapper)
	} else {
		erpc.SetServiceMethodMapper(erpc.HTTPServiceMethodMapper)
	}
}

type routeReg interface {
	RouteCall(interface{}, ...erpc.Plugin) []string
	RoutePush(interface{}, ...erpc.Plugin) []string
	RouteCallFunc(interface{}, ...erpc.Plugin) string
	RoutePushFunc(interface{}, ...erpc.Plugin) string
}

func regItem(r routeReg, item string) (ns string, names []string) {
	switch item {
	case "CtlA":
		return "call", r.RouteCall(new(CtlA))
	case "Ctl_B":
		return "call", r.RouteCall(new(Ctl_B))
	case "Ctl__A":
		return "call", r.RouteCall(new(Ctl__A))
	case "PshA":
		return "push", r.RoutePush(new(PshA))
	case "CtlTwin":
		return "call", r.RouteCall(new(CtlTwin))
	case "PshTwin":
		return "push", r.RoutePush(new(PshTwin))
	case "FnCall":
		return "call", []string{r.RouteCallFunc(FnCall)}
	case "FnPush":
		return "push", []string{r.RoutePushFunc(FnPush)}
	case "SameCall":
		return "call", []string{r.RouteCallFunc((*SameC).Same)}
	case "SamePush":
		return "push", []string{r.RoutePushFunc((*SameP).Same)}
	}
	return "", nil
}

func drvRouteConflict(args []string) int {
	fs := flag.NewFlagSet("routeconflict", flag.ExitOnError)
	mapper := fs.String("mapper", "http", "")
	pair := fs.String("pair", "none", "")
	fs.Parse(args)
	setMapper(*mapper)
	p := erpc.NewPeer(erpc.PeerConfig{})
	if *pair == "none" {
		regItem(p, "CtlA")
		regItem(p, "Ctl_B")
		return 0
	}
	for _, it := range strings.Split(*pair, "+") {
		regItem(p, it) // a conflict ends the process with status 1 (erpc.Fatalf)
	}
	return 0
}

func drvRouter(args []string) int {
	fs := flag.NewFlagSet("router", flag.ExitOnError)
	in := fs.String("in", "", "case file (ndjson)")
	out := fs.String("out", "", "trace file (ndjson)")
	fs.Int64("seed", 1, "")
	fs.Parse(args)
	rec, err := NewRec(*out)
	if err != nil {
		fmt.Fprintln(os.Stderr, err)
		return 2
	}
	defer rec.Close()
	f, err := os.Open(*in)
	if err != nil {
		fmt.Fprintln(os.Stderr, err)
		return 2
	}
	defer f.Close()
	defer setMapper("http")
	rd := bufio.NewReaderSize(f, 1<<20)
	n := 0
	mapBatch := 0
	for {
		line, err := rd.ReadBytes('\n')
		if len(line) > 1 {
			var c DataCase
			if e := json.Unmarshal(line, &c); e != nil {
				fmt.Fprintln(os.Stderr, "bad case:", e)
				return 2
			}
			n++
			switch c.S("kind") {
			case "map":
				if mapBatch%500 == 0 {
					rec.SetTrace(fmt.Sprintf("map%d", mapBatch/500), map[string]interface{}{"mode": "map", "unknown": false})
				}
				mapBatch++
				mapCase(rec, c)
			case "reg":
				regCase(rec, c, n)
			case "live":
				liveCase(rec, c, n)
			case "conflict":
				rec.SetTrace(fmt.Sprintf("cf%d", n), map[string]interface{}{"mode": "conflict", "unknown": false})
				cmd := exec.Command(os.Args[0], "routeconflict", "-mapper", c.S("mapper"), "-pair", c.S("pair"))
				cmd.Env = os.Environ()
				err := cmd.Run()
				code := 0
				if err != nil {
					code = 1
					if ee, ok := err.(*exec.ExitError); ok {
						code = ee.ExitCode()
					}
				}
				// the expectation follows the documented table: Ctl__A maps onto CtlA only with the HTTP mapper
				pair := c.S("pair")
				if pair == "CtlA+Ctl__A" && c.S("mapper") == "rpc" {
					pair = "none"
				}
				ec, _ := c["expectconflict"].(bool)
				rec.Emit("Conflict", "pair", pair, "mapper", c.S("mapper"), "exit", code, "expectconflict", ec)
			}
		}
		if err != nil {
			break
		}
	}
	rec.Flush()
	return 0
}

func mapCase(rec *Rec, c DataCase) {
	call := func() (out string, panicked bool) {
		defer func() {
			if p := recover(); p != nil {
				panicked = true
			}
		}()
		if c.S("mapper") == "rpc" {
			return erpc.RPCServiceMethodMapper(c.S("prefix"), c.S("name")), false
		}
		return erpc.HTTPServiceMethodMapper(c.S("prefix"), c.S("name")), false
	}
	o1, p1 := call()
	o2, p2 := call()
	rec.Emit("MapCase", "mapper", c.S("mapper"), "prefix", c.S("prefix"), "name", c.S("name"), "out1", o1, "out2", o2, "panicked", p1 || p2, "expected", c.S("expected"))
}

func regCase(rec *Rec, c DataCase, n int) {
	unknown, _ := c["unknown"].(bool)
	rewrite, _ := c["rewrite"].(bool)
	rec.SetTrace(fmt.Sprintf("reg%d", n), map[string]interface{}{"mode": "reg", "mapper": c.S("mapper"), "group": c.S("group"), "unknown": unknown, "set": c["set"], "rewrite": rewrite})
	setMapper(c.S("mapper"))
	var plugins []erpc.Plugin
	if rewrite {
		plugins = append(plugins, ignorecase.NewIgnoreCase())
	}
	srv := erpc.NewPeer(erpc.PeerConfig{}, plugins...)
	var r routeReg = srv
	if g := c.S("group"); g != "" {
		parts := strings.Split(g, "/")
		sub := srv.SubRoute(parts[0])
		for _, p := range parts[1:] {
			sub = sub.SubRoute(p)
		}
		r = sub
	}
	if unknown {
		srv.SetUnknownCall(func(ctx erpc.UnknownCallCtx) (interface{}, *erpc.Status) {
			noteRan("unknown-call")
			return []byte(`{"tag":"u"}`), nil
		})
		srv.SetUnknownPush(func(ctx erpc.UnknownPushCtx) *erpc.Status { noteRan("unknown-push"); return nil })
	}
	type regd struct {
		ns    string
		names []string
		item  string
	}
	var regs []regd
	for _, it := range strs(c["set"]) {
		ns, names := regItem(r, it)
		hs := make([]string, len(names))
		for i := range hs {
			hs[i] = it
		}
		rec.Emit("Registered", "item", it, "ns", ns, "names", names, "handlers", hs)
		regs = append(regs, regd{ns, names, it})
	}
	pushNames := map[string]bool{}
	for _, rg := range regs {
		if rg.ns == "push" {
			for _, nm := range rg.names {
				pushNames[nm] = true
			}
		}
	}
	cli := erpc.NewPeer(erpc.PeerConfig{})
	defer func() {
		done := make(chan struct{})
		go func() { cli.Close(); srv.Close(); close(done) }()
		select {
		case <-done:
		case <-time.After(time.Second):
		}
		rec.Flush()
	}()
	cs, _, _, _ := connectPeers(cli, srv, fmt.Sprintf("RC%d", n), fmt.Sprintf("RS%d", n))
	request := func(ns, name string) {
		takeRan()
		code := int32(0)
		if ns == "call" {
			res := new(Res)
			done := make(chan erpc.CallCmd, 1)
			go func() { done <- cs.Call(name, &Arg{Tag: "r"}, res) }()
			select {
			case cmd := <-done:
				code = cmd.Status().Code()
			case <-time.After(2 * time.Second):
				code = -999
			}
		} else {
			cs.Push(name, &Arg{Tag: "r"})
			// a push is handled asynchronously: wait for its handler only when one can be expected
			// (the timing of the observation, not its verdict, depends on this)
			if unknown || pushNames[name] || (rewrite && pushNames[strings.ToLower(name)]) {
				WaitUntil(200*time.Millisecond, func() bool { ranMu.Lock(); defer ranMu.Unlock(); return len(ran) > 0 })
			} else {
				time.Sleep(300 * time.Microsecond)
			}
		}
		got := takeRan()
		// struct-level identity of what ran
		ids := make([]string, len(got))
		for i, g := range got {
			ids[i] = strings.SplitN(g, ".", 2)[0]
		}
		rec.Emit("Request", "ns", ns, "name", name, "lname", strings.ToLower(name), "ran", ids, "methods", got, "code", code)
	}
	seen := map[string]bool{}
	try := func(name string) {
		if name == "" || seen[name] || len(name) > 200 {
			return
		}
		seen[name] = true
		request("call", name)
		request("push", name)
	}
	for _, rg := range regs {
		methods := map[string]bool{}
		for _, name := range rg.names {
			takeRan()
			try(name)
			// near misses
			try(strings.ToUpper(name))
			try(strings.ToLower(name) + "x")
			try(strings.Replace(name, "/", "_", 1))
			try(strings.Replace(name, "_", "/", 1))
			try(strings.Replace(name, ".", "_", 1))
			try(name[:len(name)-1])
			try(name + "/")
			try("/" + name)
		}
		_ = methods
	}
	try("/nope")
	try("Nope.Nothing")
}

// liveMissBudget: pushes that should run a handler are awaited generously (the machine may be loaded); once a few of them
// have not run at all in this process the bound is shortened, so that a peer that drops them does not stall the run.
var liveMissBudget = 3

// liveCase executes one scenario of kind "live" (spec/Router.tla): the steps configure the serving peer (unknown handlers,
// routes), establish sessions and make rounds of requests on a named session.  What must run in a round is not decided here:
// the scenario's expectation is copied into a Phase event, the requests report what ran.
func liveCase(rec *Rec, c DataCase, n int) {
	rec.SetTrace(fmt.Sprintf("live%d", n), map[string]interface{}{"mode": "live", "mapper": c.S("mapper"), "group": c.S("group"), "unknown": false,
		"when": c.S("when"), "set": c["set"], "late": c["late"], "rewrite": false})
	setMapper(c.S("mapper"))
	srv := erpc.NewPeer(erpc.PeerConfig{})
	var r routeReg = srv
	if g := c.S("group"); g != "" {
		parts := strings.Split(g, "/")
		sub := srv.SubRoute(parts[0])
		for _, p := range parts[1:] {
			sub = sub.SubRoute(p)
		}
		r = sub
	}
	// the names the scenario's registrations will return, learned on a scratch peer that is configured the same way: every
	// round requests all of them, also those whose route does not exist yet on the serving peer
	var allNames []string
	{
		probe := erpc.NewPeer(erpc.PeerConfig{})
		var pr routeReg = probe
		if g := c.S("group"); g != "" {
			parts := strings.Split(g, "/")
			sub := probe.SubRoute(parts[0])
			for _, p := range parts[1:] {
				sub = sub.SubRoute(p)
			}
			pr = sub
		}
		for _, it := range append(strs(c["set"]), strs(c["late"])...) {
			_, nms := regItem(pr, it)
			allNames = append(allNames, nms...)
		}
		probe.Close()
	}
	cli := erpc.NewPeer(erpc.PeerConfig{})
	defer func() {
		done := make(chan struct{})
		go func() { cli.Close(); srv.Close(); close(done) }()
		select {
		case <-done:
		case <-time.After(time.Second):
		}
		rec.Flush()
	}()
	sessions := map[string]erpc.Session{}
	pushNames := map[string]bool{}
	unknownSet := false
	nconn := 0
	misses := 0
	request := func(sname, phase, ns, name string) {
		cs := sessions[sname]
		if cs == nil {
			return
		}
		takeRan()
		code := int32(0)
		if ns == "call" {
			res := new(Res)
			done := make(chan erpc.CallCmd, 1)
			go func() { done <- cs.Call(name, &Arg{Tag: "r"}, res) }()
			select {
			case cmd := <-done:
				code = cmd.Status().Code()
			case <-time.After(5 * time.Second):
				code = -999
			}
		} else {
			cs.Push(name, &Arg{Tag: "r"})
			// a push is handled asynchronously: wait for its handler only when the configuration made so far can run one
			// (the timing of the observation, not its verdict, depends on this)
			if (unknownSet || pushNames[name]) && misses < 2 {
				bound := 3 * time.Second
				if liveMissBudget <= 0 {
					bound = 500 * time.Millisecond
				}
				if !WaitUntil(bound, func() bool { ranMu.Lock(); defer ranMu.Unlock(); return len(ran) > 0 }) {
					liveMissBudget--
					misses++ // two pushes of this scenario ran nothing within the bound: the rest is observed without waiting
				}
			} else {
				time.Sleep(300 * time.Microsecond)
			}
		}
		got := takeRan()
		ids := make([]string, len(got))
		for i, g := range got {
			ids[i] = strings.SplitN(g, ".", 2)[0]
		}
		rec.Emit("Request", "ns", ns, "name", name, "lname", strings.ToLower(name), "ran", ids, "methods", got, "code", code,
			"sess", sname, "phase", phase, "when", c.S("when"))
	}
	steps, _ := c["steps"].([]interface{})
	for si, raw := range steps {
		m, _ := raw.(map[string]interface{})
		st := DataCase(m)
		switch st.S("op") {
		case "unknown":
			id := st.S("id")
			srv.SetUnknownCall(func(ctx erpc.UnknownCallCtx) (interface{}, *erpc.Status) {
				noteRan(id + "-call")
				return []byte(`{"tag":"u"}`), nil
			})
			srv.SetUnknownPush(func(ctx erpc.UnknownPushCtx) *erpc.Status { noteRan(id + "-push"); return nil })
			unknownSet = true
			rec.Emit("UnknownSet", "id", id, "sessions", len(sessions))
		case "route":
			for _, it := range strs(st["items"]) {
				ns, nms := regItem(r, it)
				hs := make([]string, len(nms))
				for i := range hs {
					hs[i] = it
				}
				rec.Emit("Registered", "item", it, "ns", ns, "names", nms, "handlers", hs, "sessions", len(sessions))
				if ns == "push" {
					for _, nm := range nms {
						pushNames[nm] = true
					}
				}
			}
		case "connect":
			nconn++
			cs, _, _, _ := connectPeers(cli, srv, fmt.Sprintf("LC%d_%d", n, nconn), fmt.Sprintf("LS%d_%d", n, nconn))
			sessions[st.S("sess")] = cs
			rec.Emit("Connected", "sess", st.S("sess"))
		case "requests":
			rec.Emit("Phase", "sess", st.S("sess"), "expunknown", st.S("expunknown"), "step", si)
			phase := fmt.Sprintf("%d", si)
			seen := map[string]bool{}
			try := func(name string) {
				if name == "" || seen[name] || len(name) > 200 {
					return
				}
				seen[name] = true
				request(st.S("sess"), phase, "call", name)
				request(st.S("sess"), phase, "push", name)
			}
			for _, name := range allNames {
				try(name)
				// near misses
				try(strings.ToUpper(name))
				try(strings.ToLower(name) + "x")
				try(name[:len(name)-1])
				try("/" + name)
			}
			try("/nope")
			try("Nope.Nothing")
		}
	}
}
