package vh

import (
	"bufio"
	"encoding/json"
	"flag"
	"fmt"
	"net"
	"os"
	"strings"
	"sync"
	"sync/atomic"
	"syscall"
	"time"

	erpc "github.com/henrylee2cn/erpc/v6"
)

func init() { Drivers["peerlife"] = drvPeer }

// PeerScenario is one history exported by spec/Peer.tla.
type PeerScenario struct {
	ID    string `json:"id"`
	Steps []struct {
		Op     string `json:"op"`
		Slot   int    `json:"slot"`
		Path   string `json:"path"`
		Sv     string `json:"sv"`
		Cv     string `json:"cv"`
		Expect string `json:"expect"`
	} `json:"steps"`
}

// connHooks is the scripted connection-level plugin of one peer: verdict of the
// accept/dial hook for the connection being established, and counters per slot.
type connHooks struct {
	rec       *Rec
	side      string
	mu        sync.Mutex
	cur       int    // slot being established
	reject    bool   // verdict for it
	mode      string // "panic": the hook panics; "idmod": it assigns an id of its own and then wraps the connection
	custom    string // the id assigned in mode idmod
	slotOf    map[interface{}]int
	est       map[int]int // accept/dial hook runs per slot
	disc      map[int]int // disconnect hook runs per slot
	stray     int         // hook runs that could not be attributed
	listening chan struct{}
}

func newConnHooks(rec *Rec, side string) *connHooks {
	return &connHooks{rec: rec, side: side, listening: make(chan struct{}, 4), slotOf: map[interface{}]int{}, est: map[int]int{}, disc: map[int]int{}}
}
func (h *connHooks) Name() string { return "verif-conn-hooks-" + h.side }
func (h *connHooks) arm(slot int, reject bool) {
	h.mu.Lock()
	h.cur, h.reject, h.mode = slot, reject, ""
	h.mu.Unlock()
}
func (h *connHooks) armMode(mode, custom string) {
	h.mu.Lock()
	h.mode, h.custom = mode, custom
	h.mu.Unlock()
}

// passConn wraps a connection without changing anything (what a transport-wrapping plugin hands to ModifySocket).
type passConn struct{ net.Conn }

func (h *connHooks) enter(s interface{}) *erpc.Status {
	h.mu.Lock()
	mode, custom := h.mode, h.custom
	h.slotOf[s] = h.cur
	h.est[h.cur]++
	h.mu.Unlock()
	switch mode {
	case "panic":
		var m map[string]int
		m["boom"] = 1 // the hook panics
	case "idmod":
		if ps, ok := s.(erpc.PreSession); ok {
			ps.SetID(custom)
			ps.ModifySocket(func(conn net.Conn) (net.Conn, erpc.ProtoFunc) { return &passConn{conn}, nil })
		}
	}
	h.mu.Lock()
	defer h.mu.Unlock()
	if h.reject {
		return erpc.NewStatus(403, "Forbidden", "scripted rejection")
	}
	return nil
}
func (h *connHooks) PostListen(net.Addr) error {
	select {
	case h.listening <- struct{}{}:
	default:
	}
	return nil
}
func (h *connHooks) PostAccept(s erpc.PreSession) *erpc.Status { return h.enter(s) }
func (h *connHooks) PostDial(s erpc.PreSession, isRedial bool) *erpc.Status {
	return h.enter(s)
}
func (h *connHooks) PostDisconnect(s erpc.BaseSession) *erpc.Status {
	h.mu.Lock()
	defer h.mu.Unlock()
	if slot, ok := h.slotOf[s]; ok {
		h.disc[slot]++
	} else {
		h.stray++
	}
	return nil
}
func (h *connHooks) counts(slot int) (est, disc int) {
	h.mu.Lock()
	defer h.mu.Unlock()
	return h.est[slot], h.disc[slot]
}

type peerSlot struct {
	path   string
	cs, ss erpc.Session
	a      *Conn // client end of an in-memory connection
	cname  string
	tried  bool
}

func drvPeer(args []string) int {
	fs := flag.NewFlagSet("peerlife", flag.ExitOnError)
	in := fs.String("in", "", "scenario file (ndjson)")
	out := fs.String("out", "", "trace file (ndjson)")
	fs.Int64("seed", 1, "seed")
	fs.Parse(args)
	rec, err := NewRec(*out)
	if err != nil {
		fmt.Fprintln(os.Stderr, err)
		return 2
	}
	defer rec.Close()
	f, err := os.Open(*in)
	if err != nil {
		fmt.Fprintln(os.Stderr, err)
		return 2
	}
	defer f.Close()
	rd := bufio.NewReaderSize(f, 1<<20)
	n := 0
	// schedule perturbation: the goroutine that brings a session up is slow right after it has started the
	// session's reader (the points named *.reader), so that an early disconnect is seen by the reader first
	erpc.VerifPoint = func(point string, sess erpc.Session, a, b int64) {
		if strings.HasSuffix(point, ".reader") {
			time.Sleep(time.Millisecond)
		}
	}
	for {
		line, err := rd.ReadBytes('\n')
		if len(line) > 1 {
			var sc PeerScenario
			if e := json.Unmarshal(line, &sc); e != nil {
				fmt.Fprintln(os.Stderr, "bad scenario:", e)
				return 2
			}
			n++
			runPeer(rec, &sc, n)
		}
		if err != nil {
			break
		}
	}
	rec.Flush()
	return 0
}

func notified(s erpc.Session) bool {
	if s == nil {
		return false
	}
	select {
	case <-s.CloseNotify():
		return true
	default:
		return false
	}
}

func runPeer(rec *Rec, sc *PeerScenario, n int) {
	rec.SetTrace(sc.ID, map[string]interface{}{"mode": "peerlife"})
	app := NewApp(rec, nil)
	CurApp = app
	sh, ch := newConnHooks(rec, "srv"), newConnHooks(rec, "cli")
	srv := erpc.NewPeer(erpc.PeerConfig{}, sh)
	srv.RouteCall(new(T))
	cli := erpc.NewPeer(erpc.PeerConfig{DialTimeout: 2 * time.Second}, ch)
	// both accept loops of the server: in-memory listener and loopback TCP
	mlis := NewMemListener(fmt.Sprintf("PL%d", n))
	// (started one after the other: the peer registers a listener without synchronisation, and starting
	// two accept loops of one peer at the same moment is not among the operations C07 / C14 talk about)
	waitListening := func() {
		select {
		case <-sh.listening:
		case <-time.After(time.Second):
		}
	}
	go erpc.VerifServeListener(srv, mlis)
	waitListening()
	tlis, err := LoopListen()
	if err != nil {
		rec.Emit("SetupFailed", "why", err.Error())
		return
	}
	go erpc.VerifServeListener(srv, tlis)
	waitListening()
	defer func() {
		done := make(chan struct{})
		go func() { cli.Close(); srv.Close(); close(done) }()
		select {
		case <-done:
		case <-time.After(time.Second):
		}
		mlis.Close()
		tlis.Close()
		rec.Flush()
	}()
	slots := map[int]*peerSlot{}
	probe := func() {
		// let asynchronous endings finish: the trace stops growing and the counts stop changing
		lastS, lastC := -1, -1
		for i := 0; i < 200; i++ {
			s, c := srv.CountSession(), cli.CountSession()
			if s == lastS && c == lastC && i >= 3 {
				break
			}
			lastS, lastC = s, c
			time.Sleep(400 * time.Microsecond)
		}
		for k := 1; k <= 3; k++ {
			sl := slots[k]
			if sl == nil || !sl.tried {
				continue
			}
			if sl.ss == nil && sl.cname != "" {
				if s, ok := srv.GetSession(sl.cname); ok {
					sl.ss = s
				}
			}
			se, sd := sh.counts(k)
			ce, cd := ch.counts(k)
			lst := func(p erpc.Peer, s erpc.Session) bool {
				if s == nil {
					return false
				}
				got, ok := p.GetSession(s.ID())
				return ok && got == s
			}
			rec.Emit("SlotProbe", "slot", k, "srvhas", sl.ss != nil, "clihas", sl.cs != nil,
				"srvhealth", sl.ss != nil && sl.ss.Health(), "clihealth", sl.cs != nil && sl.cs.Health(),
				"srvlisted", lst(srv, sl.ss), "clilisted", lst(cli, sl.cs),
				"srvnotified", notified(sl.ss), "clinotified", notified(sl.cs),
				"srvhook", se, "clihook", ce, "srvdisc", sd, "clidisc", cd)
		}
		rec.Emit("Probe", "srvcount", srv.CountSession(), "clicount", cli.CountSession(), "straydisc", sh.stray+ch.stray)
	}
	ended := func(sl *peerSlot) bool {
		return (sl.cs == nil || notified(sl.cs)) && (sl.ss == nil || notified(sl.ss))
	}
	for _, st := range sc.Steps {
		rec.Emit("Op", "op", st.Op, "slot", st.Slot, "path", st.Path, "sv", st.Sv, "cv", st.Cv)
		switch st.Op {
		case "establish":
			sl := &peerSlot{path: st.Path, tried: true}
			slots[st.Slot] = sl
			sh.arm(st.Slot, st.Sv == "reject" || st.Sv == "idreject")
			ch.arm(st.Slot, st.Cv == "reject")
			customID := fmt.Sprintf("custom-%d-%d", n, st.Slot)
			if st.Sv == "panic" || st.Sv == "idmod" {
				sh.armMode(st.Sv, customID)
			}
			if st.Sv == "idreject" {
				sh.armMode("idmod", customID) // the id is assigned, the connection wrapped, and then the verdict is a rejection
			}
			srvOK := st.Sv == "ok" || st.Sv == "idmod"
			cname := fmt.Sprintf("PC%d.%d", n, st.Slot)
			switch st.Path {
			case "serveconn", "listen":
				a, b := Pipe(cname, fmt.Sprintf("PS%d.%d", n, st.Slot))
				sl.a, sl.cname = a, cname
				cd := make(chan struct{})
				go func() { sl.cs, _ = cli.ServeConn(a); close(cd) }()
				if st.Path == "serveconn" {
					sl.ss, _ = srv.ServeConn(b)
				} else {
					mlis.Inject(b)
				}
				<-cd
			case "dial":
				cs, stt := cli.Dial(tlis.Addr().String())
				if stt.OK() {
					sl.cs = cs
					sl.cname = cs.LocalAddr().String()
				}
			}
			// wait for what the two verdicts lead to (bounded; whatever is observed afterwards is recorded)
			if st.Sv == "idmod" || st.Sv == "idreject" {
				sl.cname = customID // the id the server side lists the session under (or must not list it under)
			}
			if srvOK && st.Cv == "ok" {
				WaitUntil(5*time.Second, func() bool {
					if sl.ss == nil && sl.cname != "" {
						if s, ok := srv.GetSession(sl.cname); ok {
							sl.ss = s
						}
					}
					return sl.ss != nil && sl.ss.Health() && sl.cs != nil && sl.cs.Health()
				})
			} else {
				WaitUntil(3*time.Second, func() bool {
					se, _ := sh.counts(st.Slot)
					// (also when the dialling side's own hook rejects: the connection is established at TCP level before Dial
					//  returns, so the accept loop will get it and run its hook, possibly a little later on a loaded machine)
					return ended(sl) && se > 0 && srv.CountSession()+cli.CountSession() == countUp(slots)
				})
				time.Sleep(500 * time.Microsecond)
			}
			// the first use of a session's swap, made by several goroutines at the same moment (swap access is among
			// the operations documented as safe for concurrent use); every entry stored must be there afterwards
			for _, sx := range []erpc.Session{sl.cs, sl.ss} {
				if sx == nil || !sx.Health() {
					continue
				}
				var wg sync.WaitGroup
				var gate int32
				for g := 0; g < 4; g++ {
					wg.Add(1)
					go func(g int) {
						defer wg.Done()
						for atomic.LoadInt32(&gate) == 0 {
						}
						sx.Swap().Store(fmt.Sprintf("k%d", g), g)
					}(g)
				}
				atomic.StoreInt32(&gate, 1)
				wg.Wait()
				if n := sx.Swap().Len(); n != 4 {
					rec.Emit("SwapLost", "slot", st.Slot, "len", n)
				}
			}
			rec.Emit("Established", "slot", st.Slot, "srvhas", sl.ss != nil, "clihas", sl.cs != nil)
		case "dialclosed":
			slots[st.Slot] = &peerSlot{path: "dial"}
			ch.arm(st.Slot, false)
			done := make(chan bool, 1)
			go func() {
				s, stt := cli.Dial(tlis.Addr().String())
				if stt.OK() && s != nil {
					// a connection may still be accepted by the kernel: it must not become a working session
					r := new(Res)
					ok := s.Call(CallRoute, &Arg{Tag: "late"}, r).StatusOK()
					done <- ok
					return
				}
				done <- false
			}()
			select {
			case ok := <-done:
				rec.Emit("DialClosed", "working", ok)
			case <-time.After(3 * time.Second):
				rec.Emit("DialHang")
			}
		case "closecli", "closesrv", "cut":
			sl := slots[st.Slot]
			if sl == nil || sl.cs == nil || sl.ss == nil {
				rec.Emit("Stuck", "why", "no live pair in slot")
				break
			}
			done := make(chan struct{})
			go func() {
				switch st.Op {
				case "closecli":
					sl.cs.Close()
				case "closesrv":
					sl.ss.Close()
				case "cut":
					if sl.a != nil {
						sl.a.Cut()
					} else {
						// the TCP connection goes away under the session
						if c, ok := sl.cs.(interface {
							ControlFD(func(fd uintptr)) error
						}); ok {
							c.ControlFD(func(fd uintptr) { syscall.Shutdown(int(fd), syscall.SHUT_RDWR) })
						}
					}
				}
				close(done)
			}()
			select {
			case <-done:
			case <-time.After(3 * time.Second):
				rec.Emit("CloseHang", "op", st.Op)
			}
			WaitUntil(time.Second, func() bool { return ended(sl) })
		case "call":
			sl := slots[st.Slot]
			if sl == nil || sl.cs == nil {
				rec.Emit("Stuck", "why", "no client session in slot")
				break
			}
			tag := fmt.Sprintf("%s.%d", sc.ID, rec.Count())
			r := new(Res)
			done := make(chan erpc.CallCmd, 1)
			t0 := time.Now()
			go func() { done <- sl.cs.Call(CallRoute, &Arg{Tag: tag}, r) }()
			select {
			case cmd := <-done:
				rec.Emit("CallDone", "slot", st.Slot, "code", cmd.Status().Code(), "resok", r.Tag == F(tag), "ms", time.Since(t0).Milliseconds())
			case <-time.After(3 * time.Second):
				rec.Emit("CallHang", "slot", st.Slot)
			}
		case "peerclosesrv", "peerclosecli":
			p := srv
			if st.Op == "peerclosecli" {
				p = cli
			}
			done := make(chan struct{})
			go func() { p.Close(); close(done) }()
			select {
			case <-done:
			case <-time.After(3 * time.Second):
				rec.Emit("CloseHang", "op", st.Op)
			}
			WaitUntil(time.Second, func() bool {
				for _, sl := range slots {
					if !ended(sl) {
						return false
					}
				}
				return true
			})
		}
		probe()
	}
}

func countUp(slots map[int]*peerSlot) int {
	c := 0
	for _, sl := range slots {
		if sl.cs != nil && sl.cs.Health() {
			c++
		}
		if sl.ss != nil && sl.ss.Health() {
			c++
		}
	}
	return c
}
