package vh

import (
	"bufio"
	"encoding/json"
	"flag"
	"fmt"
	"os"
	"strings"
	"sync"
	"sync/atomic"
	"time"

	erpc "github.com/henrylee2cn/erpc/v6"
	"github.com/henrylee2cn/erpc/v6/plugin/auth"
	"github.com/henrylee2cn/erpc/v6/plugin/overloader"
	"github.com/henrylee2cn/erpc/v6/plugin/proxy"
	"github.com/henrylee2cn/erpc/v6/plugin/secure"
	"github.com/henrylee2cn/erpc/v6/socket"
)

func init() { Drivers["hist"] = drvHist }

// HistScenario is one history exported by spec/History.tla.
type HistScenario struct {
	ID  string   `json:"id"`
	Ops []string `json:"ops"`
}

type histWorld struct {
	rec      *Rec
	app      *App
	backend  erpc.Peer
	prox     erpc.Peer
	caller   erpc.Peer
	mu       sync.Mutex
	fwd      erpc.Session // proxy -> backend
	fwdConn  *Conn
	fwdConnP *Conn        // the proxy's end of the backend connection        // backend end of the proxy-backend connection
	fwdNoise bool         // the forwarder lets other replies be received before it hands a finished call back
	viaProxy erpc.Session // caller -> proxy
	direct   erpc.Session // caller -> backend
	closed   erpc.Session // a session that was closed at start
	n        int
}

func connectPeers(a, b erpc.Peer, an, bn string) (sa, sb erpc.Session, ca, cb *Conn) {
	ca, cb = Pipe(an, bn)
	d := make(chan struct{})
	go func() { sb, _ = b.ServeConn(cb); close(d) }()
	sa, _ = a.ServeConn(ca)
	<-d
	return
}

func (w *histWorld) name(p string) string { w.n++; return fmt.Sprintf("%s%d", p, w.n) }

func (w *histWorld) ensureFwd() erpc.Session {
	w.mu.Lock()
	defer w.mu.Unlock()
	if w.fwd == nil || !w.fwd.Health() {
		w.fwd, _, w.fwdConnP, w.fwdConn = connectPeers(w.prox, w.backend, w.name("PX"), w.name("BK"))
	}
	return w.fwd
}

type fwdT struct{ w *histWorld }

func (f fwdT) Call(uri string, arg interface{}, result interface{}, setting ...erpc.MessageSetting) erpc.CallCmd {
	f.w.mu.Lock()
	s := f.w.fwd
	noise := f.w.fwdNoise
	f.w.mu.Unlock()
	cmd := s.Call(uri, arg, result, setting...)
	if noise {
		// other traffic of the process is received between the completion of the forwarded call and the moment the
		// plugin looks at its reply (what concurrent proxied calls do to each other, made deterministic)
		for i := 0; i < 3; i++ {
			s.Call("/px/echo", &Arg{Tag: "noise", Pad: "RM1zzz-noise"}, new(Res), erpc.WithBodyCodec('j'))
		}
	}
	return cmd
}
func (f fwdT) Push(uri string, arg interface{}, setting ...erpc.MessageSetting) *erpc.Status {
	f.w.mu.Lock()
	s := f.w.fwd
	f.w.mu.Unlock()
	return s.Push(uri, arg, setting...)
}

func newHistWorld(rec *Rec) *histWorld {
	w := &histWorld{rec: rec}
	w.app = NewApp(rec, nil)
	CurApp = w.app
	w.backend = erpc.NewPeer(erpc.PeerConfig{})
	w.backend.RouteCall(new(T))
	w.backend.RouteCall(new(TB)) // /tb/chan: the result cannot be encoded
	w.backend.RoutePush(new(U))
	w.prox = erpc.NewPeer(erpc.PeerConfig{}, proxy.NewPlugin(func(*proxy.Label) proxy.Forwarder { return fwdT{w} }))
	w.caller = erpc.NewPeer(erpc.PeerConfig{})
	w.ensureFwd()
	w.viaProxy, _, _, _ = connectPeers(w.caller, w.prox, w.name("CL"), w.name("PR"))
	w.direct, _, _, _ = connectPeers(w.caller, w.backend, w.name("CL"), w.name("BK"))
	w.closed, _, _, _ = connectPeers(w.caller, w.backend, w.name("CL"), w.name("BK"))
	w.closed.Close()
	return w
}

func statStr(st *erpc.Status) string {
	if st.OK() {
		return "0||"
	}
	c := ""
	if e := st.Cause(); e != nil {
		c = e.Error()
	}
	return fmt.Sprintf("%d|%s|%s", st.Code(), st.Msg(), c)
}

func (w *histWorld) callT(s erpc.Session, route, tag string, body interface{}, timeout time.Duration) (*erpc.Status, *Res) {
	res := new(Res)
	if body == nil {
		body = &Arg{Tag: tag}
	}
	done := make(chan erpc.CallCmd, 1)
	go func() { done <- s.Call(route, body, res, erpc.WithBodyCodec('j')) }()
	if timeout < 10*time.Second {
		timeout = 10 * time.Second // (slow is not hung: the machine may be busy)
	}
	select {
	case cmd := <-done:
		return cmd.Status(), res
	case <-time.After(timeout):
		return erpc.NewStatus(-999, "HANG", ""), res
	}
}

func (w *histWorld) probes() {
	type pr struct {
		name string
		f    func() *erpc.Status
		code int32
	}
	ps := []pr{
		{"closed-call", func() *erpc.Status { st, _ := w.callT(w.closed, CallRoute, "p", nil, 2*time.Second); return st }, erpc.CodeConnClosed},
		{"closed-push", func() *erpc.Status { return w.closed.Push(PushRoute, &Arg{Tag: "p"}) }, erpc.CodeConnClosed},
		{"unknown-route", func() *erpc.Status { st, _ := w.callT(w.direct, "/no/such", "p", nil, 2*time.Second); return st }, erpc.CodeNotFound},
		{"bad-body", func() *erpc.Status {
			st, _ := w.callT(w.direct, CallRoute, "p", []byte(`{"tag":12345}`), 2*time.Second)
			return st
		}, erpc.CodeBadMessage},
	}
	for _, p := range ps {
		st := p.f()
		v := statStr(st)
		exp := v
		if st.Code() != p.code || st.Msg() != erpc.CodeText(p.code) {
			exp = fmt.Sprintf("%d|%s|...", p.code, erpc.CodeText(p.code))
		}
		w.rec.Emit("Probe", "name", p.name, "v", v, "expected", exp)
	}
	w.sentinels()
}

var sentinelCodes = map[string]int32{
	"statInvalidOpError": erpc.CodeInvalidOp, "statUnknownError": erpc.CodeUnknownError, "statDialFailed": erpc.CodeDialFailed,
	"statConnClosed": erpc.CodeConnClosed, "statWriteFailed": erpc.CodeWriteFailed, "statBadMessage": erpc.CodeBadMessage,
	"statNotFound": erpc.CodeNotFound, "statCodeMtypeNotAllowed": erpc.CodeMtypeNotAllowed, "statHandleTimeout": erpc.CodeHandleTimeout,
	"statInternalServerError": erpc.CodeInternalServerError, "statUnpreparedError": erpc.CodeInvalidOp,
}

func (w *histWorld) sentinels() {
	var got, exp []string
	for _, s := range erpc.VerifSentinels() {
		got = append(got, fmt.Sprintf("%s:%d:%s:%s", s.Name, s.Code, s.Msg, s.Cause))
		c := sentinelCodes[s.Name]
		cause := ""
		if s.Name == "statUnpreparedError" {
			cause = "Cannot be called during the Non-PostDial and Non-PostAccept phase"
		}
		exp = append(exp, fmt.Sprintf("%s:%d:%s:%s", s.Name, c, erpc.CodeText(c), cause))
	}
	w.rec.Emit("Sentinels", "v", strings.Join(got, ";"), "expected", strings.Join(exp, ";"))
}

func (w *histWorld) op(op, tag string) {
	switch op {
	case "okcall":
		st, r := w.callT(w.direct, CallRoute, tag, nil, 2*time.Second)
		w.rec.Emit("OpDone", "op", op, "v", statStr(st), "resok", r.Tag == F(tag))
	case "unknownroute":
		st, _ := w.callT(w.direct, "/no/route", tag, nil, 2*time.Second)
		w.rec.Emit("OpDone", "op", op, "v", statStr(st))
	case "undecodable":
		st, _ := w.callT(w.direct, CallRoute, tag, []byte(`{"tag":[1]}`), 2*time.Second)
		w.rec.Emit("OpDone", "op", op, "v", statStr(st))
	case "handlerpanic":
		w.app.SetBehav(tag, &Behav{Outcome: "panic"})
		st, _ := w.callT(w.direct, CallRoute, tag, nil, 2*time.Second)
		w.rec.Emit("OpDone", "op", op, "v", statStr(st))
	case "callclosed":
		st, _ := w.callT(w.closed, CallRoute, tag, nil, 2*time.Second)
		w.rec.Emit("OpDone", "op", op, "v", statStr(st))
	case "pushclosed":
		st := w.closed.Push(PushRoute, &Arg{Tag: tag})
		w.rec.Emit("OpDone", "op", op, "v", statStr(st))
	case "proxyok":
		w.ensureFwd()
		st, r := w.callT(w.viaProxy, CallRoute, tag, nil, 2*time.Second)
		w.rec.Emit("OpDone", "op", op, "v", statStr(st), "resok", r.Tag == F(tag))
	case "proxybackenddown", "proxypushbackenddown":
		w.ensureFwd()
		w.mu.Lock()
		fc, fs := w.fwdConn, w.fwd
		w.mu.Unlock()
		fc.Close() // the backend goes away
		WaitUntil(500*time.Millisecond, func() bool { return !fs.Health() })
		if op == "proxybackenddown" {
			st, _ := w.callT(w.viaProxy, CallRoute, tag, nil, 2*time.Second)
			w.rec.Emit("OpDone", "op", op, "v", statStr(st), "code", st.Code())
		} else {
			st := w.viaProxy.Push(PushRoute, &Arg{Tag: tag})
			time.Sleep(2 * time.Millisecond)
			w.rec.Emit("OpDone", "op", op, "v", statStr(st))
		}
	case "proxycut":
		w.ensureFwd()
		w.mu.Lock()
		fc := w.fwdConn
		w.mu.Unlock()
		ent := make(chan struct{})
		hold := make(chan struct{})
		w.app.SetBehav(tag, &Behav{Entered: ent, Hold: hold})
		go func() {
			select {
			case <-ent:
				fc.Cut() // the connection to the backend is lost while the backend handles the call
			case <-time.After(time.Second):
			}
			time.Sleep(2 * time.Millisecond)
			close(hold)
		}()
		st, _ := w.callT(w.viaProxy, CallRoute, tag, nil, 3*time.Second)
		w.rec.Emit("OpDone", "op", op, "v", statStr(st), "code", st.Code())
	case "authreject":
		srv := erpc.NewPeer(erpc.PeerConfig{}, auth.NewCheckerPlugin(func(sess auth.Session, recv auth.RecvOnce) (interface{}, *erpc.Status) {
			var tok string
			if st := recv(&tok); !st.OK() {
				return nil, st
			}
			return nil, erpc.NewStatus(erpc.CodeUnauthorized, erpc.CodeText(erpc.CodeUnauthorized), "bad token")
		}))
		a, b := Pipe(w.name("AC"), w.name("AS"))
		a.Write(packFrame(erpc.TypeAuthCall, 1, "", "bad", nil))
		_, st := srv.ServeConn(b)
		a.Close()
		srv.Close()
		w.rec.Emit("OpDone", "op", op, "v", statStr(st))
	case "latepre":
		// a PreSession kept beyond the preparing phase: PreReceive reports Invalid Operation, and the caller recycles
		// the message it was given, as the documentation recommends
		in := w.direct.(erpc.PreSession).PreReceive(func(erpc.Header) interface{} { return new(Arg) })
		v := statStr(in.Status())
		socket.PutMessage(in)
		w.rec.Emit("Probe", "name", "latepre", "v", v, "expected", "1|Invalid Operation|Cannot be called during the Non-PostDial and Non-PostAccept phase")
		w.rec.Emit("OpDone", "op", op, "v", v)
	case "userstatus":
		// an accept hook turns a connection away with a status object of its own, which it first sends with PreSend:
		// that object is the plugin's, the framework must not change it
		own := erpc.NewStatus(477, "Own Rejection", "kept by the plugin")
		srv := erpc.NewPeer(erpc.PeerConfig{}, &ownStatusPlug{own})
		a, b := Pipe(w.name("UC"), w.name("US"))
		_, st := srv.ServeConn(b)
		a.Close()
		srv.Close()
		w.rec.Emit("Probe", "name", "userstatus", "v", statStr(own), "expected", "477|Own Rejection|kept by the plugin")
		w.rec.Emit("OpDone", "op", op, "v", statStr(st))
	case "overloadreject":
		srv := erpc.NewPeer(erpc.PeerConfig{}, overloader.New(overloader.LimitConfig{MaxConn: 1}))
		a1, b1 := Pipe(w.name("OC"), w.name("OS"))
		a2, b2 := Pipe(w.name("OC"), w.name("OS"))
		srv.ServeConn(b1)
		_, st := srv.ServeConn(b2)
		a1.Close()
		a2.Close()
		srv.Close()
		w.rec.Emit("OpDone", "op", op, "v", statStr(st))
	case "unencodable":
		// known route, the handler succeeds, its result cannot be encoded: the reply write fails with a codec error
		// (not connection-closed) and the serving side falls back to a 500 reply that carries the cause
		st, _ := w.callT(w.direct, "/tb/chan", tag, nil, 2*time.Second)
		w.opProbe(op, st)
		w.rec.Emit("OpDone", "op", op, "v", statStr(st))
	case "agedunknown", "agedknown":
		// a serving peer of this process whose context age is so small that the handling context has expired when the
		// reply is written: the write is refused (not connection-closed), the fallback reply is written without it
		srv := erpc.NewPeer(erpc.PeerConfig{DefaultContextAge: time.Nanosecond})
		srv.RouteCall(new(T))
		cs, _, _, _ := connectPeers(w.caller, srv, w.name("GC"), w.name("GS"))
		route := CallRoute
		if op == "agedunknown" {
			route = "/no/route"
		}
		st := erpc.NewStatus(-998, "SETUP", "")
		if cs != nil {
			st, _ = w.callT(cs, route, tag, nil, 2*time.Second)
			w.opProbe(op, st)
		}
		srv.Close()
		if cs != nil {
			WaitUntil(500*time.Millisecond, func() bool { return !cs.Health() })
		}
		w.rec.Emit("OpDone", "op", op, "v", statStr(st))
	case "wfailunknown", "wfailknown":
		// the serving side's connection fails every write with a reset error while it still reads (the session looks
		// healthy): the reply and the fallback reply both fail, the caller is answered only by the end of the session
		srv := erpc.NewPeer(erpc.PeerConfig{})
		srv.RouteCall(new(T))
		a, b := Pipe(w.name("WC"), w.name("WS"))
		fb := &wfailConn{Conn: b}
		d := make(chan struct{})
		go func() { srv.ServeConn(fb); close(d) }()
		cs, _ := w.caller.ServeConn(a)
		<-d
		route := CallRoute
		if op == "wfailunknown" {
			route = "/no/route"
		}
		v := "-998|SETUP|"
		if cs != nil {
			cmd := cs.AsyncCall(route, &Arg{Tag: tag}, new(Res), make(chan erpc.CallCmd, 1), erpc.WithBodyCodec('j'))
			// both attempts (reply, fallback reply) have been made
			WaitUntil(2*time.Second, func() bool { return atomic.LoadInt32(&fb.attempts) >= 2 })
			time.Sleep(time.Millisecond)
			srv.Close() // the serving side gives the connection up: the pending call ends
			select {
			case <-cmd.Done():
				v = statStr(cmd.Status())
			case <-time.After(10 * time.Second):
				v = "-999|HANG|"
			}
		} else {
			srv.Close()
		}
		w.rec.Emit("OpDone", "op", op, "v", v, "attempts", atomic.LoadInt32(&fb.attempts))
	case "securemismatch":
		s1 := erpc.NewPeer(erpc.PeerConfig{}, secure.NewPlugin(9999, "0123456789abcdef"))
		s2 := erpc.NewPeer(erpc.PeerConfig{}, secure.NewPlugin(9999, "fedcba9876543210"))
		s1.RouteCall(new(T))
		cs, _, _, _ := connectPeers(s2, s1, w.name("XC"), w.name("XS"))
		res := new(Res)
		st := cs.Call(CallRoute, &Arg{Tag: tag}, res, secure.WithSecureMeta()).Status()
		s2.Close()
		s1.Close()
		w.rec.Emit("OpDone", "op", op, "v", statStr(st))
	}
}

// opProbe records what the caller of a failing operation observed as a probe of that name: the (code, msg, cause) of the
// same failure must be the same every time it is repeated in the process. An operation that did not complete is a
// matter of other properties and is not compared.
func (w *histWorld) opProbe(name string, st *erpc.Status) {
	if st.Code() == -999 {
		return
	}
	v := statStr(st)
	w.rec.Emit("Probe", "name", name, "v", v, "expected", v)
}

// wfailConn is the serving end of an in-memory connection every write of which fails with a reset error while reads
// keep working, so that the session that owns it looks healthy. It counts the write attempts.
type wfailConn struct {
	*Conn
	attempts int32
}

// Write implements net.Conn.
func (c *wfailConn) Write(p []byte) (int, error) {
	atomic.AddInt32(&c.attempts, 1)
	return 0, errReset
}

// ownStatusPlug sends its own status object to the remote end and rejects the connection with it.
type ownStatusPlug struct{ st *erpc.Status }

func (p *ownStatusPlug) Name() string { return "own-status" }
func (p *ownStatusPlug) PostAccept(sess erpc.PreSession) *erpc.Status {
	sess.PreSend(erpc.TypePush, "/own/notice", nil, p.st)
	return p.st
}

func drvHist(args []string) int {
	fs := flag.NewFlagSet("hist", flag.ExitOnError)
	in := fs.String("in", "", "scenario file (ndjson)")
	out := fs.String("out", "", "trace file (ndjson)")
	fs.Int64("seed", 1, "seed")
	fs.Parse(args)
	rec, err := NewRec(*out)
	if err != nil {
		fmt.Fprintln(os.Stderr, err)
		return 2
	}
	defer rec.Close()
	f, err := os.Open(*in)
	if err != nil {
		fmt.Fprintln(os.Stderr, err)
		return 2
	}
	defer f.Close()
	_ = socket.NewMessage
	rd := bufio.NewReaderSize(f, 1<<20)
	w := newHistWorld(rec)
	n := 0
	for {
		line, err := rd.ReadBytes('\n')
		if len(line) > 1 {
			var sc HistScenario
			if e := json.Unmarshal(line, &sc); e != nil {
				fmt.Fprintln(os.Stderr, "bad scenario:", e)
				return 2
			}
			n++
			rec.SetTrace(sc.ID, map[string]interface{}{"mode": "hist", "ops": sc.Ops})
			if n == 1 {
				w.probes()
			}
			for i, o := range sc.Ops {
				w.op(o, fmt.Sprintf("%s.%d", sc.ID, i))
				w.sentinels()
			}
			w.probes()
			rec.Flush()
		}
		if err != nil {
			break
		}
	}
	rec.Flush()
	return 0
}
