package vh

import (
	"github.com/henrylee2cn/erpc/v6/plugin/secure"
	"net/http"
	"runtime"
	"strings"

	"bufio"
	"encoding/json"
	"flag"
	"fmt"
	wsmixer "github.com/henrylee2cn/erpc/v6/mixer/websocket"
	"os"
	"sync"
	"sync/atomic"
	"time"

	erpc "github.com/henrylee2cn/erpc/v6"
	"github.com/henrylee2cn/erpc/v6/proto/jsonproto"
	"github.com/henrylee2cn/erpc/v6/proto/pbproto"
	"github.com/henrylee2cn/erpc/v6/proto/pbproto/pb"
	"github.com/henrylee2cn/erpc/v6/proto/rawproto"
	"github.com/henrylee2cn/erpc/v6/proto/thriftproto"
	"github.com/henrylee2cn/erpc/v6/xfer/gzip"
	"github.com/henrylee2cn/erpc/v6/xfer/md5"
)

func init() {
	Drivers["corr"] = drvCorr
	// importing thriftproto switches the global service method mapper and default codec in its init
	erpc.SetServiceMethodMapper(erpc.HTTPServiceMethodMapper)
	erpc.SetDefaultBodyCodec('j')
	gzip.Reg('g', "gzip-5", 5)
	md5.Reg('m', "md5")
}

// ProtoFuncByName returns the wire protocol constructor for a scenario name.
func ProtoFuncByName(name string) erpc.ProtoFunc {
	switch name {
	case "raw":
		return rawproto.NewRawProtoFunc()
	case "json":
		return jsonproto.NewJSONProtoFunc()
	case "pb":
		return pbproto.NewPbProtoFunc()
	case "thriftbin":
		return thriftproto.NewBinaryProtoFunc()
	case "thriftstruct":
		return thriftproto.NewStructProtoFunc()
	}
	return nil
}

// CorrScenario is one workload cell exported by spec/Workload.tla.
type CorrScenario struct {
	ID       string `json:"id"`
	Proto    string `json:"proto"`
	Codec    string `json:"codec"` // "j","x","f","s","p"
	Pipe     string `json:"pipe"`  // "", "g", "m", "gm", "mg"
	Sessions int    `json:"sessions"`
	Gor      int    `json:"gor"`
	Ops      int    `json:"ops"`
	Size     int    `json:"size"`
	Hold     int    `json:"hold"`
	Barrier  bool   `json:"barrier"`
	Mixed    bool   `json:"mixed"`
	Secure   bool   `json:"secure"`
	Observe  bool   `json:"observe"`
}

// PStr is the argument type used with the plain codec (a named string type).
type PStr string

// corrApp is the instrumented application of the correlation workloads.
type corrApp struct {
	rec    *Rec
	enters int64
	hold   int
	nextH  int64
}

var curCorr *corrApp

func (a *corrApp) handle(kind, sess string, seq int32, meta func() string, read func() (string, string)) (string, string) {
	h := fmt.Sprintf("h%d", atomic.AddInt64(&a.nextH, 1))
	tag, pad := read()
	m0 := meta()
	my := atomic.AddInt64(&a.enters, 1)
	a.rec.Emit("HEnter", "h", h, "s", sess, "kind", kind, "seq", seq, "arg", tag, "padlen", len(pad), "padsum", Sum(pad), "meta", m0, "metaok", m0 == MetaViewFor(tag))
	if a.hold > 0 {
		// stay inside the handler while other messages are read and handled (pooled buffers get reused)
		WaitUntil(15*time.Millisecond, func() bool { return atomic.LoadInt64(&a.enters) >= my+int64(a.hold) })
	}
	t2, p2 := read()
	m2 := meta()
	a.rec.Emit("HRecheck", "h", h, "same", t2 == tag && p2 == pad && m2 == m0, "arg", t2)
	return tag, pad
}

// CT is the CALL/PUSH controller for struct arguments (json, xml, form codecs): /ct/call
type CT struct{ erpc.CallCtx }

func (c *CT) Call(arg *Arg) (*Res, *erpc.Status) {
	tag, pad := curCorr.handle("call", Name(c.Session()), c.Seq(), func() string { return metaView(c) },
		func() (string, string) { return arg.Tag, arg.Pad })
	replyMeta(c, tag)
	return &Res{Tag: F(tag), Pad: pad}, nil
}

// Fail is a handler that sees its input like Call and then fails with a status that names its own call: /ct/fail
func (c *CT) Fail(arg *Arg) (*Res, *erpc.Status) {
	tag, _ := curCorr.handle("call", Name(c.Session()), c.Seq(), func() string { return metaView(c) },
		func() (string, string) { return arg.Tag, arg.Pad })
	return nil, erpc.NewStatus(1001, "m-"+tag, "c-"+tag)
}

// PT is the PUSH controller for struct arguments: /pt/push
type PT struct{ erpc.PushCtx }

func (c *PT) Push(arg *Arg) *erpc.Status {
	curCorr.handle("push", Name(c.Session()), c.Seq(), func() string { return metaView(c) },
		func() (string, string) { return arg.Tag, arg.Pad })
	return nil
}

// CS / PS: plain codec, named string argument "tag|pad": /cs/call, /ps/push
type CS struct{ erpc.CallCtx }

func splitTP(s string) (string, string) {
	for i := 0; i < len(s); i++ {
		if s[i] == '|' {
			return s[:i], s[i+1:]
		}
	}
	return s, ""
}

func (c *CS) Call(arg *PStr) (*PStr, *erpc.Status) {
	tag, pad := curCorr.handle("call", Name(c.Session()), c.Seq(), func() string { return metaView(c) },
		func() (string, string) { return splitTP(string(*arg)) })
	replyMeta(c, tag)
	r := PStr(F(tag) + "|" + pad)
	return &r, nil
}

// OwnedString reads a byte-slice value that the framework has handed over to the application for good: the argument of a
// handler that is still running, the InputBodyBytes of an unknown-message handler, the result of a call that has
// completed.  Nothing in the framework may write to that memory any more (the race check counts a report whose other
// access is the repository's: lib/eng_race.py, "owned read").
//go:noinline
func OwnedString(p *[]byte) string { return string(*p) }

// obsPlug is an observing plugin (metrics / tracing style): its write hooks READ everything the WriteCtx they are given
// documents as readable and change nothing.  PostWriteCall takes a little while (the reply may arrive meanwhile).
type obsPlug struct{ sum int64 }

func (o *obsPlug) Name() string { return "verif-observer" }

func (o *obsPlug) look(c erpc.WriteCtx, rounds int) {
	n := 0
	for i := 0; i < rounds; i++ {
		if c.StatusOK() {
			n++
		}
		if st := c.Status(); st != nil {
			n += int(st.Code()) + len(st.Msg()) + len(st.Cause().Error())
		}
		out := c.Output()
		n += int(out.Seq()) + int(out.Mtype()) + len(out.ServiceMethod()) + int(out.BodyCodec()) + int(out.Size()) + out.XferPipe().Len()
		out.Meta().VisitAll(func(k, v []byte) { n += len(k) + len(v) })
		if st := out.Status(); st != nil {
			n += int(st.Code())
		}
		if sw := c.Swap(); sw != nil {
			n += sw.Len()
		}
		n += len(c.Session().ID()) + len(c.IP()) + c.Session().Swap().Len()
		if i+1 < rounds {
			runtime.Gosched()
		}
	}
	atomic.AddInt64(&o.sum, int64(n))
}
func (o *obsPlug) PreWriteCall(c erpc.WriteCtx) *erpc.Status   { o.look(c, 1); return nil }
func (o *obsPlug) PostWriteCall(c erpc.WriteCtx) *erpc.Status  { o.look(c, 12); return nil }
func (o *obsPlug) PreWritePush(c erpc.WriteCtx) *erpc.Status   { o.look(c, 1); return nil }
func (o *obsPlug) PostWritePush(c erpc.WriteCtx) *erpc.Status  { o.look(c, 3); return nil }
func (o *obsPlug) PreWriteReply(c erpc.WriteCtx) *erpc.Status  { o.look(c, 1); return nil }
func (o *obsPlug) PostWriteReply(c erpc.WriteCtx) *erpc.Status { o.look(c, 3); return nil }

// CB / PBB: raw byte bodies "tag|pad" (argument and result are byte slices, no codec is involved): /cb/call, /pbb/push
type CB struct{ erpc.CallCtx }

func (c *CB) Call(arg *[]byte) ([]byte, *erpc.Status) {
	tag, pad := curCorr.handle("call", Name(c.Session()), c.Seq(), func() string { return metaView(c) },
		func() (string, string) { return splitTP(OwnedString(arg)) })
	replyMeta(c, tag)
	return []byte(F(tag) + "|" + pad), nil
}

type PBB struct{ erpc.PushCtx }

func (c *PBB) Push(arg *[]byte) *erpc.Status {
	curCorr.handle("push", Name(c.Session()), c.Seq(), func() string { return metaView(c) },
		func() (string, string) { return splitTP(OwnedString(arg)) })
	return nil
}

// unknownCB / unknownPBB: the same two handlers as the peer's unknown-message handlers (routes /cbu/call, /pbbu/push are
// not registered): the body is what InputBodyBytes returns
func unknownCB(c erpc.UnknownCallCtx) (interface{}, *erpc.Status) {
	body := c.InputBodyBytes()
	tag, pad := curCorr.handle("call", Name(c.Session()), c.Seq(), func() string { return metaView(c) },
		func() (string, string) { return splitTP(OwnedString(&body)) })
	replyMeta(c, tag)
	return []byte(F(tag) + "|" + pad), nil
}

func unknownPBB(c erpc.UnknownPushCtx) *erpc.Status {
	body := c.InputBodyBytes()
	curCorr.handle("push", Name(c.Session()), c.Seq(), func() string { return metaView(c) },
		func() (string, string) { return splitTP(OwnedString(&body)) })
	return nil
}

type PS struct{ erpc.PushCtx }

func (c *PS) Push(arg *PStr) *erpc.Status {
	curCorr.handle("push", Name(c.Session()), c.Seq(), func() string { return metaView(c) },
		func() (string, string) { return splitTP(string(*arg)) })
	return nil
}

// CP / PP: protobuf codec, pb.Payload as the body type: /cp/call, /pp/push
type CP struct{ erpc.CallCtx }

func (c *CP) Call(arg *pb.Payload) (*pb.Payload, *erpc.Status) {
	tag, pad := curCorr.handle("call", Name(c.Session()), c.Seq(), func() string { return metaView(c) },
		func() (string, string) { return arg.ServiceMethod, string(arg.Body) })
	replyMeta(c, tag)
	return &pb.Payload{ServiceMethod: F(tag), Body: []byte(pad)}, nil
}

type PP struct{ erpc.PushCtx }

func (c *PP) Push(arg *pb.Payload) *erpc.Status {
	curCorr.handle("push", Name(c.Session()), c.Seq(), func() string { return metaView(c) },
		func() (string, string) { return arg.ServiceMethod, string(arg.Body) })
	return nil
}

// CTT / PTT: thrift codec, the harness's thrift document as the body type (Author = tag, Blob = padding): /ctt/call, /ptt/push
type CTT struct{ erpc.CallCtx }

func (c *CTT) Call(arg *ThriftDoc) (*ThriftDoc, *erpc.Status) {
	tag, pad := curCorr.handle("call", Name(c.Session()), c.Seq(), func() string { return metaView(c) },
		func() (string, string) { return arg.Author, string(arg.Blob) })
	replyMeta(c, tag)
	return &ThriftDoc{Author: F(tag), Blob: []byte(pad)}, nil
}

type PTT struct{ erpc.PushCtx }

func (c *PTT) Push(arg *ThriftDoc) *erpc.Status {
	curCorr.handle("push", Name(c.Session()), c.Seq(), func() string { return metaView(c) },
		func() (string, string) { return arg.Author, string(arg.Blob) })
	return nil
}

// metaVisitor is the part of the handler contexts used to read the request metadata.
type metaVisitor interface {
	VisitMeta(f func(key, value []byte))
}

// metaView renders the complete request metadata (every key, in order, with its value).
// pluginMeta: markers the shipped secure plugin adds to a message are the plugin's, not the sender's
func pluginMeta(k []byte) bool { return string(k) == "X-Secure" || string(k) == "X-Accept-Secure" }

func metaView(c metaVisitor) string {
	var b []byte
	c.VisitMeta(func(k, v []byte) {
		if pluginMeta(k) {
			return
		}
		b = append(b, k...)
		b = append(b, '=')
		b = append(b, v...)
		b = append(b, ';')
	})
	return string(b)
}

// metaLayout derives the metadata of a message from its tag: several keys, a repeated key, and a
// key with an EMPTY value whose position (and presence) varies from message to message, so that
// pooled containers see different shapes in consecutive uses.
func metaLayout(tag string) [][2]string {
	h := Sum(tag)
	pairs := [][2]string{{MetaKey, "m-" + tag}, {"r", "1-" + tag}, {"r", "2-" + tag}, {"z", "z-" + tag}}
	switch h % 3 {
	case 0: // an empty value at a varying position
		pos := (h / 3) % (len(pairs) + 1)
		pairs = append(pairs[:pos], append([][2]string{{"e", ""}}, pairs[pos:]...)...)
	case 1: // two empty values
		pairs = append([][2]string{{"e1", ""}}, pairs...)
		pairs = append(pairs[:3], append([][2]string{{"e2", ""}}, pairs[3:]...)...)
	}
	return pairs
}

// MetaFor is the metadata a sender attaches to the message with this tag.
func MetaFor(tag string) []erpc.MessageSetting {
	var out []erpc.MessageSetting
	for _, kv := range metaLayout(tag) {
		out = append(out, erpc.WithAddMeta(kv[0], kv[1]))
	}
	return out
}

// MetaViewFor is what the receiver must see for MetaFor(tag).
func MetaViewFor(tag string) string {
	s := ""
	for _, kv := range metaLayout(tag) {
		s += kv[0] + "=" + kv[1] + ";"
	}
	return s
}

type metaSetter interface {
	SetMeta(key, value string)
	AddMeta(key, value string)
}

func replyMeta(c metaSetter, tag string) {
	for _, kv := range metaLayout("reply." + tag) {
		c.AddMeta(kv[0], kv[1])
	}
}

// ReplyMetaViewFor is the reply metadata the caller must see.
func ReplyMetaViewFor(tag string) string { return MetaViewFor("reply." + tag) }

func corrRoutes(p erpc.Peer) {
	p.RouteCall(new(CT))
	p.RoutePush(new(PT))
	p.RouteCall(new(CS))
	p.RoutePush(new(PS))
	p.RouteCall(new(CB))
	p.RoutePush(new(PBB))
	p.RouteCall(new(CP))
	p.RoutePush(new(PP))
	p.RouteCall(new(CTT))
	p.RoutePush(new(PTT))
}

// PadFor derives a deterministic printable padding of n bytes from a tag.
func PadFor(tag string, n int) string {
	if n == 0 {
		return ""
	}
	b := make([]byte, n)
	h := uint32(2166136261)
	for i := 0; i < len(tag); i++ {
		h = (h ^ uint32(tag[i])) * 16777619
	}
	const al = "abcdefghijklmnopqrstuvwxyz0123456789ABCDEFGHIJKLMNOPQRSTUVWXYZ-_"
	for i := range b {
		h = h*1664525 + 1013904223
		b[i] = al[(h>>24)%uint32(len(al))]
	}
	return string(b)
}

func drvCorr(args []string) int {
	fs := flag.NewFlagSet("corr", flag.ExitOnError)
	in := fs.String("in", "", "scenario file (ndjson)")
	out := fs.String("out", "", "trace file (ndjson)")
	fs.Parse(args)
	rec, err := NewRec(*out)
	if err != nil {
		fmt.Fprintln(os.Stderr, err)
		return 2
	}
	defer rec.Close()
	f, err := os.Open(*in)
	if err != nil {
		fmt.Fprintln(os.Stderr, err)
		return 2
	}
	defer f.Close()
	rd := bufio.NewReaderSize(f, 1<<20)
	n := 0
	for {
		line, err := rd.ReadBytes('\n')
		if len(line) > 1 {
			var sc CorrScenario
			if e := json.Unmarshal(line, &sc); e != nil {
				fmt.Fprintln(os.Stderr, "bad scenario:", e)
				return 2
			}
			n++
			runCorr(rec, &sc, n)
		}
		if err != nil {
			break
		}
	}
	rec.Flush()
	return 0
}

func codecSetting(c string) erpc.MessageSetting {
	if c == "b" {
		return erpc.WithBodyCodec('s') // raw byte bodies bypass the codec; the frame names the plain codec
	}
	return erpc.WithBodyCodec(c[0])
}

func pipeSetting(p string) erpc.MessageSetting {
	if p == "" {
		return nil
	}
	return erpc.WithXferPipe([]byte(p)...)
}

func runCorr(rec *Rec, sc *CorrScenario, n int) {
	rec.SetTrace(sc.ID, map[string]interface{}{"mode": "corr", "proto": sc.Proto, "codec": sc.Codec, "pipe": sc.Pipe,
		"sessions": sc.Sessions, "gor": sc.Gor, "ops": sc.Ops, "size": sc.Size, "hold": sc.Hold})
	app := &corrApp{rec: rec, hold: sc.Hold}
	curCorr = app
	pf := ProtoFuncByName(sc.Proto)
	var plugs []erpc.Plugin
	if sc.Secure {
		// an accept hook that leaves an entry in the swap of every session, and the shipped secure plugin
		plugs = []erpc.Plugin{swapSeeder{}, secure.NewPlugin(9999, "0123456789abcdef")}
	}
	if sc.Observe {
		plugs = []erpc.Plugin{&obsPlug{}}
	}
	srv := erpc.NewPeer(erpc.PeerConfig{DefaultBodyCodec: "json"}, plugs...)
	if sc.Secure {
		plugs = []erpc.Plugin{swapSeeder{}, secure.NewPlugin(9999, "0123456789abcdef")}
	}
	if sc.Observe {
		plugs = []erpc.Plugin{&obsPlug{}}
	}
	cli := erpc.NewPeer(erpc.PeerConfig{DefaultBodyCodec: "json"}, plugs...)
	corrRoutes(srv)
	corrRoutes(cli)
	if sc.Codec == "b" {
		// raw byte bodies: every other message goes to a route that is not registered, i.e. to the unknown-message handlers
		for _, p := range []erpc.Peer{srv, cli} {
			p.SetUnknownCall(unknownCB)
			p.SetUnknownPush(unknownPBB)
		}
	}
	defer func() {
		done := make(chan struct{})
		go func() { cli.Close(); srv.Close(); close(done) }()
		select {
		case <-done:
		case <-time.After(2 * time.Second):
		}
		rec.Flush()
	}()
	type pair struct{ c, s erpc.Session }
	var pairs []pair
	if strings.HasPrefix(sc.Proto, "ws") {
		// the websocket mixer end to end: an http server with the mixer's handler on a loopback port, clients that
		// dial it with the mixer's dial plugin (http upgrade, websocket frames, sub-protocol)
		sub := protoFunc(sc.Proto)
		cli.Close()
		cli = erpc.NewPeer(erpc.PeerConfig{DefaultBodyCodec: "json"}, wsmixer.NewDialPlugin("/"))
		corrRoutes(cli)
		lis, err := LoopListen()
		if err != nil {
			rec.Emit("SetupFailed")
			return
		}
		hs := &http.Server{Handler: wsmixer.NewServeHandler(srv, nil, sub)}
		go hs.Serve(lis)
		defer hs.Close()
		for i := 0; i < sc.Sessions; i++ {
			known := map[erpc.Session]bool{}
			srv.RangeSession(func(x erpc.Session) bool { known[x] = true; return true })
			cs, st := cli.Dial(lis.Addr().String(), sub)
			if !st.OK() {
				rec.Emit("SetupFailed", "why", st.String())
				return
			}
			var ss erpc.Session
			WaitUntil(time.Second, func() bool {
				srv.RangeSession(func(x erpc.Session) bool {
					if !known[x] {
						ss = x
					}
					return true
				})
				return ss != nil && ss.Health()
			})
			if ss == nil {
				rec.Emit("SetupFailed", "why", "no server session")
				return
			}
			pairs = append(pairs, pair{cs, ss})
		}
	}
	for i := 0; i < sc.Sessions && !strings.HasPrefix(sc.Proto, "ws"); i++ {
		a, b := Pipe(fmt.Sprintf("C%d.%d", n, i), fmt.Sprintf("S%d.%d", n, i))
		var ss erpc.Session
		sd := make(chan struct{})
		go func() { ss, _ = srv.ServeConn(b, pf); close(sd) }()
		cs, st := cli.ServeConn(a, pf)
		<-sd
		if !st.OK() || ss == nil {
			rec.Emit("SetupFailed")
			return
		}
		pairs = append(pairs, pair{cs, ss})
	}
	callRoute, pushRoute := "/ct/call", "/pt/push"
	switch sc.Codec {
	case "s":
		callRoute, pushRoute = "/cs/call", "/ps/push"
	case "b":
		callRoute, pushRoute = "/cb/call", "/pbb/push"
	case "p":
		callRoute, pushRoute = "/cp/call", "/pp/push"
	case "t":
		callRoute, pushRoute = "/ctt/call", "/ptt/push"
	}
	mk := func(tag, pad string) (arg interface{}, res interface{}, read func() (string, string)) {
		switch sc.Codec {
		case "s":
			a := PStr(tag + "|" + pad)
			r := new(PStr)
			return &a, r, func() (string, string) { return splitTP(string(*r)) }
		case "b":
			r := new([]byte)
			return []byte(tag + "|" + pad), r, func() (string, string) { return splitTP(OwnedString(r)) }
		case "p":
			r := new(pb.Payload)
			return &pb.Payload{ServiceMethod: tag, Body: []byte(pad)}, r, func() (string, string) { return r.ServiceMethod, string(r.Body) }
		case "t":
			r := new(ThriftDoc)
			return &ThriftDoc{Author: tag, Blob: []byte(pad)}, r, func() (string, string) { return r.Author, string(r.Blob) }
		}
		r := new(Res)
		return &Arg{Tag: tag, Pad: pad}, r, func() (string, string) { return r.Tag, r.Pad }
	}
	// what every completed call handed to its caller is kept, and looked at again when the whole workload is over:
	// a status or reply metadata that belongs to a finished call must not change while later messages are received
	type heldCall struct {
		cmd   erpc.CallCmd
		tag   string
		code  int32
		msg   string
		rmeta string
		rt    string // the result as the caller read it when the call completed ...
		rp    string
		read  func() (string, string) // ... and the way to read it again
	}
	var heldMu sync.Mutex
	var held []heldCall
	var wg sync.WaitGroup
	var started, finished int64
	// barrier profile: round i starts for all goroutines of a session at the same instant
	arrive := make([][]int32, len(pairs))
	for si := range arrive {
		arrive[si] = make([]int32, sc.Ops)
	}
	for si, p := range pairs {
		for g := 0; g < sc.Gor; g++ {
			wg.Add(1)
			go func(si, g int, p pair) {
				defer wg.Done()
				for i := 0; i < sc.Ops; i++ {
					if sc.Barrier {
						atomic.AddInt32(&arrive[si][i], 1)
						for spin := 0; atomic.LoadInt32(&arrive[si][i]) < int32(sc.Gor); spin++ {
							if spin%200 == 199 {
								runtime.Gosched()
							}
						}
					}
					tag := fmt.Sprintf("%s.%d.%d.%d", sc.ID, si, g, i)
					pad := PadFor(tag, sc.Size)
					settings := append([]erpc.MessageSetting{codecSetting(sc.Codec)}, MetaFor(tag)...)
					if sc.Secure {
						settings = append(settings, secure.WithSecureMeta())
					}
					if ps := pipeSetting(sc.Pipe); ps != nil {
						settings = append(settings, ps)
					}
					kind := (g + i) % 4
					sess := p.c
					if kind == 3 {
						sess = p.s // reverse direction: the server side calls the client's handler
					}
					arg, res, read := mk(tag, pad)
					atomic.AddInt64(&started, 1)
					exp, route := "ok", callRoute
					if sc.Mixed && kind != 2 && sc.Codec != "s" && sc.Codec != "p" && sc.Codec != "t" && sc.Codec != "b" {
						switch (g*7 + i) % 5 {
						case 3:
							exp, route = "hstat", "/ct/fail"
						case 4:
							exp, route = "nf", "/ct/nothere"
						}
					}
					proute := pushRoute
					if sc.Codec == "b" && (g+i/4)%2 == 1 {
						route, proute = "/cbu/call", "/pbbu/push" // (not registered: the unknown-message handlers)
					}
					switch kind {
					case 2:
						rec.Emit("CallStart", "c", tag, "kind", "push", "padsum", Sum(pad), "padlen", len(pad))
						st := sess.Push(proute, arg, settings...)
						rec.Emit("PushRet", "c", tag, "code", st.Code())
					default:
						rec.Emit("CallStart", "c", tag, "kind", "call", "padsum", Sum(pad), "padlen", len(pad), "exp", exp)
						var cmd erpc.CallCmd
						if kind == 1 {
							ch := make(chan erpc.CallCmd, 1)
							sess.AsyncCall(route, arg, res, ch, settings...)
							select {
							case cmd = <-ch:
							case <-time.After(5 * time.Second):
							}
						} else {
							d := make(chan erpc.CallCmd, 1)
							go func() { d <- sess.Call(route, arg, res, settings...) }()
							select {
							case cmd = <-d:
							case <-time.After(5 * time.Second):
							}
						}
						if cmd == nil {
							rec.Emit("CallHang", "c", tag)
							continue
						}
						st := cmd.Status()
						_ = cmd.CostTime() // every accessor of a completed call is the caller's to use at once
						rt, rp := read()
						rm := ""
						if m := cmd.InputMeta(); m != nil {
							var b []byte
							m.VisitAll(func(k, v []byte) {
								if pluginMeta(k) {
									return
								}
								b = append(b, k...)
								b = append(b, '=')
								b = append(b, v...)
								b = append(b, ';')
							})
							rm = string(b)
						}
						rec.Emit("CallDone", "c", tag, "code", st.Code(), "msg", st.Msg(), "okres", rt == F(tag), "okpad", rp == pad, "okmeta", rm == ReplyMetaViewFor(tag), "rmeta", rm)
						heldMu.Lock()
						held = append(held, heldCall{cmd: cmd, tag: tag, code: st.Code(), msg: st.Msg(), rmeta: rm, rt: rt, rp: rp, read: read})
						heldMu.Unlock()
					}
					atomic.AddInt64(&finished, 1)
				}
			}(si, g, p)
		}
	}
	wd := make(chan struct{})
	go func() { wg.Wait(); close(wd) }()
	select {
	case <-wd:
	case <-time.After(60 * time.Second):
		rec.Emit("WorkloadHang")
	}
	// pushes are handled asynchronously: wait until every message sent has reached its handler (bounded; a
	// message that never arrives is for the specification to judge), then until the handlers have returned
	WaitUntil(3*time.Second, func() bool { return atomic.LoadInt64(&app.enters) >= atomic.LoadInt64(&started) })
	last, stable := rec.Count(), 0
	for i := 0; i < 400 && stable < 4; i++ {
		time.Sleep(500 * time.Microsecond)
		if now := rec.Count(); now == last {
			stable++
		} else {
			last, stable = now, 0
		}
	}
	changed, firstChanged := 0, ""
	for _, h := range held {
		st := h.cmd.Status()
		rm := ""
		if m := h.cmd.InputMeta(); m != nil {
			var b []byte
			m.VisitAll(func(k, v []byte) {
				if pluginMeta(k) {
					return
				}
				b = append(b, k...)
				b = append(b, '=')
				b = append(b, v...)
				b = append(b, ';')
			})
			rm = string(b)
		}
		if st.Code() != h.code || st.Msg() != h.msg || rm != h.rmeta {
			changed++
			if firstChanged == "" {
				firstChanged = fmt.Sprintf("%s: status %d/%q -> %d/%q, reply metadata %q -> %q", h.tag, h.code, h.msg, st.Code(), st.Msg(), h.rmeta, rm)
			}
		} else if t2, p2 := h.read(); t2 != h.rt || p2 != h.rp {
			// the result the caller was handed is the caller's: later messages must not change it
			changed++
			if firstChanged == "" {
				firstChanged = fmt.Sprintf("%s: result %q|%d bytes -> %q|%d bytes", h.tag, h.rt, len(h.rp), t2, len(p2))
			}
		}
	}
	rec.Emit("Held", "calls", len(held), "changed", changed, "first", firstChanged)
	rec.Emit("End", "started", atomic.LoadInt64(&started), "finished", atomic.LoadInt64(&finished), "enters", atomic.LoadInt64(&app.enters))
}
