package vh

import (
	"errors"
	"fmt"
	"io"
	"net"
	"os"
	"sync"
	"sync/atomic"
	"syscall"
	"time"

	erpc "github.com/henrylee2cn/erpc/v6"
)

// Addr is a named in-memory address.
type Addr struct{ Net, Name string }

// Network implements net.Addr.
func (a Addr) Network() string { return a.Net }

// String implements net.Addr.
func (a Addr) String() string { return a.Name }

var errReset = errors.New("connection reset by peer (cut)")
var errLocalClosed = errors.New("use of closed network connection")
var errPipe = errors.New("broken pipe")

type timeoutErr struct{}

func (timeoutErr) Error() string   { return "i/o timeout" }
func (timeoutErr) Timeout() bool   { return true }
func (timeoutErr) Temporary() bool { return true }

// half is one direction of a duplex in-memory connection.
type half struct {
	mu       sync.Mutex
	cond     *sync.Cond
	buf      []byte
	base     []byte // start of buf's backing array (reused once the reader has drained everything)
	eof      bool   // writer closed: reader sees EOF after draining
	rerr     error  // reader-side immediate error (local close)
	werr     error  // writer-side error
	total    int    // bytes accepted so far
	cutAt    int    // -1: none; otherwise the stream is cut after this many bytes
	onCut    func()
	chunk    func() int // max bytes per Read (nil: unlimited)
	tap      []byte
	tapOn    bool
	rdl      time.Time
	dlTimer  *time.Timer
	resetErr bool
	wdelay   time.Duration // Write returns this long after the bytes were delivered
}

func newHalf() *half {
	h := &half{cutAt: -1}
	h.cond = sync.NewCond(&h.mu)
	return h
}

func (h *half) read(p []byte) (int, error) {
	h.mu.Lock()
	defer h.mu.Unlock()
	for {
		if h.rerr != nil {
			return 0, h.rerr
		}
		if len(h.buf) > 0 {
			n := len(p)
			if n > len(h.buf) {
				n = len(h.buf)
			}
			if h.chunk != nil {
				if c := h.chunk(); c > 0 && c < n {
					n = c
				}
			}
			copy(p, h.buf[:n])
			h.buf = h.buf[n:]
			return n, nil
		}
		if h.eof {
			if h.resetErr {
				return 0, errReset
			}
			return 0, io.EOF
		}
		if !h.rdl.IsZero() && !time.Now().Before(h.rdl) {
			return 0, timeoutErr{}
		}
		h.cond.Wait()
	}
}

func (h *half) write(p []byte) (int, error) {
	h.mu.Lock()
	if h.werr != nil {
		err := h.werr
		h.mu.Unlock()
		return 0, err
	}
	var fire func()
	q := p
	if h.cutAt >= 0 && h.total+len(p) >= h.cutAt {
		keep := h.cutAt - h.total
		if keep < 0 {
			keep = 0
		}
		q = p[:keep]
		h.eof = true
		h.resetErr = true
		h.werr = errPipe
		fire = h.onCut
	}
	drained := len(h.buf) == 0
	if drained {
		h.buf = h.base[:0] // the reader has consumed everything: reuse the backing array
	}
	h.buf = append(h.buf, q...)
	if drained {
		h.base = h.buf[:0]
	}
	if h.tapOn {
		h.tap = append(h.tap, q...)
	}
	h.total += len(q)
	h.cond.Broadcast()
	wd := h.wdelay
	h.mu.Unlock()
	if fire != nil {
		fire()
	}
	if wd > 0 {
		time.Sleep(wd)
	}
	return len(p), nil
}

func (h *half) setReadDeadline(t time.Time) {
	h.mu.Lock()
	h.rdl = t
	if h.dlTimer != nil {
		h.dlTimer.Stop()
		h.dlTimer = nil
	}
	if !t.IsZero() {
		d := time.Until(t)
		if d < 0 {
			d = 0
		}
		h.dlTimer = time.AfterFunc(d, func() { h.mu.Lock(); h.cond.Broadcast(); h.mu.Unlock() })
	}
	h.cond.Broadcast()
	h.mu.Unlock()
}

// Conn is one end of an in-memory, buffered, duplex connection with named
// addresses, optional cut points, chunked delivery and byte taps.
type Conn struct {
	r, w   *half
	la, ra Addr
	once   sync.Once
	peer   *Conn
	wdl    int64 // write deadline (unix nanoseconds, 0 = none)
}

// Pipe creates a connected pair. a is given local address an and remote bn.
func Pipe(an, bn string) (a, b *Conn) {
	ab, ba := newHalf(), newHalf()
	a = &Conn{r: ba, w: ab, la: Addr{"tcp", an}, ra: Addr{"tcp", bn}}
	b = &Conn{r: ab, w: ba, la: Addr{"tcp", bn}, ra: Addr{"tcp", an}}
	a.peer, b.peer = b, a
	return
}

// Read implements net.Conn.
func (c *Conn) Read(p []byte) (int, error) { return c.r.read(p) }

// Write implements net.Conn.
func (c *Conn) Write(p []byte) (int, error) {
	// like a real connection: a write under a write deadline that has passed fails with a timeout
	if dl := atomic.LoadInt64(&c.wdl); dl != 0 && time.Now().UnixNano() > dl {
		return 0, os.ErrDeadlineExceeded
	}
	return c.w.write(p)
}

// Close closes this end: the peer reads EOF after draining; local reads fail.
func (c *Conn) Close() error {
	c.once.Do(func() {
		c.w.mu.Lock()
		c.w.eof = true
		if c.w.werr == nil {
			c.w.werr = errLocalClosed
		}
		c.w.cond.Broadcast()
		c.w.mu.Unlock()
		c.r.mu.Lock()
		c.r.rerr = errLocalClosed
		if c.r.werr == nil {
			c.r.werr = errPipe
		}
		c.r.cond.Broadcast()
		c.r.mu.Unlock()
	})
	return nil
}

// Cut breaks the connection now in both directions: each reader drains what
// was delivered and then gets a reset error; writers get broken pipe.
func (c *Conn) Cut() {
	for _, h := range []*half{c.r, c.w} {
		h.mu.Lock()
		h.eof = true
		h.resetErr = true
		if h.werr == nil {
			h.werr = errPipe
		}
		h.cond.Broadcast()
		h.mu.Unlock()
	}
}

// CutWriteAfter cuts the connection once this end has written k more bytes in
// total (counted from the start of the stream): the peer receives exactly k
// bytes, then a reset; the other direction is cut at that moment.
func (c *Conn) CutWriteAfter(k int) {
	other := c.r
	c.w.mu.Lock()
	c.w.cutAt = k
	c.w.onCut = func() {
		other.mu.Lock()
		other.eof = true
		other.resetErr = true
		if other.werr == nil {
			other.werr = errPipe
		}
		other.cond.Broadcast()
		other.mu.Unlock()
	}
	trigger := c.w.total >= k
	c.w.mu.Unlock()
	if trigger {
		c.Cut()
	}
}

// FailWrites makes every further Write of this end fail with a reset error while
// the read direction stays open: the connection still looks healthy to its owner.
func (c *Conn) FailWrites() {
	c.w.mu.Lock()
	if c.w.werr == nil {
		c.w.werr = errReset
	}
	c.w.mu.Unlock()
}

// SetWriteReturnDelay makes every Write of this end return d after its bytes were delivered to the peer
// (the writing goroutine is slow to come back from the system call).
func (c *Conn) SetWriteReturnDelay(d time.Duration) { c.w.mu.Lock(); c.w.wdelay = d; c.w.mu.Unlock() }

// Unread returns how many bytes written by this end the peer has not read yet.
func (c *Conn) Unread() int { c.w.mu.Lock(); defer c.w.mu.Unlock(); return len(c.w.buf) }

// TapIn starts recording only what this end receives.
func (c *Conn) TapIn() { c.r.mu.Lock(); c.r.tapOn = true; c.r.mu.Unlock() }

// Written returns the number of bytes this end wrote so far.
func (c *Conn) Written() int { c.w.mu.Lock(); defer c.w.mu.Unlock(); return c.w.total }

// SetReadChunk limits the size of each Read on this end.
func (c *Conn) SetReadChunk(f func() int) { c.r.mu.Lock(); c.r.chunk = f; c.r.mu.Unlock() }

// Tap starts capturing the bytes flowing in both directions.
func (c *Conn) Tap() {
	c.r.mu.Lock()
	c.r.tapOn = true
	c.r.mu.Unlock()
	c.w.mu.Lock()
	c.w.tapOn = true
	c.w.mu.Unlock()
}

// Tapped returns the captured bytes (written by this end, read by this end).
func (c *Conn) Tapped() (out, in []byte) {
	c.w.mu.Lock()
	out = append([]byte(nil), c.w.tap...)
	c.w.mu.Unlock()
	c.r.mu.Lock()
	in = append([]byte(nil), c.r.tap...)
	c.r.mu.Unlock()
	return
}

// LocalAddr implements net.Conn.
func (c *Conn) LocalAddr() net.Addr { return c.la }

// RemoteAddr implements net.Conn.
func (c *Conn) RemoteAddr() net.Addr { return c.ra }

// SetDeadline implements net.Conn.
func (c *Conn) SetDeadline(t time.Time) error {
	c.r.setReadDeadline(t)
	return c.SetWriteDeadline(t)
}

// SetReadDeadline implements net.Conn.
func (c *Conn) SetReadDeadline(t time.Time) error { c.r.setReadDeadline(t); return nil }

// SetWriteDeadline implements net.Conn (writes never block; a write after the deadline has passed fails).
func (c *Conn) SetWriteDeadline(t time.Time) error {
	if t.IsZero() {
		atomic.StoreInt64(&c.wdl, 0)
	} else {
		atomic.StoreInt64(&c.wdl, t.UnixNano())
	}
	return nil
}

// MemListener is an in-memory net.Listener: Inject hands the server end of a
// Pipe to the accept loop (erpc.VerifServeListener).
type MemListener struct {
	name string
	ch   chan net.Conn
	done chan struct{}
	once sync.Once
}

// NewMemListener creates a listener with the given address name.
func NewMemListener(name string) *MemListener {
	return &MemListener{name: name, ch: make(chan net.Conn, 64), done: make(chan struct{})}
}

// Accept implements net.Listener.
func (l *MemListener) Accept() (net.Conn, error) {
	select {
	case c := <-l.ch:
		return c, nil
	case <-l.done:
		return nil, errors.New("listener closed")
	}
}

// Close implements net.Listener.
func (l *MemListener) Close() error { l.once.Do(func() { close(l.done) }); return nil }

// Addr implements net.Listener.
func (l *MemListener) Addr() net.Addr { return Addr{"tcp", l.name} }

// Inject makes the accept loop receive c as a new connection.
func (l *MemListener) Inject(c net.Conn) {
	select {
	case l.ch <- c:
	case <-l.done:
	}
}

// NoLinger wraps a TCP listener: accepted connections are closed with a reset instead of the orderly shutdown, so that
// they leave no TIME_WAIT entry behind (drivers that open tens of thousands of loopback connections would otherwise
// exhaust the local ports of the machine).
type NoLinger struct{ net.Listener }

// Accept implements net.Listener.
func (l NoLinger) Accept() (net.Conn, error) {
	c, err := l.Listener.Accept()
	if tc, ok := c.(*net.TCPConn); ok {
		tc.SetLinger(0)
	}
	return c, err
}

// NoLingerDial is a dial hook that does the same on the dialling side (also for re-dialled connections).
type NoLingerDial struct{}

// Name implements erpc.Plugin.
func (NoLingerDial) Name() string { return "verif-no-linger" }

// PostDial implements erpc.PostDialPlugin.
func (NoLingerDial) PostDial(sess erpc.PreSession, isRedial bool) *erpc.Status {
	sess.ControlFD(func(fd uintptr) {
		syscall.SetsockoptLinger(int(fd), syscall.SOL_SOCKET, syscall.SO_LINGER, &syscall.Linger{Onoff: 1, Linger: 0})
	})
	return nil
}

// LoopListen listens on a loopback address that belongs to this process alone: 127.x.y.z derived from the
// process id (the whole 127/8 block is loopback).  Several checks may run on one machine at the same time; a
// redialing client of one of them must never reach a listener of another that happened to get its old port.
func LoopListen() (net.Listener, error) {
	pid := os.Getpid()
	ip := fmt.Sprintf("127.%d.%d.%d", 1+(pid>>16)%250, (pid>>8)&255, 1+pid&127)
	l, err := net.Listen("tcp", ip+":0")
	if err != nil {
		return net.Listen("tcp", "127.0.0.1:0")
	}
	return l, nil
}
