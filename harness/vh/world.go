package vh

import (
	"fmt"
	"net"
	"os"
	"runtime"
	"strings"
	"sync"
	"sync/atomic"
	"time"

	erpc "github.com/henrylee2cn/erpc/v6"
)

// Quiet switches the framework's logging off.
func Quiet() {
	if os.Getenv("VERIF_LOG") == "" {
		erpc.SetLoggerLevel("OFF")
	}
}

// Arg is the argument type of the instrumented handlers.
type Arg struct {
	Tag string `json:"tag" xml:"tag" form:"tag"`
	Pad string `json:"pad" xml:"pad" form:"pad"`
}

// Res is the result type of the instrumented handlers.
type Res struct {
	Tag string `json:"tag" xml:"tag" form:"tag"`
	Pad string `json:"pad" xml:"pad" form:"pad"`
}

// F is the function every OK handler computes on the tag.
func F(tag string) string { return "R(" + tag + ")" }

// GM is the function every OK handler computes on the request meta value.
func GM(v string) string { return "M(" + v + ")" }

// MetaKey is the request/reply metadata key used by the instrumented code.
const MetaKey = "vk"

// Behav is the scripted behaviour of one handler activation, looked up by tag.
type Behav struct {
	Hold    chan struct{} // if non-nil the handler blocks on it after HEnter
	Outcome string        // "ok" (default), "status", "panic", "panic_after"
	Code    int32
	Msg     string
	Cause   string
	Entered chan struct{} // closed when the handler is entered (if non-nil)
	Delay   time.Duration // the handler takes this long
	ResPad  int           // > 0: the result carries a padding of this many bytes
}

// App is the instrumented application code shared by the drivers.
type App struct {
	Rec    *Rec
	G      *Gates
	mu     sync.Mutex
	behav  map[string]*Behav
	nextH  int64
	Enters int64
	// EntersPush counts the push handler activations among Enters.
	EntersPush int64
}

// NewApp creates the application kit.
func NewApp(rec *Rec, g *Gates) *App {
	return &App{Rec: rec, G: g, behav: map[string]*Behav{}}
}

// SetBehav scripts the handler activation that receives tag.
func (a *App) SetBehav(tag string, b *Behav) { a.mu.Lock(); a.behav[tag] = b; a.mu.Unlock() }

// ClearBehav forgets all scripted behaviours.
func (a *App) ClearBehav() { a.mu.Lock(); a.behav = map[string]*Behav{}; a.mu.Unlock() }

func (a *App) getBehav(tag string) *Behav {
	a.mu.Lock()
	defer a.mu.Unlock()
	return a.behav[tag]
}

// Name returns the harness name of a session (its connection's local address).
func Name(s interface{ LocalAddr() net.Addr }) string {
	defer func() { recover() }()
	return s.LocalAddr().String()
}

func (a *App) handle(kind string, sessName string, seq int32, method string, meta string, arg *Arg, reread func() (string, string)) (res *Res, stat *erpc.Status) {
	h := fmt.Sprintf("h%d", atomic.AddInt64(&a.nextH, 1))
	atomic.AddInt64(&a.Enters, 1)
	if kind == "push" {
		atomic.AddInt64(&a.EntersPush, 1)
	}
	tag := arg.Tag
	a.Rec.Emit("HEnter", "h", h, "s", sessName, "kind", kind, "m", method, "seq", seq, "arg", arg.Tag, "pad", len(arg.Pad), "padsum", Sum(arg.Pad), "meta", meta)
	b := a.getBehav(tag)
	outcome := "ok"
	defer func() {
		if p := recover(); p != nil {
			a.Rec.Emit("HExit", "h", h, "s", sessName, "seq", seq, "outcome", "panic")
			panic(p)
		}
	}()
	if b != nil {
		if b.Entered != nil {
			close(b.Entered)
		}
		if b.Hold != nil {
			<-b.Hold
		}
		if b.Delay > 0 {
			time.Sleep(b.Delay)
		}
		if b.Outcome != "" {
			outcome = b.Outcome
		}
	}
	if a.G != nil {
		a.G.AppPoint("h.enter", sessName, int64(seq))
	}
	if reread != nil {
		t2, m2 := reread()
		a.Rec.Emit("HRecheck", "h", h, "s", sessName, "arg", t2, "meta", m2, "same", t2 == tag && m2 == meta)
	}
	switch outcome {
	case "panic":
		panic("scripted panic " + tag)
	case "status":
		a.Rec.Emit("HExit", "h", h, "s", sessName, "seq", seq, "outcome", "status", "code", b.Code)
		return nil, erpc.NewStatus(b.Code, b.Msg, b.Cause)
	}
	a.Rec.Emit("HExit", "h", h, "s", sessName, "seq", seq, "outcome", "ok", "res", F(tag))
	if b != nil && b.ResPad > 0 {
		return &Res{Tag: F(tag), Pad: strings.Repeat("x", b.ResPad)}, nil
	}
	return &Res{Tag: F(tag), Pad: arg.Pad}, nil
}

// CallHandler is the CALL handler function registered by Routes.
func (a *App) CallHandler(ctx erpc.CallCtx, arg *Arg) (*Res, *erpc.Status) {
	meta := string(ctx.PeekMeta(MetaKey))
	if meta != "" {
		ctx.SetMeta(MetaKey, GM(meta))
	}
	return a.handle("call", Name(ctx.Session()), ctx.Seq(), ctx.ServiceMethod(), meta, arg, func() (string, string) {
		return arg.Tag, string(ctx.PeekMeta(MetaKey))
	})
}

// PushHandler is the PUSH handler function registered by Routes.
func (a *App) PushHandler(ctx erpc.PushCtx, arg *Arg) *erpc.Status {
	meta := string(ctx.PeekMeta(MetaKey))
	_, st := a.handle("push", Name(ctx.Session()), ctx.Seq(), ctx.ServiceMethod(), meta, arg, func() (string, string) {
		return arg.Tag, string(ctx.PeekMeta(MetaKey))
	})
	return st
}

// Sum is a cheap checksum of a string used to compare paddings.
func Sum(s string) int {
	h := 0
	for i := 0; i < len(s); i++ {
		h = (h*131 + int(s[i])) % 1000003
	}
	return h
}

// CurApp is the application kit used by the controller structs below
// (controllers are instantiated by the framework through reflection).
var CurApp *App

// T is the CALL controller: route /t/call.
type T struct{ erpc.CallCtx }

// Call is the instrumented CALL handler.
func (t *T) Call(arg *Arg) (*Res, *erpc.Status) { return CurApp.CallHandler(t.CallCtx, arg) }

// BadRes is a result that no codec can marshal.
type BadRes struct {
	Tag string   `json:"tag"`
	C   chan int `json:"c"`
}

// TB is a CALL controller whose handler returns OK with an unmarshalable result: route /tb/chan.
type TB struct{ erpc.CallCtx }

// Chan is the instrumented handler returning a result that cannot be packed.
func (t *TB) Chan(arg *Arg) (*BadRes, *erpc.Status) {
	_, st := CurApp.CallHandler(t.CallCtx, arg)
	if st != nil {
		return nil, st
	}
	return &BadRes{Tag: F(arg.Tag), C: make(chan int)}, nil
}

// U is the PUSH controller: route /u/push.
type U struct{ erpc.PushCtx }

// Push is the instrumented PUSH handler.
func (u *U) Push(arg *Arg) *erpc.Status { return CurApp.PushHandler(u.PushCtx, arg) }

// CallRoute and PushRoute are the service methods of the instrumented handlers.
const (
	CallRoute = "/t/call"
	PushRoute = "/u/push"
)

// Routes registers the instrumented handlers on a peer and makes a the
// current application kit.
func (a *App) Routes(p erpc.Peer, plugins ...erpc.Plugin) {
	CurApp = a
	n1 := p.RouteCall(new(T), plugins...)
	n2 := p.RoutePush(new(U), plugins...)
	if len(n1) != 1 || n1[0] != CallRoute || len(n2) != 1 || n2[0] != PushRoute {
		panic(fmt.Sprintf("unexpected route names %v %v", n1, n2))
	}
}

// AppPoint lets harness code take part in the hold-point protocol.
func (g *Gates) AppPoint(pt, sessName string, a int64) {
	g.mu.Lock()
	g.hits[pt]++
	rec := g.record
	keys := [4]string{pt, fmt.Sprintf("%s#%d", pt, a), sessName + ":" + pt, fmt.Sprintf("%s:%s#%d", sessName, pt, a)}
	var ch chan struct{}
	var key string
	for _, k := range keys {
		if g.held[k] {
			key = keys[3]
			ch = make(chan struct{})
			g.waiting = append(g.waiting, &waiter{keys: keys, ch: ch, a: a})
			g.cond.Broadcast()
			break
		}
	}
	g.mu.Unlock()
	if rec {
		g.rec.Emit("P", "pt", pt, "s", sessName, "a", a, "b", 0)
	}
	if ch != nil {
		select {
		case <-ch:
		case <-time.After(g.maxPark):
			g.mu.Lock()
			g.stuck = append(g.stuck, key)
			g.mu.Unlock()
		}
	}
}

// DiscCounter is a plugin counting PostDisconnect/PostAccept/PostDial per session.
type DiscCounter struct {
	Rec     *Rec
	PName   string
	mu      sync.Mutex
	Disc    map[string]int
	Reject  func(name string) *erpc.Status // optional verdict for accept/dial
	OnHooks func(name string)
}

// Name implements erpc.Plugin.
func (d *DiscCounter) Name() string {
	if d.PName == "" {
		return "verif-disc-counter"
	}
	return d.PName
}

// PostDisconnect implements erpc.PostDisconnectPlugin.
func (d *DiscCounter) PostDisconnect(s erpc.BaseSession) *erpc.Status {
	n := Name(s)
	d.mu.Lock()
	if d.Disc == nil {
		d.Disc = map[string]int{}
	}
	d.Disc[n]++
	d.mu.Unlock()
	d.Rec.Emit("DiscHook", "s", n)
	return nil
}

// PostAccept implements erpc.PostAcceptPlugin.
func (d *DiscCounter) PostAccept(s erpc.PreSession) *erpc.Status {
	n := s.LocalAddr().String()
	if d.Reject != nil {
		if st := d.Reject(n); st != nil {
			d.Rec.Emit("HookReject", "s", n)
			return st
		}
	}
	d.Rec.Emit("HooksOK", "s", n)
	return nil
}

// PostDial implements erpc.PostDialPlugin.
func (d *DiscCounter) PostDial(s erpc.PreSession, isRedial bool) *erpc.Status {
	n := s.LocalAddr().String()
	d.Rec.Emit("DialHook", "s", n, "redial", isRedial)
	if d.Reject != nil {
		if st := d.Reject(n); st != nil {
			d.Rec.Emit("HookReject", "s", n)
			return st
		}
	}
	d.Rec.Emit("HooksOK", "s", n)
	return nil
}

// Count returns the PostDisconnect count of a session name.
func (d *DiscCounter) Count(n string) int { d.mu.Lock(); defer d.mu.Unlock(); return d.Disc[n] }

// WaitUntil polls cond every 200µs up to d.
func WaitUntil(d time.Duration, cond func() bool) bool {
	deadline := time.Now().Add(d)
	for {
		if cond() {
			return true
		}
		if time.Now().After(deadline) {
			return false
		}
		time.Sleep(200 * time.Microsecond)
	}
}

// Blocked inspects a goroutine dump and returns descriptions of goroutines of
// the framework (package path containing "erpc/v6") blocked in a sync
// primitive or channel operation, whose stack mentions any of the needles.
func Blocked(needles ...string) []string {
	buf := make([]byte, 1<<22)
	n := runtime.Stack(buf, true)
	var out []string
	for _, g := range strings.Split(string(buf[:n]), "\n\n") {
		head := g
		if i := strings.Index(g, "\n"); i >= 0 {
			head = g[:i]
		}
		blocked := strings.Contains(head, "sync.Mutex.Lock") || strings.Contains(head, "semacquire") ||
			strings.Contains(head, "chan receive") || strings.Contains(head, "chan send") ||
			strings.Contains(head, "sync.WaitGroup.Wait") || strings.Contains(head, "sync.RWMutex") || strings.Contains(head, "select")
		if !blocked {
			continue
		}
		for _, nd := range needles {
			if strings.Contains(g, nd) {
				out = append(out, nd+" @ "+head)
				break
			}
		}
	}
	return out
}
