package vh

import (
	"bytes"
	"encoding/binary"
	"fmt"
	"github.com/henrylee2cn/erpc/v6/proto/pbproto/pb"
	"math/rand"
	"runtime"
	"strconv"
	"strings"
	"sync"
	"time"

	erpc "github.com/henrylee2cn/erpc/v6"
	"github.com/henrylee2cn/erpc/v6/proto/httproto"
	"github.com/henrylee2cn/erpc/v6/socket"
)

func init() { extraProtos["http"] = httproto.NewHTTProtoFunc() }

type hostileWorld struct {
	srvLog erpc.Peer // a serving peer that prints message details
	srv     erpc.Peer
	cli     erpc.Peer
	control erpc.Session
	n       int
	hangs   int
}

// hangBound is how long a blocked caller is waited for: generous (a loaded machine), shortened once several have hung
// in this run (a hang is still a hang).
func (w *hostileWorld) hangBound() time.Duration {
	if w.hangs >= 3 {
		return time.Second
	}
	return 10 * time.Second
}

var hw *hostileWorld
var hwOnce sync.Once

func getHostileWorld(rec *Rec) *hostileWorld {
	hwOnce.Do(func() {
		app := NewApp(rec, nil)
		CurApp = app
		w := &hostileWorld{}
		w.srv = erpc.NewPeer(erpc.PeerConfig{})
		w.srv.RouteCall(new(T))
		w.srv.RoutePush(new(U))
		w.cli = erpc.NewPeer(erpc.PeerConfig{})
		w.control, _, _, _ = connectPeers(w.cli, w.srv, "HCTL", "HSRV")
		hw = w
	})
	return hw
}

func (w *hostileWorld) controlOK() bool {
	res := new(Res)
	done := make(chan bool, 1)
	go func() {
		cmd := w.control.Call(CallRoute, &Arg{Tag: "ctl"}, res)
		done <- cmd.StatusOK() && res.Tag == F("ctl")
	}()
	select {
	case ok := <-done:
		return ok
	case <-time.After(2 * time.Second):
	}
	// slow is not dead: on a loaded machine the answer may simply be late
	select {
	case ok := <-done:
		return ok
	case <-time.After(8 * time.Second):
		return false
	}
}

func validFrame(proto string, seq int32, tag string) []byte {
	return typedFrame(proto, erpc.TypeCall, seq, tag)
}

// typedFrame is a well-formed frame of the given message type.
func typedFrame(proto string, mtype byte, seq int32, tag string) []byte {
	m := socket.NewMessage()
	m.SetMtype(mtype)
	m.SetSeq(seq)
	m.SetServiceMethod(CallRoute)
	m.SetBodyCodec('j')
	m.SetBody(&Arg{Tag: tag, Pad: strings.Repeat("p", 40)})
	m.Meta().Set("k", "v")
	var w bytes.Buffer
	if err := protoFunc(proto)(&rwBuf{r: bytes.NewReader(nil), w: &w}).Pack(m); err != nil {
		return nil
	}
	return w.Bytes()
}

// feed serves a fresh connection with the protocol, writes the input, optionally waits, closes the
// client end and reports how the session ended.
//
// sess is the state of the attacked session when the input arrives: "" / "idle"; "pending" (one CALL of the attacked side
// is waiting for a reply that never comes); "closing" (such a CALL is pending and a graceful Close() of the session is
// parked waiting for it).  In those states the session has ended only when the call has completed and Close() has returned.
func (w *hostileWorld) feed(proto string, input []byte, followValid bool, sess string) (state string, allocDelta uint64, replies int) {
	w.n++
	a, b := Pipe(fmt.Sprintf("HC%d", w.n), fmt.Sprintf("HS%d", w.n))
	a.TapIn() // (only the answers are looked at)
	var ss erpc.Session
	sd := make(chan struct{})
	go func() { ss, _ = w.srv.ServeConn(b, protoFunc(proto)); close(sd) }()
	<-sd
	if ss == nil {
		return "noserve", 0, 0
	}
	var pendDone chan erpc.CallCmd
	var closeRet chan struct{}
	if sess == "pending" || sess == "closing" {
		pendDone = make(chan erpc.CallCmd, 1)
		sent := b.Written()
		ss.AsyncCall(CallRoute, &Arg{Tag: "pend"}, new(Res), pendDone)
		// the CALL is on the wire (the scripted remote end never answers it)
		if !WaitUntil(2*time.Second, func() bool { return b.Written() > sent }) || len(pendDone) > 0 {
			a.Close()
			return "nosetup", 0, 0
		}
	}
	if sess == "closing" {
		closeRet = make(chan struct{})
		go func() { ss.Close(); close(closeRet) }()
		// Close() has announced the end of the session and now waits for the pending call
		reached := WaitUntil(2*time.Second, func() bool {
			select {
			case <-ss.CloseNotify():
				return true
			default:
				return false
			}
		})
		time.Sleep(2 * time.Millisecond)
		select {
		case <-closeRet:
			reached = false // (it did not wait)
		default:
		}
		if !reached || len(pendDone) > 0 {
			a.Close()
			return "nosetup", 0, 0
		}
	}
	var ms1, ms2 runtime.MemStats
	runtime.ReadMemStats(&ms1)
	if len(input) <= 64<<10 {
		a.Write(input)
	} else {
		// a long input is delivered in small pieces, each once the reader has taken the one before, so that the
		// in-memory connection itself buffers next to nothing and what is measured is the receiver's doing
		for off := 0; off < len(input); off += 32 << 10 {
			end := off + 32<<10
			if end > len(input) {
				end = len(input)
			}
			if _, err := a.Write(input[off:end]); err != nil {
				break
			}
			if !WaitUntil(200*time.Millisecond, func() bool { return a.Unread() == 0 }) {
				break
			}
		}
	}
	// give the reader the time to consume the input
	time.Sleep(1500 * time.Microsecond)
	runtime.ReadMemStats(&ms2)
	sub := func(d uint64) uint64 { return d }
	allocDelta = sub(ms2.TotalAlloc - ms1.TotalAlloc)
	functional := false
	if followValid && ss.Health() {
		// is the session still fully functional?  send a valid call and look for its reply
		a.Write(validFrame(proto, 77, "after"))
		functional = WaitUntil(300*time.Millisecond, func() bool {
			_, in := a.Tapped()
			return bytes.Contains(in, []byte(F("after")))
		})
	}
	a.Close() // the input is exhausted
	ended := WaitUntil(2*time.Second, func() bool {
		select {
		case <-ss.CloseNotify():
			_, listed := w.srv.GetSession(ss.ID())
			return !ss.Health() && !listed
		default:
			return false
		}
	})
	if ended && pendDone != nil {
		// no caller stays blocked once the input is exhausted: the pending call completes, Close() returns
		bound := w.hangBound()
		select {
		case <-pendDone:
		case <-time.After(bound):
			w.hangs++
			return "callblocked", allocDelta, 0
		}
		if closeRet != nil {
			select {
			case <-closeRet:
			case <-time.After(bound):
				w.hangs++
				return "closeblocked", allocDelta, 0
			}
		}
	}
	if !ended {
		// a reader that is still busy (or blocked) after the input is exhausted: what it allocated in the
		// meantime belongs to this input too (a hostile frame size may be buffered slowly)
		runtime.ReadMemStats(&ms2)
		if d := sub(ms2.TotalAlloc - ms1.TotalAlloc); d > allocDelta {
			allocDelta = d
		}
	}
	_, in := a.Tapped()
	replies = bytes.Count(in, []byte(`"tag"`))
	switch {
	case !ended:
		return "wedged", allocDelta, replies
	case functional:
		return "functional-then-closed", allocDelta, replies
	}
	return "disconnected", allocDelta, replies
}

// hostileResult is what the caller of the reply-body cases decodes into.
type hostileResult struct {
	A string   `json:"a" xml:"a" form:"a"`
	D [2]int   `json:"d" xml:"d" form:"d"`
	S []string `json:"s" xml:"s" form:"s"`
	N int32    `json:"n" xml:"n" form:"n"`
}

// replyBodyCase: a real client session has a call outstanding; a scripted remote answers with a well-formed REPLY
// whose body is malformed for the codec it names.  The caller must complete (any status), the session must end up
// functional or cleanly disconnected, and the control session must keep working.
func (d *dataRun) replyBodyCase(c DataCase, out map[string]interface{}) {
	w := getHostileWorld(d.rec)
	before := w.controlOK()
	codecID := c.S("codec")[0]
	var body []byte
	valid := map[byte][]byte{
		'j': []byte(`{"a":"x","d":[1,2],"s":["p","q"],"n":7}`),
		'x': []byte(`<hostileResult><a>x</a><d>1</d><d>2</d><s>p</s><n>7</n></hostileResult>`),
		'f': []byte(`a=x&d=1&d=2&s=p&s=q&n=7`),
		's': []byte(`plain text`),
		'p': {0x08, 0x01, 0x12, 0x03, 'a', 'b', 'c'},
	}[codecID]
	switch c.S("lenval") {
	case "overflow": // more values than the fixed array holds / numbers out of range
		body = map[byte][]byte{
			'j': []byte(`{"a":"x","d":[1,2,3,4,5],"n":99999999999999999999}`),
			'x': []byte(`<hostileResult><d>1</d><d>2</d><d>3</d><d>4</d><n>99999999999999999999</n></hostileResult>`),
			'f': []byte(`a=x&d=1&d=2&d=3&d=4&n=99999999999999999999`),
			's': bytes.Repeat([]byte("9"), 5000),
			'p': {0x08, 0xff, 0xff, 0xff, 0xff, 0xff, 0xff, 0xff, 0xff, 0xff, 0xff, 0xff, 0x01},
		}[codecID]
	case "wrongtype":
		body = map[byte][]byte{
			'j': []byte(`{"a":{"x":1},"d":"no","s":7,"n":"z"}`),
			'x': []byte(`<hostileResult><d>no</d><n>z</n><s><t>1</t></s></hostileResult>`),
			'f': []byte(`d=no&n=z&s`),
			's': {0xff, 0xfe, 0x00},
			'p': {0x0a, 0x7f, 0x01},
		}[codecID]
	case "truncated":
		body = valid[:len(valid)/2]
	case "random":
		body = make([]byte, 1+d.rnd.Intn(200))
		d.rnd.Read(body)
	case "empty":
		body = []byte{}
	case "huge":
		body = append(append([]byte(nil), valid...), bytes.Repeat([]byte{' '}, 40000)...)
	}
	w.n++
	a, b := Pipe(fmt.Sprintf("HRC%d", w.n), fmt.Sprintf("HRS%d", w.n))
	cs, st := w.cli.ServeConn(a)
	if !st.OK() {
		out["err"] = "setup"
		return
	}
	// the scripted remote: read the CALL, answer with the hostile REPLY, then hang up a little later
	raw := socket.NewSocket(b)
	go func() {
		m := socket.GetMessage(socket.WithNewBody(func(socket.Header) interface{} { return new([]byte) }))
		if err := raw.ReadMessage(m); err != nil {
			return
		}
		// the body bytes are already "encoded": send them as they are under the named codec id
		var wbuf bytes.Buffer
		rm := socket.NewMessage()
		rm.SetMtype(erpc.TypeReply)
		rm.SetSeq(m.Seq())
		rm.SetServiceMethod(m.ServiceMethod())
		rm.SetBody(&body)
		socket.RawProtoFunc(&rwBuf{r: bytes.NewReader(nil), w: &wbuf}).Pack(rm)
		frame := patchCodec(wbuf.Bytes(), codecID)
		b.Write(frame)
		time.Sleep(150 * time.Millisecond)
		b.Close()
	}()
	var ms1, ms2 runtime.MemStats
	runtime.ReadMemStats(&ms1)
	res := new(hostileResult)
	var arg, result interface{} = &Arg{Tag: "hr"}, res
	if codecID == 's' {
		result = new(string)
	}
	if codecID == 'p' {
		result = new(pb.Payload)
	}
	done := make(chan erpc.CallCmd, 1)
	go func() { done <- cs.Call(CallRoute, arg, result) }()
	completed := false
	select {
	case <-done:
		completed = true
	case <-time.After(3 * time.Second):
	}
	ended := WaitUntil(2*time.Second, func() bool {
		select {
		case <-cs.CloseNotify():
			return !cs.Health()
		default:
			return false
		}
	})
	runtime.ReadMemStats(&ms2)
	alloc := ms2.TotalAlloc - ms1.TotalAlloc
	after := w.controlOK()
	out["alive"] = true
	out["boundok"] = alloc <= 65536+(2<<20)
	out["stateok"] = completed && ended
	out["controlok"] = before && after
	out["maxalloc"] = alloc
	out["states"] = fmt.Sprintf("completed=%v ended=%v", completed, ended)
	out["tried"] = 1
}

// patchCodec sets the body codec id in the header of a raw-protocol frame that was packed with a *[]byte body
// (codec id 0 at the time of packing): the byte that follows the metadata length-prefixed field.
func patchCodec(frame []byte, id byte) []byte {
	// raw frame: size(4) pipelen(1) | seq-len(1) seq | mtype(1) | method-len(1) method | status-len(2) status | meta-len(2) meta | codec(1) | body
	f := append([]byte(nil), frame...)
	p := 5 + int(f[4])
	p += 1 + int(f[p]) // seq
	p++                // mtype
	p += 1 + int(f[p]) // service method
	p += 2 + (int(f[p])<<8 | int(f[p+1]))
	p += 2 + (int(f[p])<<8 | int(f[p+1]))
	if p < len(f) {
		f[p] = id
	}
	return f
}

type discardLog struct{}

func (discardLog) Output(calldepth int, msgBytes []byte, loggerLevel erpc.LoggerLevel) {}
func (discardLog) Flush() error                                                          { return nil }

// loggedBodies: what a well-formed message may carry that the run log then has to render.
func loggedBody(class string, rnd *rand.Rand) []byte {
	switch class {
	case "ascii":
		return []byte("plain ascii body")
	case "utf8":
		return []byte("gr\u00fc\u00dfe \u4e16\u754c \U0001F600")
	case "trunc1":
		return []byte("ends in the first byte of a rune \xe2")
	case "trunc2":
		return []byte("ends in two bytes of a three-byte rune \xe2\x80")
	case "trunc4":
		return []byte("ends inside a four-byte rune \xf0\x9f\x98")
	case "invalid":
		return []byte("\xff\xfe\x80 invalid \xc0\xaf bytes \xed\xa0\x80")
	case "linesep":
		return []byte("line \u2028 and paragraph \u2029 separators, and \xe2\x80 cut")
	case "control":
		return []byte("quotes \" backslashes \\ controls \x00\x01\x1f\x7f\r\n\t <>& end\\")
	case "empty":
		return []byte{}
	case "long":
		b := make([]byte, 20000)
		rnd.Read(b)
		return b
	}
	b := make([]byte, 1+rnd.Intn(200))
	rnd.Read(b)
	return b
}

// loggedCase: well-formed CALL / PUSH frames with such bodies (and the same bytes as a metadata value) reach a peer that
// prints message details (PeerConfig.PrintDetail, logger level DEBUG, the output discarded): rendering them for the run
// log happens on the handling goroutine after its recover, so a crash there takes the process down.
func (d *dataRun) loggedCase(c DataCase, out map[string]interface{}) {
	w := getHostileWorld(d.rec)
	if w.srvLog == nil {
		w.srvLog = erpc.NewPeer(erpc.PeerConfig{PrintDetail: true})
		w.srvLog.RouteCall(new(T))
		w.srvLog.RoutePush(new(U))
		w.srvLog.SetUnknownCall(func(ctx erpc.UnknownCallCtx) (interface{}, *erpc.Status) { return len(ctx.InputBodyBytes()), nil })
		w.srvLog.SetUnknownPush(func(ctx erpc.UnknownPushCtx) *erpc.Status { _ = ctx.InputBodyBytes(); return nil })
		erpc.SetLoggerOutputter(discardLog{})
	}
	proto := c.S("proto")
	limit := c.I("limit")
	socket.SetMessageSizeLimit(uint32(limit))
	defer socket.SetMessageSizeLimit(0)
	before := w.controlOK()
	body := loggedBody(c.S("lenval"), d.rnd)
	var inputs [][]byte
	for _, mt := range []byte{erpc.TypeCall, erpc.TypePush} {
		for _, route := range []string{"/no/such/route", CallRoute} {
			m := socket.NewMessage()
			m.SetMtype(mt)
			m.SetSeq(7)
			m.SetServiceMethod(route)
			m.SetBodyCodec('s')
			b := append([]byte(nil), body...)
			m.SetBody(&b)
			if len(body) < 200 && proto != "http" {
				m.Meta().Set("k", string(body))
			}
			var buf bytes.Buffer
			if err := protoFunc(proto)(&rwBuf{r: bytes.NewReader(nil), w: &buf}).Pack(m); err != nil {
				continue
			}
			inputs = append(inputs, buf.Bytes())
		}
	}
	erpc.SetLoggerLevel("DEBUG")
	old := w.srv
	w.srv = w.srvLog
	wedged := 0
	states := map[string]int{}
	for _, in := range inputs {
		st, _, _ := w.feed(proto, in, true, "")
		states[st]++
		if st == "wedged" || st == "noserve" {
			wedged++
		}
	}
	w.srv = old
	time.Sleep(5 * time.Millisecond)
	erpc.SetLoggerLevel("OFF")
	after := w.controlOK()
	out["alive"] = true
	out["boundok"] = true
	out["stateok"] = wedged == 0 && len(inputs) > 0
	out["controlok"] = before && after
	out["states"] = fmt.Sprint(states)
	out["tried"] = len(inputs)
}

func (d *dataRun) hostileCase(c DataCase, out map[string]interface{}) {
	if c.S("class") == "replybody" {
		d.replyBodyCase(c, out)
		return
	}
	if c.S("class") == "logged" {
		d.loggedCase(c, out)
		return
	}
	w := getHostileWorld(d.rec)
	proto := c.S("proto")
	limit := c.I("limit")
	socket.SetMessageSizeLimit(uint32(limit))
	defer socket.SetMessageSizeLimit(0)
	valid := validFrame(proto, 5, "v")
	if valid == nil {
		out["err"] = "cannot build a valid frame"
		return
	}
	before := w.controlOK()
	var inputs [][]byte
	switch c.S("class") {
	case "random":
		for i := 0; i < 6; i++ {
			b := make([]byte, 1+d.rnd.Intn(300))
			d.rnd.Read(b)
			inputs = append(inputs, b)
		}
	case "zeros":
		inputs = [][]byte{make([]byte, 4), make([]byte, 64), make([]byte, 1)}
	case "truncall":
		step := 1
		if len(valid) > 120 {
			step = 2
		}
		for i := c.I("variant") % step; i < len(valid); i += step {
			inputs = append(inputs, valid[:i])
		}
	case "prefixgarbage":
		for i := 0; i < 4; i++ {
			k := 1 + d.rnd.Intn(len(valid)-1)
			g := make([]byte, 1+d.rnd.Intn(200))
			d.rnd.Read(g)
			inputs = append(inputs, append(append([]byte(nil), valid[:k]...), g...))
		}
	case "validthengarbage":
		for i := 0; i < 3; i++ {
			g := make([]byte, 1+d.rnd.Intn(200))
			d.rnd.Read(g)
			inputs = append(inputs, append(append([]byte(nil), valid...), g...))
		}
	case "hugeannounce":
		inputs = append(inputs, announce(proto, 512<<20))
		inputs = append(inputs, announce(proto, uint64(limit)+1))
	case "lowered":
		// the read limit is LOWERED at run time: sessions, pooled messages and handler contexts that came into being under
		// the default limit are in use when the new limit takes effect; the oversized frames must be refused all the same
		socket.SetMessageSizeLimit(0)
		for i := 0; i < 6; i++ {
			w.feed(proto, append(append([]byte(nil), valid...), valid...), true, "")
			w.controlOK()
		}
		socket.SetMessageSizeLimit(uint32(limit))
		inputs = append(inputs, announce(proto, 512<<20))
		inputs = append(inputs, announce(proto, 1<<20))
		inputs = append(inputs, announce(proto, uint64(limit)+1))
	case "duplen":
		// two Content-Length headers: a large negative one, then one far above the limit (their sum is small)
		big := 512 << 20
		inputs = append(inputs, []byte("POST /t/call HTTP/1.1\r\nContent-Type: application/json\r\nContent-Length: -"+strconv.Itoa(big-10)+
			"\r\nContent-Length: "+strconv.Itoa(big)+"\r\nX-Seq: 1\r\nX-Mtype: 1\r\n\r\n{\"tag\":"))
		inputs = append(inputs, []byte("POST /t/call HTTP/1.1\r\nContent-Type: application/json\r\nContent-Length: "+strconv.Itoa(big)+
			"\r\nContent-Length: -"+strconv.Itoa(big-10)+"\r\nX-Seq: 1\r\nX-Mtype: 1\r\n\r\n{\"tag\":"))
	case "endlessline":
		// a request line, a header line and a status line that never end (4 MiB without a line feed)
		long := bytes.Repeat([]byte("A"), 4<<20)
		inputs = append(inputs, append([]byte("POST /"), long...))
		inputs = append(inputs, append([]byte("POST /t/call HTTP/1.1\r\nX-Long: "), long...))
		inputs = append(inputs, append([]byte("HTTP/1.1 200 "), long...))
	case "neglen":
		inputs = append(inputs, []byte("POST /t/call HTTP/1.1\r\nContent-Type: application/json\r\nContent-Length: -1\r\nX-Seq: 1\r\nX-Mtype: 1\r\n\r\n{\"tag\":\"x\"}"))
		inputs = append(inputs, []byte("POST /t/call HTTP/1.1\r\nContent-Type: application/json\r\nContent-Length: -2147483648\r\nX-Seq: 1\r\nX-Mtype: 1\r\n\r\n{\"tag\":\"x\"}"))
	case "truncsome":
		// a few truncations: inside the size field, inside the header, one byte short
		inputs = [][]byte{valid[:2], valid[:len(valid)/3], valid[:len(valid)-1]}
	case "eof":
		inputs = [][]byte{{}} // nothing at all: the plain end of the input
	case "badtype":
		bt := typedFrame(proto, 9, 5, "v")
		if bt == nil {
			out["err"] = "cannot build a frame of an unsupported type"
			return
		}
		inputs = [][]byte{bt}
	case "lenfield":
		v := map[string]uint64{"0": 0, "1": 1, "limit-1": uint64(limit) - 1, "limit": uint64(limit), "limit+1": uint64(limit) + 1,
			"2^31-1": 1<<31 - 1, "2^32-1": 1<<32 - 1}[c.S("lenval")]
		inputs = append(inputs, withLen(proto, valid, v))
	}
	wedged, maxAlloc := 0, uint64(0)
	states := map[string]int{}
	for _, in := range inputs {
		st, alloc, _ := w.feed(proto, in, c.S("class") != "truncall" && c.S("class") != "truncsome", c.S("sess"))
		states[st]++
		if st == "wedged" || st == "noserve" || st == "nosetup" || st == "callblocked" || st == "closeblocked" {
			wedged++
		}
		if alloc > maxAlloc {
			maxAlloc = alloc
		}
	}
	after := w.controlOK()
	out["alive"] = true
	// one message may make the receiver buffer at most the read limit (plus bookkeeping slack)
	out["boundok"] = maxAlloc <= uint64(limit)+(2<<20)
	out["stateok"] = wedged == 0
	out["controlok"] = before && after
	out["maxalloc"] = maxAlloc
	out["states"] = fmt.Sprint(states)
	out["tried"] = len(inputs)
}

// announce builds the start of a frame that announces a payload of n bytes, followed by a few bytes only.
func announce(proto string, n uint64) []byte {
	switch proto {
	case "http":
		return []byte("POST /t/call HTTP/1.1\r\nContent-Type: application/json\r\nContent-Length: " + strconv.FormatUint(n, 10) + "\r\nX-Seq: 1\r\nX-Mtype: 1\r\n\r\n{\"tag\":")
	case "thriftbin":
		b := make([]byte, 12)
		binary.BigEndian.PutUint32(b, uint32(n))
		copy(b[4:], []byte{0x0f, 0xff, 0, 0, 0, 0, 0, 1})
		return b
	}
	b := make([]byte, 10)
	binary.BigEndian.PutUint32(b, uint32(n))
	return b
}

// withLen rewrites the length field of a valid frame.
func withLen(proto string, valid []byte, n uint64) []byte {
	switch proto {
	case "http":
		s := string(valid)
		i := strings.Index(s, "Content-Length: ")
		if i < 0 {
			return valid
		}
		j := strings.Index(s[i:], "\r\n")
		return []byte(s[:i] + "Content-Length: " + strconv.FormatUint(n, 10) + s[i+j:])
	}
	b := append([]byte(nil), valid...)
	binary.BigEndian.PutUint32(b, uint32(n))
	return b
}
