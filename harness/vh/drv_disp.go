package vh

import (
	"bufio"
	"context"
	"encoding/json"
	"flag"
	"fmt"
	"github.com/henrylee2cn/erpc/v6/socket"
	"os"
	"sync"
	"sync/atomic"
	"time"

	erpc "github.com/henrylee2cn/erpc/v6"
)

func init() { Drivers["disp"] = drvDisp }

// DispScenario is one terminal state exported by spec/Dispatch.tla.
type DispScenario struct {
	ID  string `json:"id"`
	Cfg struct {
		Kind  string            `json:"kind"`
		Route string            `json:"route"`
		Prof  map[string]string `json:"prof"`
		Veto  []string          `json:"veto"`
		Vkind string            `json:"vkind"`
		Hout  string            `json:"hout"`
		Dec   string            `json:"dec"`
		Rdec  string            `json:"rdec"`
		Wret  string            `json:"wret"`
		Mtype string            `json:"mtype"`
		Pre   string            `json:"pre"`
		Res   string            `json:"res"`
	} `json:"cfg"`
	Hooks   [][]string `json:"hooks"`
	Chooks  [][]string `json:"chooks"`
	Invoked int        `json:"invoked"`
	Replies int        `json:"replies"`
	Cstat   string     `json:"cstat"`
	Wstat   string     `json:"wstat"`
	Disc    bool       `json:"disc"`
	Written bool       `json:"written"`
}

var dispSmallPool sync.Once

func drvDisp(args []string) int {
	fs := flag.NewFlagSet("disp", flag.ExitOnError)
	in := fs.String("in", "", "scenario file (ndjson)")
	out := fs.String("out", "", "trace file (ndjson)")
	fs.Parse(args)
	rec, err := NewRec(*out)
	if err != nil {
		fmt.Fprintln(os.Stderr, err)
		return 2
	}
	defer rec.Close()
	f, err := os.Open(*in)
	if err != nil {
		fmt.Fprintln(os.Stderr, err)
		return 2
	}
	defer f.Close()
	rd := bufio.NewReaderSize(f, 1<<20)
	n := 0
	for {
		line, err := rd.ReadBytes('\n')
		if len(line) > 1 {
			var sc DispScenario
			if e := json.Unmarshal(line, &sc); e != nil {
				fmt.Fprintln(os.Stderr, "bad scenario:", e)
				return 2
			}
			n++
			runDisp(rec, &sc, n)
		}
		if err != nil {
			break
		}
	}
	rec.Flush()
	return 0
}

func flat(h [][]string) []string {
	o := make([]string, 0, len(h))
	for _, p := range h {
		o = append(o, p[0]+"."+p[1])
	}
	return o
}

// what earlier scenarios' callers were handed (the call command with its status) is kept for a while and looked
// at again after later messages have been received in the process: it must not change
type dispHeldCall struct {
	cmd   erpc.CallCmd
	code  int32
	msg   string
	cause string
}

var dispHeld []dispHeldCall

func runDisp(rec *Rec, sc *DispScenario, n int) {
	c := sc.Cfg
	rec.SetTrace(sc.ID, map[string]interface{}{
		"mode": "disp", "kind": c.Kind, "route": c.Route, "hout": c.Hout, "dec": c.Dec, "rdec": c.Rdec,
		"vetopl": c.Veto[0], "vetostage": c.Veto[1], "vkind": c.Vkind, "wret": c.Wret, "mtype": c.Mtype, "pre": c.Pre, "res": c.Res,
		"exphooks": flat(sc.Hooks), "expchooks": flat(sc.Chooks),
		"expinvoked": sc.Invoked, "expreplies": sc.Replies, "expcstat": sc.Cstat, "expdisc": sc.Disc, "expwritten": sc.Written,
	})
	vetoFor := func(name string) string {
		if c.Veto[0] == name {
			return c.Veto[1]
		}
		return ""
	}
	app := NewApp(rec, nil)
	CurApp = app
	srvDisc := &DiscCounter{Rec: rec, PName: "sdisc"}
	mk := func(name string) erpc.Plugin {
		pl := NewPlug(rec, "srv", name, c.Prof[name], vetoFor(name))
		if c.Vkind == "panic" && c.Veto[0] == name {
			SetPanic(pl)
		}
		return pl
	}
	srvCfg := erpc.PeerConfig{}
	if c.Res == "ageshort" {
		srvCfg.DefaultContextAge = 15 * time.Millisecond
	}
	srv := erpc.NewPeer(srvCfg, mk("L"), srvDisc)
	srv.PluginContainer().AppendRight(mk("R"))
	g := srv.SubRoute("/g", mk("G"))
	h := mk("H")
	g.RouteCall(new(T), h)
	g.RouteCall(new(TB), h)
	g.RoutePush(new(U), h)
	if c.Route == "unknown" {
		srv.SetUnknownCall(func(ctx erpc.UnknownCallCtx) (interface{}, *erpc.Status) {
			var a Arg
			json.Unmarshal(ctx.InputBodyBytes(), &a)
			res, st := app.handle("call", Name(ctx.Session()), ctx.Seq(), ctx.ServiceMethod(), string(ctx.PeekMeta(MetaKey)), &a, nil)
			if st != nil {
				return nil, st
			}
			b, _ := json.Marshal(res)
			return b, nil
		})
		srv.SetUnknownPush(func(ctx erpc.UnknownPushCtx) *erpc.Status {
			var a Arg
			json.Unmarshal(ctx.InputBodyBytes(), &a)
			_, st := app.handle("push", Name(ctx.Session()), ctx.Seq(), ctx.ServiceMethod(), string(ctx.PeekMeta(MetaKey)), &a, nil)
			return st
		})
	}
	cli := erpc.NewPeer(erpc.PeerConfig{}, NewPlug(rec, "cli", "CL", "all", vetoFor("CL")))
	defer func() {
		done := make(chan struct{})
		go func() { cli.Close(); srv.Close(); close(done) }()
		select {
		case <-done:
		case <-time.After(time.Second):
		}
		rec.Flush()
	}()
	a, b := Pipe(fmt.Sprintf("C%d", n), fmt.Sprintf("S%d", n))
	a.Tap()
	var ss erpc.Session
	sdone := make(chan struct{})
	go func() { ss, _ = srv.ServeConn(b); close(sdone) }()
	cs, stat := cli.ServeConn(a)
	<-sdone
	if !stat.OK() || ss == nil {
		rec.Emit("SetupFailed")
		return
	}
	tag := sc.ID
	freePool := func() {}
	var delay time.Duration
	if c.Res == "ageshort" {
		// the serving session's handling contexts live 15 ms (peer configuration), the handler takes 45 ms
		delay = 45 * time.Millisecond
	}
	if c.Res == "smalllimit" {
		// the process accepts messages of at most 32 KiB, the handler's result is 64 KiB
		socket.SetMessageSizeLimit(32 << 10)
		defer socket.SetMessageSizeLimit(0)
		app.SetBehav(tag, &Behav{ResPad: 64 << 10})
	}
	switch c.Hout {
	case "status":
		app.SetBehav(tag, &Behav{Outcome: "status", Code: 1001, Msg: "hmsg", Cause: "hcause", Delay: delay})
	case "panic":
		app.SetBehav(tag, &Behav{Outcome: "panic", Delay: delay})
	default:
		if delay > 0 {
			app.SetBehav(tag, &Behav{Delay: delay})
		}
	}
	if c.Res == "poolfull" {
		// a small goroutine pool for the process (from here to the end of the run: these scenarios come last), and every
		// slot the two read loops leave is taken until the exchange is over
		dispSmallPool.Do(func() { erpc.SetGopool(8, time.Minute) })
		release := make(chan struct{})
		var once sync.Once
		freePool = func() { once.Do(func() { close(release) }) }
		defer freePool()
		for erpc.Go(func() { <-release }) {
		}
	}
	method := "/g/t/call"
	if c.Kind == "push" {
		method = "/g/u/push"
	}
	if c.Hout == "unpackable" {
		method = "/g/tb/chan"
	}
	if c.Route != "reg" {
		method = "/nope/nothing"
	}
	var arg interface{} = &Arg{Tag: tag}
	settings := []erpc.MessageSetting{erpc.WithSetMeta(MetaKey, "m-"+tag)}
	if c.Dec == "bad" {
		arg = []byte(`{"tag":12345}`)
		settings = append(settings, erpc.WithBodyCodec('j'))
	}
	before := atomic.LoadInt64(&app.Enters)
	if c.Wret == "late" {
		a.SetWriteReturnDelay(25 * time.Millisecond)
	}
	tapOut0, tapIn0 := 0, 0
	if c.Pre == "deadlinewrite" {
		// the serving session writes a message of its own under a context deadline; the deadline then passes
		// (the hooks this preparation runs on either side are not the observed exchange's)
		atomic.StoreInt32(&PlugPause, 1)
		pctx, cancel := context.WithTimeout(context.Background(), 4*time.Millisecond)
		ss.Push("/not/served/by/the/client", &Arg{Tag: "pre"}, erpc.WithContext(pctx))
		time.Sleep(8 * time.Millisecond)
		cancel()
		atomic.StoreInt32(&PlugPause, 0)
		// the frames of this preparation are not part of the observed exchange
		o0, i0 := a.Tapped()
		tapOut0, tapIn0 = len(o0), len(i0)
	}
	if c.Kind == "badtype" {
		// a well-formed frame with a type byte the session does not serve, written straight onto the connection
		mt := map[string]byte{"t0": 0, "t4": erpc.TypeAuthCall, "t5": erpc.TypeAuthReply, "t9": 9, "t255": 255}[c.Mtype]
		a.Write(packFrame(mt, 77, CallRoute, &Arg{Tag: tag}, nil))
		WaitUntil(time.Second, func() bool {
			select {
			case <-ss.CloseNotify():
				return true
			default:
				return false
			}
		})
	} else if c.Kind == "call" {
		var result interface{} = new(Res)
		if c.Rdec == "bad" {
			result = new(int)
		}
		done := make(chan erpc.CallCmd, 1)
		go func() { done <- cs.Call(method, arg, result, settings...) }()
		select {
		case cmd := <-done:
			st := cmd.Status()
			cause := ""
			if cz := st.Cause(); cz != nil {
				cause = cz.Error()
			}
			resok := false
			if r, ok := result.(*Res); ok {
				resok = r.Tag == F(tag)
			}
			rec.Emit("CallDone", "code", st.Code(), "msg", st.Msg(), "cause", cause, "resok", resok)
			dispHeld = append(dispHeld, dispHeldCall{cmd: cmd, code: st.Code(), msg: st.Msg(), cause: cause})
		case <-time.After(3 * time.Second):
			rec.Emit("CallHang")
		}
	} else {
		done := make(chan *erpc.Status, 1)
		go func() { done <- cs.Push(method, arg, settings...) }()
		select {
		case st := <-done:
			rec.Emit("PushRet", "code", st.Code(), "msg", st.Msg())
		case <-time.After(3 * time.Second):
			rec.Emit("PushHang")
		}
		// let the receiver handle it
		WaitUntil(30*time.Millisecond, func() bool { return atomic.LoadInt64(&app.Enters) > before })
	}
	// settle: wait until the trace stops growing
	last := rec.Count()
	for i := 0; i < 20; i++ {
		time.Sleep(500 * time.Microsecond)
		if now := rec.Count(); now == last && i >= 2 {
			break
		} else {
			last = now
		}
	}
	out, inb := a.Tapped()
	if tapOut0 <= len(out) && tapIn0 <= len(inb) {
		out, inb = out[tapOut0:], inb[tapIn0:]
	}
	fo, _ := ParseRawFrames(out)
	fi, _ := ParseRawFrames(inb)
	ncall, npush, nreply, nother := 0, 0, 0, 0
	for _, f := range fo {
		switch f.Mtype {
		case 1:
			ncall++
		case 3:
			npush++
		default:
			nother++
		}
	}
	for _, f := range fi {
		if f.Mtype == 2 {
			nreply++
		} else {
			nother++
		}
	}
	sdisc := false
	select {
	case <-ss.CloseNotify():
		sdisc = true
	default:
	}
	// hooks that run after the caller has its answer (post-write stages on the server) are complete once a
	// graceful close of both peers has returned: it waits for every running handler context
	freePool()
	cd := make(chan struct{})
	go func() { srv.Close(); cli.Close(); close(cd) }() // the server first: its sessions are still indexed, so Close waits for their handlers
	select {
	case <-cd:
	case <-time.After(2 * time.Second):
	}
	// statuses handed out by the previous scenarios (this scenario's own traffic has been received since)
	changed := 0
	first := ""
	if len(dispHeld) > 0 {
		for _, h := range dispHeld[:len(dispHeld)-1] {
			st := h.cmd.Status()
			cz := ""
			if e := st.Cause(); e != nil {
				cz = e.Error()
			}
			if st.Code() != h.code || st.Msg() != h.msg || cz != h.cause {
				changed++
				if first == "" {
					first = fmt.Sprintf("%d/%q/%q -> %d/%q/%q", h.code, h.msg, h.cause, st.Code(), st.Msg(), cz)
				}
			}
		}
		if len(dispHeld) > 4 {
			dispHeld = dispHeld[len(dispHeld)-4:]
		}
	}
	rec.Emit("HeldStatus", "changed", changed, "first", first)
	rec.Emit("Quiesce", "ncall", ncall, "npush", npush, "nreply", nreply, "nother", nother, "srvdisc", sdisc,
		"enters", atomic.LoadInt64(&app.Enters)-before)
}
