package vh

import (
	"bytes"
	"encoding/xml"
	"fmt"
	"github.com/henrylee2cn/erpc/v6/socket"
	"math"
	"net/url"
	"reflect"
	"strings"

	"github.com/henrylee2cn/erpc/v6/codec"
	"github.com/henrylee2cn/erpc/v6/proto/pbproto/pb"
)

// NamedStr / NamedBytes are named types for the plain codec.
type NamedStr string
type NamedBytes []byte

// PbList is a hand-written proto3 message with repeated fields (the messages shipped in the repository have none):
// {1: repeated string items, 2: int64 total, 3: string note, 4: repeated int64 nums (packed)}.
type PbList struct {
	Items []string `protobuf:"bytes,1,rep,name=items,proto3" json:"items,omitempty"`
	Total int64    `protobuf:"varint,2,opt,name=total,proto3" json:"total,omitempty"`
	Note  string   `protobuf:"bytes,3,opt,name=note,proto3" json:"note,omitempty"`
	Nums  []int64  `protobuf:"varint,4,rep,packed,name=nums,proto3" json:"nums,omitempty"`
}

func (m *PbList) Reset()         { *m = PbList{} }
func (m *PbList) String() string { return fmt.Sprintf("%+v", *m) }
func (*PbList) ProtoMessage()    {}

// fillPrev gives v the content of a destination that was used for a "bigger" value before: every field
// non-zero, every sequence longer than any value the shape grammar generates.
func (d *dataRun) fillPrev(v reflect.Value) {
	switch v.Kind() {
	case reflect.Bool:
		v.SetBool(true)
	case reflect.Int, reflect.Int8, reflect.Int16, reflect.Int32, reflect.Int64:
		v.SetInt(77)
	case reflect.Uint, reflect.Uint8, reflect.Uint16, reflect.Uint32, reflect.Uint64:
		v.SetUint(77)
	case reflect.Float32, reflect.Float64:
		v.SetFloat(9.75)
	case reflect.String:
		v.SetString("prev-" + d.rstr(24, alnum))
	case reflect.Slice:
		n := 5
		if v.Type().Elem().Kind() == reflect.Uint8 {
			n = 40
		}
		sl := reflect.MakeSlice(v.Type(), n, n+8)
		for i := 0; i < n; i++ {
			d.fillPrev(sl.Index(i))
		}
		v.Set(sl)
	case reflect.Array:
		for i := 0; i < v.Len(); i++ {
			d.fillPrev(v.Index(i))
		}
	case reflect.Struct:
		for i := 0; i < v.NumField(); i++ {
			if n := v.Type().Field(i).Name; n == "XMLName" || strings.HasPrefix(n, "XXX_") || !v.Field(i).CanSet() {
				continue
			}
			d.fillPrev(v.Field(i))
		}
	case reflect.Map:
		m := reflect.MakeMap(v.Type())
		for i := 0; i < 5; i++ {
			k, e := reflect.New(v.Type().Key()).Elem(), reflect.New(v.Type().Elem()).Elem()
			d.fillPrev(k)
			d.fillPrev(e)
			m.SetMapIndex(k, e)
		}
		v.Set(m)
	}
}

var codecIDs = map[string]byte{"json": 'j', "xml": 'x', "form": 'f', "plain": 's', "protobuf": 'p', "thrift": 't'}

type shapeParser struct {
	s   string
	pos int
	d   *dataRun
	n   int
}

var scalarTypes = map[string]reflect.Type{
	"bool": reflect.TypeOf(false), "int": reflect.TypeOf(int(0)), "int8": reflect.TypeOf(int8(0)), "int16": reflect.TypeOf(int16(0)),
	"int32": reflect.TypeOf(int32(0)), "int64": reflect.TypeOf(int64(0)), "uint": reflect.TypeOf(uint(0)), "uint8": reflect.TypeOf(uint8(0)),
	"uint16": reflect.TypeOf(uint16(0)), "uint32": reflect.TypeOf(uint32(0)), "uint64": reflect.TypeOf(uint64(0)),
	"float32": reflect.TypeOf(float32(0)), "float64": reflect.TypeOf(float64(0)), "string": reflect.TypeOf(""),
	"bytes": reflect.TypeOf([]byte(nil)), "named": reflect.TypeOf(NamedStr("")), "namedbytes": reflect.TypeOf(NamedBytes(nil)),
}

func (d *dataRun) scalarValue(t reflect.Type, class string) reflect.Value {
	v := reflect.New(t).Elem()
	switch t.Kind() {
	case reflect.Bool:
		v.SetBool(class == "one")
	case reflect.Int, reflect.Int8, reflect.Int16, reflect.Int32, reflect.Int64:
		bits := t.Bits()
		switch class {
		case "one":
			v.SetInt(1)
		case "neg":
			v.SetInt(-int64(d.rnd.Intn(100) + 2))
		case "min":
			v.SetInt(-1 << uint(bits-1))
		case "max":
			v.SetInt(1<<uint(bits-1) - 1)
		case "rnd":
			v.SetInt(int64(d.rnd.Intn(1000)) - 500)
		}
	case reflect.Uint, reflect.Uint8, reflect.Uint16, reflect.Uint32, reflect.Uint64:
		switch class {
		case "one":
			v.SetUint(1)
		case "max":
			v.SetUint(math.MaxUint64 >> uint(64-t.Bits()))
		case "rnd":
			v.SetUint(uint64(d.rnd.Intn(200)))
		}
	case reflect.Float32, reflect.Float64:
		switch class {
		case "one":
			v.SetFloat(1)
		case "neg":
			v.SetFloat(-2.5)
		case "frac":
			v.SetFloat(0.015625 + float64(d.rnd.Intn(8)))
		case "max":
			if t.Bits() == 32 {
				v.SetFloat(math.MaxFloat32)
			} else {
				v.SetFloat(math.MaxFloat64)
			}
		case "rnd":
			v.SetFloat(float64(d.rnd.Intn(1000)) / 8)
		}
	case reflect.String:
		switch class {
		case "ascii", "rnd":
			v.SetString(d.rstr(1+d.rnd.Intn(8), alnum))
		case "special":
			v.SetString(d.rstr(8, "&=%+ \"\\'/?#;:,<>{}[]|~") + "x")
		case "utf8":
			v.SetString("héllo-世界-" + d.rstr(3, alnum))
		}
	case reflect.Slice: // bytes
		if class == "rand" || class == "rnd" {
			b := make([]byte, 1+d.rnd.Intn(12))
			d.rnd.Read(b)
			v.SetBytes(b)
		} else {
			v.SetBytes([]byte{})
		}
	}
	return v
}

// parse builds the type and a value for the shape starting at p.pos.
func (p *shapeParser) parse() (reflect.Type, func() reflect.Value) {
	s := p.s
	switch {
	case s[p.pos] == '{':
		p.pos++
		var fields []reflect.StructField
		var gens []func() reflect.Value
		for {
			ft, fg := p.parse()
			i := len(fields)
			name := fmt.Sprintf("F%d", i)
			tag := fmt.Sprintf(`json:"f%d" xml:"f%d" form:"f%d"`, i, i, i)
			fields = append(fields, reflect.StructField{Name: name, Type: ft, Tag: reflect.StructTag(tag)})
			gens = append(gens, fg)
			if s[p.pos] == ';' {
				p.pos++
				continue
			}
			if s[p.pos] == '}' {
				p.pos++
				break
			}
			panic("bad shape " + s)
		}
		t := reflect.StructOf(fields)
		return t, func() reflect.Value {
			v := reflect.New(t).Elem()
			for i, g := range gens {
				v.Field(i).Set(g())
			}
			return v
		}
	case strings.HasPrefix(s[p.pos:], "[]"):
		p.pos += 2
		j := strings.IndexByte(s[p.pos:], ':')
		et := scalarTypes[s[p.pos:p.pos+j]]
		p.pos += j + 1
		n := int(s[p.pos] - '0')
		p.pos++
		t := reflect.SliceOf(et)
		return t, func() reflect.Value {
			v := reflect.MakeSlice(t, n, n)
			for i := 0; i < n; i++ {
				v.Index(i).Set(p.d.distinct(et, i))
			}
			return v
		}
	case s[p.pos] == '[':
		n := int(s[p.pos+1] - '0')
		p.pos += 3
		j := p.pos
		for j < len(s) && s[j] != ';' && s[j] != '}' {
			j++
		}
		et := scalarTypes[s[p.pos:j]]
		p.pos = j
		t := reflect.ArrayOf(n, et)
		return t, func() reflect.Value {
			v := reflect.New(t).Elem()
			for i := 0; i < n; i++ {
				v.Index(i).Set(p.d.distinct(et, i))
			}
			return v
		}
	}
	j := p.pos
	for j < len(s) && s[j] != ';' && s[j] != '}' {
		j++
	}
	tok := s[p.pos:j]
	p.pos = j
	k := strings.IndexByte(tok, ':')
	t := scalarTypes[tok[:k]]
	class := tok[k+1:]
	return t, func() reflect.Value { return p.d.scalarValue(t, class) }
}

// distinct returns pairwise different element values so that order changes are visible.
func (d *dataRun) distinct(t reflect.Type, i int) reflect.Value {
	v := reflect.New(t).Elem()
	switch t.Kind() {
	case reflect.String:
		v.SetString(fmt.Sprintf("e%d-%s", i, d.rstr(2, alnum)))
	case reflect.Bool:
		v.SetBool(i%2 == 0)
	case reflect.Int, reflect.Int8, reflect.Int16, reflect.Int32, reflect.Int64:
		v.SetInt(int64(10*(i+1) + d.rnd.Intn(9)))
	case reflect.Uint, reflect.Uint8, reflect.Uint16, reflect.Uint32, reflect.Uint64:
		v.SetUint(uint64(10*(i+1) + d.rnd.Intn(9)))
	case reflect.Float32, reflect.Float64:
		v.SetFloat(float64(i+1) + 0.5)
	}
	return v
}

// normEqual is DeepEqual modulo nil-vs-empty slices.
func normEqual(a, b reflect.Value) bool {
	if a.Kind() != b.Kind() {
		return false
	}
	switch a.Kind() {
	case reflect.Slice:
		if a.Len() != b.Len() {
			return false
		}
		for i := 0; i < a.Len(); i++ {
			if !normEqual(a.Index(i), b.Index(i)) {
				return false
			}
		}
		return true
	case reflect.Array:
		for i := 0; i < a.Len(); i++ {
			if !normEqual(a.Index(i), b.Index(i)) {
				return false
			}
		}
		return true
	case reflect.Struct:
		for i := 0; i < a.NumField(); i++ {
			if n := a.Type().Field(i).Name; n == "XMLName" || strings.HasPrefix(n, "XXX_") {
				continue
			}
			if !normEqual(a.Field(i), b.Field(i)) {
				return false
			}
		}
		return true
	}
	return reflect.DeepEqual(a.Interface(), b.Interface())
}

func withXMLName(t reflect.Type) reflect.Type {
	if t.Kind() != reflect.Struct {
		return t
	}
	fields := []reflect.StructField{{Name: "XMLName", Type: reflect.TypeOf(xml.Name{}), Tag: `xml:"root" json:"-" form:"-"`}}
	for i := 0; i < t.NumField(); i++ {
		fields = append(fields, t.Field(i))
	}
	return reflect.StructOf(fields)
}

func (d *dataRun) codecCase(c DataCase, out map[string]interface{}) {
	cd, err := codec.Get(codecIDs[c.S("codec")])
	if err != nil {
		out["err"] = err.Error()
		return
	}
	shape := c.S("shape")
	if c.S("kind") == "bytesreuse" {
		// byte-slice bodies bypass the codec whose id the message carries: message.UnmarshalBody copies them into the
		// *[]byte receiver.  A caller that keeps ONE receiver across calls: after a body of another length the receiver
		// must hold exactly the new body
		v := map[string][]byte{"short": []byte("tiny"), "long": bytes.Repeat([]byte("0123456789"), 30)}[shape]
		var prev []byte
		switch c.S("prev") {
		case "longer":
			prev = bytes.Repeat([]byte("L"), len(v)+200)
		case "shorter":
			prev = []byte("p")
		case "equal":
			prev = bytes.Repeat([]byte("E"), len(v))
		case "spare":
			prev = make([]byte, 0, len(v)+64)
		}
		dest := append(make([]byte, 0, cap(prev)), prev...)
		m := socket.NewMessage()
		m.SetBodyCodec(codecIDs[c.S("codec")])
		m.SetBody(&dest)
		if err := m.UnmarshalBody(append([]byte(nil), v...)); err != nil {
			out["err"] = err.Error()
			return
		}
		out["equal"] = bytes.Equal(dest, v)
		if !bytes.Equal(dest, v) {
			out["got"] = clip(dest)
			out["want"] = clip(v)
		}
		return
	}
	if c.S("kind") == "window" {
		// the destination is arena[4:8]: length 4, capacity 12; the arena is filled with a marker byte
		arena := bytes.Repeat([]byte{0xAA}, 16)
		dst := arena[4:8]
		data := map[string][]byte{"short": []byte("xy"), "fit": []byte("wxyz"), "long": []byte("0123456789"), "empty": {}}[shape]
		err := cd.Unmarshal(append([]byte(nil), data...), dst)
		clean := true
		for i, b := range arena {
			if (i < 4 || i >= 8) && b != 0xAA {
				clean = false
				out["touched"] = i
				break
			}
		}
		n := len(data)
		if n > 4 {
			n = 4
		}
		if err == nil && !bytes.Equal(dst[:n], data[:n]) {
			clean = false
		}
		out["equal"] = clean
		if err != nil && clean {
			out["err"] = err.Error()
		}
		return
	}
	// special shapes
	var typ reflect.Type
	var gen func() reflect.Value
	switch {
	case shape == "urlvalues":
		typ = reflect.TypeOf(url.Values{})
		gen = func() reflect.Value {
			return reflect.ValueOf(url.Values{"a": {"1", "2", "3"}, "b c": {"x&y=z"}, "e": {""}})
		}
	case strings.HasPrefix(shape, "pb:"):
		typ = reflect.TypeOf(pb.Payload{})
		gen = func() reflect.Value {
			p := pb.Payload{}
			switch shape {
			case "pb:full":
				p = pb.Payload{Seq: -7, Mtype: 3, ServiceMethod: "/a/b", Meta: []byte("k=v"), BodyCodec: 'j', Body: []byte{0, 1, 2, 255}}
			case "pb:big":
				b := make([]byte, 70000)
				d.rnd.Read(b)
				p = pb.Payload{Seq: math.MaxInt32, Body: b, ServiceMethod: d.rstr(300, alnum)}
			}
			return reflect.ValueOf(p)
		}
	case strings.HasPrefix(shape, "thriftdoc:"):
		typ = reflect.TypeOf(ThriftDoc{})
		gen = func() reflect.Value {
			doc := ThriftDoc{Author: d.rstr(1+d.rnd.Intn(40), alnum+specials) + "é世", Nums: []int64{}, Blob: []byte{}}
			n := map[string]int{"thriftdoc:small": 3, "thriftdoc:big": 3000}[shape]
			for i := 0; i < n; i++ {
				doc.Nums = append(doc.Nums, d.rnd.Int63()-d.rnd.Int63())
			}
			doc.Nums = append(doc.Nums, math.MaxInt64, math.MinInt64, 0)
			if shape == "thriftdoc:big" {
				doc.Blob = make([]byte, 70000)
				d.rnd.Read(doc.Blob)
			}
			return reflect.ValueOf(doc)
		}
	case shape == "thriftempty":
		typ = reflect.TypeOf(codec.ThriftEmpty{})
		gen = func() reflect.Value { return reflect.ValueOf(codec.ThriftEmpty{}) }
	case strings.HasPrefix(shape, "pblist:"):
		typ = reflect.TypeOf(PbList{})
		gen = func() reflect.Value {
			l := PbList{}
			switch shape {
			case "pblist:one":
				l = PbList{Items: []string{d.rstr(1+d.rnd.Intn(8), alnum)}, Nums: []int64{int64(d.rnd.Intn(1000)) + 1}}
			case "pblist:some":
				l = PbList{Total: 3, Note: "note-" + d.rstr(6, alnum) + "é世"}
				for i := 0; i < 3; i++ {
					l.Items = append(l.Items, fmt.Sprintf("e%d-%s", i, d.rstr(2+d.rnd.Intn(6), alnum)))
					l.Nums = append(l.Nums, int64(10*(i+1)+d.rnd.Intn(9)))
				}
			}
			return reflect.ValueOf(l)
		}
	case shape == "map:string":
		typ = reflect.TypeOf(map[string]string{})
		gen = func() reflect.Value {
			return reflect.ValueOf(map[string]string{"alpha": d.rstr(1+d.rnd.Intn(8), alnum), "b c": "x&y=z", "key-" + d.rstr(4, alnum): "héllo-世界", "e": ""})
		}
	case shape == "map:strings":
		typ = reflect.TypeOf(map[string][]string{})
		gen = func() reflect.Value {
			return reflect.ValueOf(map[string][]string{"alpha": {"e0-" + d.rstr(2, alnum), "e1-" + d.rstr(2, alnum), "e2"}, "b c": {"x&y=z"},
				"key-" + d.rstr(4, alnum): {d.rstr(1+d.rnd.Intn(8), alnum)}, "e": {""}})
		}
	default:
		p := &shapeParser{s: shape, d: d}
		typ, gen = p.parse()
		if c.S("codec") == "xml" {
			typ2 := withXMLName(typ)
			if typ2 != typ {
				inner := gen
				gen = func() reflect.Value {
					v := reflect.New(typ2).Elem()
					iv := inner()
					for i := 0; i < iv.NumField(); i++ {
						v.Field(i + 1).Set(iv.Field(i))
					}
					return v
				}
				typ = typ2
			}
		}
	}
	val := gen()
	src := reflect.New(typ)
	src.Elem().Set(val)
	if c.S("kind") == "roundtrip" {
		b, err := cd.Marshal(src.Interface())
		if err != nil {
			out["err"] = "marshal: " + err.Error()
			return
		}
		dst := reflect.New(typ)
		if err := cd.Unmarshal(append([]byte(nil), b...), dst.Interface()); err != nil {
			out["err"] = "unmarshal: " + err.Error()
			out["enc"] = clip(b)
			return
		}
		eq := normEqual(src.Elem(), dst.Elem())
		out["equal"] = eq
		if !eq {
			out["enc"] = clip(b)
			out["got"] = clip([]byte(fmt.Sprintf("%+v", dst.Elem().Interface())))
			out["want"] = clip([]byte(fmt.Sprintf("%+v", src.Elem().Interface())))
		}
		return
	}
	if c.S("kind") == "interleave" {
		// the encoding of a value stays what it is while other values are encoded: encode A, encode B, encode A2,
		// then decode the three encodings (not copied) and compare
		vals := []reflect.Value{src, reflect.New(typ), reflect.New(typ)}
		vals[1].Elem().Set(gen())
		vals[2].Elem().Set(gen())
		var encs [][]byte
		for i, v := range vals {
			b, err := cd.Marshal(v.Interface())
			if err != nil {
				out["err"] = fmt.Sprintf("marshal %d: %v", i, err)
				return
			}
			encs = append(encs, b)
		}
		eq := true
		for i, v := range vals {
			dst := reflect.New(typ)
			if err := cd.Unmarshal(encs[i], dst.Interface()); err != nil {
				out["err"] = fmt.Sprintf("unmarshal %d: %v", i, err)
				return
			}
			if !normEqual(v.Elem(), dst.Elem()) {
				eq = false
				out["got"] = clip([]byte(fmt.Sprintf("value %d: %+v", i, dst.Elem().Interface())))
				out["want"] = clip([]byte(fmt.Sprintf("%+v", v.Elem().Interface())))
			}
		}
		out["equal"] = eq
		return
	}
	if c.S("kind") == "alias" {
		// the decoded value must not point into the input: the codec is handed a view of a pooled receive buffer
		// that is reused for the next message.  Decode from a private copy of the encoding (spare capacity like
		// a pooled buffer), overwrite every byte of that copy, compare; overwrite it with the bytes of another
		// valid encoding, compare again.
		b, err := cd.Marshal(src.Interface())
		if err != nil {
			out["err"] = "marshal: " + err.Error()
			return
		}
		arena := bytes.Repeat([]byte{0xAA}, len(b)+32)
		buf := arena[: len(b) : len(b)+32]
		copy(buf, b) // taken before anything else is encoded: encodings disturbing each other are the interleave class
		other := reflect.New(typ)
		other.Elem().Set(gen())
		b2, err := cd.Marshal(other.Interface())
		if err != nil {
			out["err"] = "marshal other: " + err.Error()
			return
		}
		b2 = append([]byte(nil), b2...)
		dst := reflect.New(typ)
		if err := cd.Unmarshal(buf, dst.Interface()); err != nil {
			out["err"] = "unmarshal: " + err.Error()
			out["enc"] = clip(b)
			return
		}
		phase := ""
		if !normEqual(src.Elem(), dst.Elem()) {
			phase = "fresh"
		}
		if phase == "" {
			for i := range arena {
				arena[i] = 0xAA
			}
			if !normEqual(src.Elem(), dst.Elem()) {
				phase = "overwritten"
			}
		}
		if phase == "" && len(b2) > 0 {
			for i := range arena {
				arena[i] = b2[i%len(b2)]
			}
			if !normEqual(src.Elem(), dst.Elem()) {
				phase = "nextmessage"
			}
		}
		out["equal"] = phase == ""
		if phase != "" {
			out["phase"] = phase
			out["enc"] = clip(b)
			out["got"] = clip([]byte(fmt.Sprintf("%+v", dst.Elem().Interface())))
			out["want"] = clip([]byte(fmt.Sprintf("%+v", src.Elem().Interface())))
		}
		return
	}
	if c.S("kind") == "reuse" {
		// a caller that reuses one reply object: the destination received another value before (decoded, as a
		// caller would have got it); for a codec that resets its destination the second decode yields the value
		prev := reflect.New(typ)
		if c.S("prev") == "full" {
			d.fillPrev(prev.Elem())
		} else {
			prev.Elem().Set(gen())
		}
		pb, err := cd.Marshal(prev.Interface())
		if err != nil {
			out["err"] = "marshal prev: " + err.Error()
			return
		}
		dst := reflect.New(typ)
		if err := cd.Unmarshal(append([]byte(nil), pb...), dst.Interface()); err != nil {
			out["err"] = "unmarshal prev: " + err.Error()
			return
		}
		if !normEqual(prev.Elem(), dst.Elem()) {
			out["err"] = "prev value did not round-trip"
			return
		}
		b, err := cd.Marshal(src.Interface())
		if err != nil {
			out["err"] = "marshal: " + err.Error()
			return
		}
		if err := cd.Unmarshal(append([]byte(nil), b...), dst.Interface()); err != nil {
			out["err"] = "unmarshal: " + err.Error()
			out["enc"] = clip(b)
			return
		}
		eq := normEqual(src.Elem(), dst.Elem())
		out["equal"] = eq
		if !eq {
			out["enc"] = clip(b)
			out["had"] = clip([]byte(fmt.Sprintf("%+v", prev.Elem().Interface())))
			out["got"] = clip([]byte(fmt.Sprintf("%+v", dst.Elem().Interface())))
			out["want"] = clip([]byte(fmt.Sprintf("%+v", src.Elem().Interface())))
		}
		return
	}
	// garbage: decode hostile bytes into a destination surrounded by sentinels
	valid, _ := cd.Marshal(src.Interface())
	var inputs [][]byte
	switch c.S("gclass") {
	case "empty":
		inputs = [][]byte{{}}
	case "random":
		for i := 0; i < 20; i++ {
			b := make([]byte, 1+d.rnd.Intn(64))
			d.rnd.Read(b)
			inputs = append(inputs, b)
		}
	case "truncate":
		for i := 0; i < len(valid); i++ {
			inputs = append(inputs, append([]byte(nil), valid[:i]...))
		}
	case "flip":
		for i := 0; i < len(valid); i++ {
			b := append([]byte(nil), valid...)
			b[i] ^= byte(1 << uint(d.rnd.Intn(8)))
			inputs = append(inputs, b)
		}
	case "overflow":
		// more elements than a fixed array / the value holds
		switch c.S("codec") {
		case "json":
			inputs = [][]byte{[]byte(`{"f0":[1,2,3,4,5,6,7,8,9],"f1":[1,2,3,4,5,6,7,8,9],"f2":[1,2,3,4,5,6,7,8,9]}`), []byte(`[1,2,3,4,5,6,7,8,9,10]`)}
		case "form":
			inputs = [][]byte{[]byte("f0=1&f0=2&f0=3&f0=4&f0=5&f1=1&f1=2&f1=3&f1=4&f2=1&f2=2&f2=3&f2=4&f2=5&f2=6")}
		case "xml":
			inputs = [][]byte{[]byte("<root><f0>1</f0><f0>2</f0><f0>3</f0><f0>4</f0><f1>1</f1><f1>2</f1><f1>3</f1><f2>1</f2><f2>2</f2><f2>3</f2><f2>4</f2></root>")}
		default:
			inputs = [][]byte{bytes.Repeat([]byte("9"), 400)}
		}
	case "wrongtype":
		switch c.S("codec") {
		case "json":
			inputs = [][]byte{[]byte(`{"f0":"str","f1":[[1]],"f2":{"a":1}}`), []byte(`"x"`), []byte(`[{}]`), []byte(`{"f0":1e999}`)}
		case "form":
			inputs = [][]byte{[]byte("f0=abc&f1=%zz&f2=1.5e9999"), []byte("f0=true&f1=1&f2=x&f2=y"), []byte("%")}
		case "xml":
			inputs = [][]byte{[]byte("<root><f0>abc</f0><f1><x/></f1></root>"), []byte("<other/>"), []byte("<root><f0>")}
		default:
			inputs = [][]byte{[]byte("not-a-number"), []byte("1e99999"), []byte("-")}
		}
	}
	type holder struct {
		Before uint64
		After  uint64
	}
	errs, vals := 0, 0
	sentinelOK := true
	for _, in := range inputs {
		// destination placed between two sentinel words in one allocation
		ht := reflect.StructOf([]reflect.StructField{
			{Name: "Before", Type: reflect.TypeOf(uint64(0))},
			{Name: "X", Type: typ},
			{Name: "After", Type: reflect.TypeOf(uint64(0))},
		})
		h := reflect.New(ht).Elem()
		h.Field(0).SetUint(0xA5A5A5A5A5A5A5A5)
		h.Field(2).SetUint(0x5A5A5A5A5A5A5A5A)
		err := cd.Unmarshal(in, h.Field(1).Addr().Interface())
		if err != nil {
			errs++
		} else {
			vals++
		}
		if h.Field(0).Uint() != 0xA5A5A5A5A5A5A5A5 || h.Field(2).Uint() != 0x5A5A5A5A5A5A5A5A {
			sentinelOK = false
		}
	}
	out["equal"] = sentinelOK
	out["tried"] = len(inputs)
	out["errors"] = errs
	out["values"] = vals
	if !sentinelOK {
		out["err"] = ""
	}
}

func clip(b []byte) string {
	if len(b) > 160 {
		b = b[:160]
	}
	return fmt.Sprintf("%q", b)
}
