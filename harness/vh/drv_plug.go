package vh

import (
	"bufio"
	"encoding/json"
	"flag"
	"fmt"
	"os"
	"time"

	erpc "github.com/henrylee2cn/erpc/v6"
)

func init() { Drivers["plug"] = drvPlug }

// PlugScenario is one placement tree exported by spec/Plugins.tla.
type PlugScenario struct {
	ID       string   `json:"id"`
	NL       int      `json:"nl"`
	NR       int      `json:"nr"`
	Depth    int      `json:"depth"`
	GP       []int    `json:"gp"`
	Sib      int      `json:"sib"`
	HP       []int    `json:"hp"`
	Late     string   `json:"late"`
	Target   int      `json:"target"`
	VetoPl   string   `json:"vetopl"`
	VStage   string   `json:"vstage"`
	ExpHooks []string `json:"exphooks"`
	Optional []string `json:"optional"`
	Invoked  bool     `json:"invoked"`
}

// HA / HB are the two sibling CALL controllers: routes .../ha/call and .../hb/call.
type HA struct{ erpc.CallCtx }

func (t *HA) Call(arg *Arg) (*Res, *erpc.Status) { return CurApp.CallHandler(t.CallCtx, arg) }

type HB struct{ erpc.CallCtx }

func (t *HB) Call(arg *Arg) (*Res, *erpc.Status) { return CurApp.CallHandler(t.CallCtx, arg) }

func drvPlug(args []string) int {
	fs := flag.NewFlagSet("plug", flag.ExitOnError)
	in := fs.String("in", "", "scenario file (ndjson)")
	out := fs.String("out", "", "trace file (ndjson)")
	fs.Parse(args)
	rec, err := NewRec(*out)
	if err != nil {
		fmt.Fprintln(os.Stderr, err)
		return 2
	}
	defer rec.Close()
	f, err := os.Open(*in)
	if err != nil {
		fmt.Fprintln(os.Stderr, err)
		return 2
	}
	defer f.Close()
	rd := bufio.NewReaderSize(f, 1<<20)
	n := 0
	for {
		line, err := rd.ReadBytes('\n')
		if len(line) > 1 {
			var sc PlugScenario
			if e := json.Unmarshal(line, &sc); e != nil {
				fmt.Fprintln(os.Stderr, "bad scenario:", e)
				return 2
			}
			n++
			runPlug(rec, &sc, n)
		}
		if err != nil {
			break
		}
	}
	rec.Flush()
	return 0
}

func runPlug(rec *Rec, sc *PlugScenario, n int) {
	rec.SetTrace(sc.ID, map[string]interface{}{"mode": "plug", "exphooks": sc.ExpHooks, "optional": sc.Optional,
		"vetopl": sc.VetoPl, "vstage": sc.VStage, "late": sc.Late, "depth": sc.Depth, "nl": sc.NL, "nr": sc.NR, "sib": sc.Sib})
	app := NewApp(rec, nil)
	CurApp = app
	mk := func(name string) erpc.Plugin {
		v := ""
		if sc.VetoPl == name {
			v = sc.VStage
		}
		return NewPlug(rec, "srv", name, "all", v)
	}
	var lefts []erpc.Plugin
	for i := 1; i <= sc.NL; i++ {
		lefts = append(lefts, mk(fmt.Sprintf("L%d", i)))
	}
	srv := erpc.NewPeer(erpc.PeerConfig{}, lefts...)
	for i := 1; i <= sc.NR; i++ {
		srv.PluginContainer().AppendRight(mk(fmt.Sprintf("R%d", i)))
	}
	// nested groups
	path := ""
	var grp *erpc.SubRouter
	for i := 1; i <= sc.Depth; i++ {
		var ps []erpc.Plugin
		if sc.GP[i-1] == 1 {
			ps = append(ps, mk(fmt.Sprintf("G%d", i)))
		}
		seg := fmt.Sprintf("g%d", i)
		if grp == nil {
			grp = srv.SubRoute(seg, ps...)
		} else {
			grp = grp.SubRoute(seg, ps...)
		}
		path += "/" + seg
	}
	reg := func(ctrl interface{}, ps ...erpc.Plugin) []string {
		if grp == nil {
			return srv.RouteCall(ctrl, ps...)
		}
		return grp.RouteCall(ctrl, ps...)
	}
	var routes []string
	for i := 1; i <= sc.Sib; i++ {
		var ps []erpc.Plugin
		if sc.HP[i-1] == 1 {
			ps = append(ps, mk(fmt.Sprintf("H%d", i)))
		}
		var names []string
		if i == 1 {
			names = reg(new(HA), ps...)
		} else {
			names = reg(new(HB), ps...)
		}
		routes = append(routes, names[0])
	}
	// a global plugin appended after the routes exist
	switch sc.Late {
	case "left":
		srv.PluginContainer().AppendLeft(mk("LL"))
	case "right":
		srv.PluginContainer().AppendRight(mk("LR"))
	}
	cli := erpc.NewPeer(erpc.PeerConfig{})
	defer func() {
		done := make(chan struct{})
		go func() { cli.Close(); srv.Close(); close(done) }()
		select {
		case <-done:
		case <-time.After(time.Second):
		}
		rec.Flush()
	}()
	a, b := Pipe(fmt.Sprintf("PC%d", n), fmt.Sprintf("PS%d", n))
	sd := make(chan struct{})
	go func() { srv.ServeConn(b); close(sd) }()
	cs, st := cli.ServeConn(a)
	<-sd
	if !st.OK() {
		rec.Emit("SetupFailed")
		return
	}
	tag := sc.ID
	res := new(Res)
	done := make(chan erpc.CallCmd, 1)
	go func() { done <- cs.Call(routes[sc.Target-1], &Arg{Tag: tag}, res, erpc.WithSetMeta(MetaKey, "m-"+tag)) }()
	select {
	case cmd := <-done:
		s := cmd.Status()
		cause := ""
		if cz := s.Cause(); cz != nil {
			cause = cz.Error()
		}
		rec.Emit("CallDone", "code", s.Code(), "msg", s.Msg(), "cause", cause, "resok", res.Tag == F(tag), "route", routes[sc.Target-1])
	case <-time.After(3 * time.Second):
		rec.Emit("CallHang")
	}
	// the server's post-write hooks run after the caller has its reply: a graceful close of both peers waits
	// for every running handler context, so everything the exchange causes is recorded when it returns
	cd := make(chan struct{})
	go func() { srv.Close(); cli.Close(); close(cd) }() // the server first: its sessions are still indexed, so Close waits for their handlers
	select {
	case <-cd:
	case <-time.After(2 * time.Second):
	}
	rec.Emit("Quiesce")
}
