package vh

import (
	"bufio"
	"encoding/json"
	"flag"
	"fmt"
	"os"
	"sync"
	"time"

	erpc "github.com/henrylee2cn/erpc/v6"
)

func init() { Drivers["plug"] = drvPlug }

// PlugScenario is one placement tree exported by spec/Plugins.tla.
type PlugScenario struct {
	ID       string   `json:"id"`
	NL       int      `json:"nl"`
	NR       int      `json:"nr"`
	Depth    int      `json:"depth"`
	GP       []int    `json:"gp"`
	Sib      int      `json:"sib"`
	HP       []int    `json:"hp"`
	Late     string   `json:"late"`
	Target   int      `json:"target"`
	VetoPl   string   `json:"vetopl"`
	VStage   string   `json:"vstage"`
	ExpHooks []string `json:"exphooks"`
	Optional []string `json:"optional"`
	Invoked  bool     `json:"invoked"`
	// second class of spec/Plugins.tla: how the global lists came into being, both sibling routes called
	Origin string          `json:"origin"`
	Build  []PlugBuildStep `json:"build"`
	Calls  []PlugCall      `json:"calls"`
}

// PlugBuildStep is one construction step of the global plugin lists (before the routes are registered).
type PlugBuildStep struct {
	Op    string   `json:"op"`  // newpeer, appendleft, appendright, remove
	How   string   `json:"how"` // newpeer: "literal" (exact slice) or "sparecap" (slice with room to spare)
	Names []string `json:"names"`
}

// PlugCall is one CALL of a scenario of the second class, with the hook sequence expected for it.
type PlugCall struct {
	Target   int      `json:"target"`
	ExpHooks []string `json:"exphooks"`
	Invoked  bool     `json:"invoked"`
}

// HA / HB are the two sibling CALL controllers: routes .../ha/call and .../hb/call.
type HA struct{ erpc.CallCtx }

func (t *HA) Call(arg *Arg) (*Res, *erpc.Status) { return CurApp.CallHandler(t.CallCtx, arg) }

type HB struct{ erpc.CallCtx }

func (t *HB) Call(arg *Arg) (*Res, *erpc.Status) { return CurApp.CallHandler(t.CallCtx, arg) }

func drvPlug(args []string) int {
	fs := flag.NewFlagSet("plug", flag.ExitOnError)
	in := fs.String("in", "", "scenario file (ndjson)")
	out := fs.String("out", "", "trace file (ndjson)")
	fs.Parse(args)
	rec, err := NewRec(*out)
	if err != nil {
		fmt.Fprintln(os.Stderr, err)
		return 2
	}
	defer rec.Close()
	f, err := os.Open(*in)
	if err != nil {
		fmt.Fprintln(os.Stderr, err)
		return 2
	}
	defer f.Close()
	// the framework ends the process (Fatalf) when it refuses a configuration: made observable, see plugFatalCatcher
	erpc.SetLoggerOutputter(&plugFatalCatcher{})
	erpc.SetLoggerLevel("CRITICAL")
	rd := bufio.NewReaderSize(f, 1<<20)
	n := 0
	for {
		line, err := rd.ReadBytes('\n')
		if len(line) > 1 {
			var sc PlugScenario
			if e := json.Unmarshal(line, &sc); e != nil {
				fmt.Fprintln(os.Stderr, "bad scenario:", e)
				return 2
			}
			n++
			if sc.Origin != "" {
				plugGuard(rec, func() { runPlugOrigin(rec, &sc, n) })
				continue
			}
			runPlug(rec, &sc, n)
		}
		if err != nil {
			break
		}
	}
	rec.Flush()
	return 0
}

func runPlug(rec *Rec, sc *PlugScenario, n int) {
	rec.SetTrace(sc.ID, map[string]interface{}{"mode": "plug", "exphooks": sc.ExpHooks, "optional": sc.Optional,
		"vetopl": sc.VetoPl, "vstage": sc.VStage, "late": sc.Late, "depth": sc.Depth, "nl": sc.NL, "nr": sc.NR, "sib": sc.Sib})
	app := NewApp(rec, nil)
	CurApp = app
	mk := func(name string) erpc.Plugin {
		v := ""
		if sc.VetoPl == name {
			v = sc.VStage
		}
		return NewPlug(rec, "srv", name, "all", v)
	}
	var lefts []erpc.Plugin
	for i := 1; i <= sc.NL; i++ {
		lefts = append(lefts, mk(fmt.Sprintf("L%d", i)))
	}
	srv := erpc.NewPeer(erpc.PeerConfig{}, lefts...)
	for i := 1; i <= sc.NR; i++ {
		srv.PluginContainer().AppendRight(mk(fmt.Sprintf("R%d", i)))
	}
	// nested groups
	path := ""
	var grp *erpc.SubRouter
	for i := 1; i <= sc.Depth; i++ {
		var ps []erpc.Plugin
		if sc.GP[i-1] == 1 {
			ps = append(ps, mk(fmt.Sprintf("G%d", i)))
		}
		seg := fmt.Sprintf("g%d", i)
		if grp == nil {
			grp = srv.SubRoute(seg, ps...)
		} else {
			grp = grp.SubRoute(seg, ps...)
		}
		path += "/" + seg
	}
	reg := func(ctrl interface{}, ps ...erpc.Plugin) []string {
		if grp == nil {
			return srv.RouteCall(ctrl, ps...)
		}
		return grp.RouteCall(ctrl, ps...)
	}
	var routes []string
	for i := 1; i <= sc.Sib; i++ {
		var ps []erpc.Plugin
		if sc.HP[i-1] == 1 {
			ps = append(ps, mk(fmt.Sprintf("H%d", i)))
		}
		var names []string
		if i == 1 {
			names = reg(new(HA), ps...)
		} else {
			names = reg(new(HB), ps...)
		}
		routes = append(routes, names[0])
	}
	// a global plugin appended after the routes exist
	switch sc.Late {
	case "left":
		srv.PluginContainer().AppendLeft(mk("LL"))
	case "right":
		srv.PluginContainer().AppendRight(mk("LR"))
	}
	cli := erpc.NewPeer(erpc.PeerConfig{})
	defer func() {
		done := make(chan struct{})
		go func() { cli.Close(); srv.Close(); close(done) }()
		select {
		case <-done:
		case <-time.After(time.Second):
		}
		rec.Flush()
	}()
	a, b := Pipe(fmt.Sprintf("PC%d", n), fmt.Sprintf("PS%d", n))
	sd := make(chan struct{})
	go func() { srv.ServeConn(b); close(sd) }()
	cs, st := cli.ServeConn(a)
	<-sd
	if !st.OK() {
		rec.Emit("SetupFailed")
		return
	}
	tag := sc.ID
	res := new(Res)
	done := make(chan erpc.CallCmd, 1)
	go func() { done <- cs.Call(routes[sc.Target-1], &Arg{Tag: tag}, res, erpc.WithSetMeta(MetaKey, "m-"+tag)) }()
	select {
	case cmd := <-done:
		s := cmd.Status()
		cause := ""
		if cz := s.Cause(); cz != nil {
			cause = cz.Error()
		}
		rec.Emit("CallDone", "code", s.Code(), "msg", s.Msg(), "cause", cause, "resok", res.Tag == F(tag), "route", routes[sc.Target-1])
	case <-time.After(3 * time.Second):
		rec.Emit("CallHang")
	}
	// the server's post-write hooks run after the caller has its reply: a graceful close of both peers waits
	// for every running handler context, so everything the exchange causes is recorded when it returns
	cd := make(chan struct{})
	go func() { srv.Close(); cli.Close(); close(cd) }() // the server first: its sessions are still indexed, so Close waits for their handlers
	select {
	case <-cd:
	case <-time.After(2 * time.Second):
	}
	rec.Emit("Quiesce")
}

// plugFatalCatcher is installed as the framework's log outputter while the plug driver runs.  erpc.Fatalf writes a CRITICAL
// message, flushes the outputter and ends the process; here the flush that follows a CRITICAL message unwinds the scenario
// instead (the peer under construction is abandoned, as it would be by the exit), so that the refusal is recorded as an
// event of that scenario's trace and the remaining scenarios still run.
type plugFatalCatcher struct {
	mu   sync.Mutex
	crit string
}

type plugFatal struct{ msg string }

func (f *plugFatalCatcher) Output(calldepth int, msgBytes []byte, level erpc.LoggerLevel) {
	if level == erpc.CRITICAL {
		f.mu.Lock()
		f.crit = string(msgBytes)
		f.mu.Unlock()
	}
}

func (f *plugFatalCatcher) Flush() error {
	f.mu.Lock()
	m := f.crit
	f.crit = ""
	f.mu.Unlock()
	if m != "" {
		panic(plugFatal{m})
	}
	return nil
}

// plugGuard runs one scenario and records a Fatalf of the framework as the event Fatal.
func plugGuard(rec *Rec, run func()) {
	defer func() {
		if p := recover(); p != nil {
			pf, ok := p.(plugFatal)
			if !ok {
				panic(p)
			}
			rec.Emit("Fatal", "msg", pf.msg)
			rec.Flush()
		}
	}()
	run()
}

// runPlugOrigin executes a scenario of the second class: the global lists are built step by step as the scenario says, the
// groups and the two sibling routes are registered as in runPlug, then every route is called once (each call on a session of
// its own, closed gracefully on the serving side so that everything the exchange causes is recorded before the next starts).
func runPlugOrigin(rec *Rec, sc *PlugScenario, n int) {
	rec.SetTrace(sc.ID, map[string]interface{}{"mode": "plugorigin", "exphooks": []string{}, "optional": sc.Optional,
		"vetopl": sc.VetoPl, "vstage": sc.VStage, "late": sc.Late, "depth": sc.Depth, "nl": sc.NL, "nr": sc.NR, "sib": sc.Sib, "origin": sc.Origin})
	app := NewApp(rec, nil)
	CurApp = app
	mk := func(name string) erpc.Plugin {
		v := ""
		if sc.VetoPl == name {
			v = sc.VStage
		}
		return NewPlug(rec, "srv", name, "all", v)
	}
	var srv, cli erpc.Peer
	defer func() {
		done := make(chan struct{})
		go func() {
			if cli != nil {
				cli.Close()
			}
			if srv != nil {
				srv.Close()
			}
			close(done)
		}()
		select {
		case <-done:
		case <-time.After(time.Second):
		}
		rec.Flush()
	}()
	for _, b := range sc.Build {
		ps := make([]erpc.Plugin, len(b.Names)) // exactly as long as its content
		for i, nm := range b.Names {
			ps[i] = mk(nm)
		}
		errs := ""
		switch b.Op {
		case "newpeer":
			if b.How == "sparecap" {
				// what a caller gets who collects the plugins with append: a slice with room to spare
				grown := make([]erpc.Plugin, 0, len(ps)+4)
				grown = append(grown, ps...)
				srv = erpc.NewPeer(erpc.PeerConfig{}, grown...)
			} else {
				switch len(ps) {
				case 0:
					srv = erpc.NewPeer(erpc.PeerConfig{})
				case 1:
					srv = erpc.NewPeer(erpc.PeerConfig{}, ps[0])
				case 2:
					srv = erpc.NewPeer(erpc.PeerConfig{}, ps[0], ps[1])
				case 3:
					srv = erpc.NewPeer(erpc.PeerConfig{}, ps[0], ps[1], ps[2])
				default:
					srv = erpc.NewPeer(erpc.PeerConfig{}, ps[:len(ps):len(ps)]...)
				}
			}
		case "appendleft":
			srv.PluginContainer().AppendLeft(ps...)
		case "appendright":
			srv.PluginContainer().AppendRight(ps...)
		case "remove":
			for _, nm := range b.Names {
				if err := srv.PluginContainer().Remove(nm); err != nil {
					errs += err.Error() + ";"
				}
			}
		}
		rec.Emit("Built", "op", b.Op, "how", b.How, "names", b.Names, "err", errs)
	}
	if srv == nil {
		rec.Emit("SetupFailed")
		return
	}
	// nested groups
	var grp *erpc.SubRouter
	for i := 1; i <= sc.Depth; i++ {
		var ps []erpc.Plugin
		if sc.GP[i-1] == 1 {
			ps = append(ps, mk(fmt.Sprintf("G%d", i)))
		}
		seg := fmt.Sprintf("g%d", i)
		if grp == nil {
			grp = srv.SubRoute(seg, ps...)
		} else {
			grp = grp.SubRoute(seg, ps...)
		}
	}
	reg := func(ctrl interface{}, ps ...erpc.Plugin) []string {
		if grp == nil {
			return srv.RouteCall(ctrl, ps...)
		}
		return grp.RouteCall(ctrl, ps...)
	}
	var routes []string
	for i := 1; i <= sc.Sib; i++ {
		var ps []erpc.Plugin
		if sc.HP[i-1] == 1 {
			ps = append(ps, mk(fmt.Sprintf("H%d", i)))
		}
		var names []string
		if i == 1 {
			names = reg(new(HA), ps...)
		} else {
			names = reg(new(HB), ps...)
		}
		routes = append(routes, names[0])
	}
	// a global plugin appended after the routes exist
	switch sc.Late {
	case "left":
		srv.PluginContainer().AppendLeft(mk("LL"))
	case "right":
		srv.PluginContainer().AppendRight(mk("LR"))
	}
	cli = erpc.NewPeer(erpc.PeerConfig{})
	for k, call := range sc.Calls {
		if call.Target < 1 || call.Target > len(routes) {
			continue
		}
		rec.Emit("Target", "k", k, "target", call.Target, "route", routes[call.Target-1], "exphooks", call.ExpHooks, "optional", sc.Optional, "invoked", call.Invoked)
		a, b := Pipe(fmt.Sprintf("PC%d_%d", n, k), fmt.Sprintf("PS%d_%d", n, k))
		var ss erpc.Session
		sd := make(chan struct{})
		go func() { ss, _ = srv.ServeConn(b); close(sd) }()
		cs, st := cli.ServeConn(a)
		<-sd
		if !st.OK() || ss == nil {
			rec.Emit("SetupFailed")
			return
		}
		tag := fmt.Sprintf("%s.%d", sc.ID, k)
		res := new(Res)
		done := make(chan erpc.CallCmd, 1)
		go func() {
			done <- cs.Call(routes[call.Target-1], &Arg{Tag: tag}, res, erpc.WithSetMeta(MetaKey, "m-"+tag))
		}()
		select {
		case cmd := <-done:
			s := cmd.Status()
			cause := ""
			if cz := s.Cause(); cz != nil {
				cause = cz.Error()
			}
			rec.Emit("CallDone", "code", s.Code(), "msg", s.Msg(), "cause", cause, "resok", res.Tag == F(tag), "route", routes[call.Target-1])
		case <-time.After(10 * time.Second):
			rec.Emit("CallHang")
		}
		// the serving side's post-write hooks run after the caller has its reply: a graceful close of the serving session
		// waits for its running handler contexts
		cd := make(chan struct{})
		go func() { ss.Close(); cs.Close(); close(cd) }()
		select {
		case <-cd:
		case <-time.After(5 * time.Second):
		}
		rec.Emit("Quiesce", "k", k)
	}
}
