package vh

import (
	"bufio"
	"encoding/json"
	"flag"
	"fmt"
	"os"
	"runtime"
	"strings"
	"sync"
	"sync/atomic"
	"time"

	erpc "github.com/henrylee2cn/erpc/v6"
	"github.com/henrylee2cn/erpc/v6/plugin/overloader"
)

func init() { Drivers["overload"] = drvOverload }

// OverloadScenario is one history exported by spec/Overload.tla (or a rate scenario).
type OverloadScenario struct {
	ID    string `json:"id"`
	Path  string `json:"path"`
	Steps []struct {
		Op       string `json:"op"`
		K        int    `json:"k"`
		Admitted int    `json:"admitted"`
		Live     int    `json:"live"`
	} `json:"steps"`
	Rate *struct {
		Cap      int   `json:"cap"`
		Interval int   `json:"interval_ms"`
		Bursts   []int `json:"bursts"`
		Waits    []int `json:"waits_ms"`
		Sessions int   `json:"sessions"`
		Hammer   int   `json:"hammer"` // > 0: that many goroutines take from the bucket at the same instant, through the plugin's hook
		From     *struct {
			Cap      int `json:"cap"`
			Interval int `json:"interval_ms"`
		} `json:"from"` // the plugin starts with this rate limit and is updated to the scenario's before the first burst
	} `json:"rate"`
}

func drvOverload(args []string) int {
	fs := flag.NewFlagSet("overload", flag.ExitOnError)
	in := fs.String("in", "", "scenario file (ndjson)")
	out := fs.String("out", "", "trace file (ndjson)")
	fs.Int64("seed", 1, "seed")
	fs.Parse(args)
	rec, err := NewRec(*out)
	if err != nil {
		fmt.Fprintln(os.Stderr, err)
		return 2
	}
	defer rec.Close()
	f, err := os.Open(*in)
	if err != nil {
		fmt.Fprintln(os.Stderr, err)
		return 2
	}
	defer f.Close()
	rd := bufio.NewReaderSize(f, 1<<20)
	n := 0
	for {
		line, err := rd.ReadBytes('\n')
		if len(line) > 1 {
			var sc OverloadScenario
			if e := json.Unmarshal(line, &sc); e != nil {
				fmt.Fprintln(os.Stderr, "bad scenario:", e)
				return 2
			}
			n++
			if sc.Rate != nil {
				runRate(rec, &sc, n)
			} else {
				runOverload(rec, &sc, n)
			}
		}
		if err != nil {
			break
		}
	}
	rec.Flush()
	return 0
}

// ovDisc is registered after the overload plugin: its disconnect hook runs after the plugin's, so once it has
// run for a session the plugin has released (or not) that session's slot.
type ovDisc struct {
	mu   sync.Mutex
	done map[string]int
}

func (d *ovDisc) Name() string { return "verif-after-overloader" }
func (d *ovDisc) PostDisconnect(s erpc.BaseSession) *erpc.Status {
	d.mu.Lock()
	d.done[Name(s)]++
	d.mu.Unlock()
	return nil
}
func (d *ovDisc) count(name string) int {
	d.mu.Lock()
	defer d.mu.Unlock()
	return d.done[name]
}

type ovSess struct {
	srv, cli erpc.Session
	conn     *Conn
}

// ovDiscPtr is ovDisc keyed by the session object (a re-dialled session changes its addresses).
type ovDiscPtr struct {
	mu   sync.Mutex
	done map[interface{}]int
}

func (d *ovDiscPtr) Name() string { return "verif-after-overloader" }
func (d *ovDiscPtr) PostDisconnect(s erpc.BaseSession) *erpc.Status {
	d.mu.Lock()
	d.done[interface{}(s)]++
	d.mu.Unlock()
	return nil
}
func (d *ovDiscPtr) count(s erpc.Session) int {
	d.mu.Lock()
	defer d.mu.Unlock()
	return d.done[interface{}(s)]
}

// runOverloadDial: the plugin sits on the DIALLING peer (PostDial takes the slot), which re-dials lost connections.
// The remote end is a plain peer behind a loopback listener.  "blip": the remote end drops the oldest admitted
// session's connection and the session re-dials successfully -- it is the same admitted session before and after.
func runOverloadDial(rec *Rec, sc *OverloadScenario, n int) {
	rec.SetTrace(sc.ID, map[string]interface{}{"mode": "overload", "cap": 0, "once": 0, "path": sc.Path})
	app := NewApp(rec, nil)
	CurApp = app
	bk := erpc.NewPeer(erpc.PeerConfig{})
	bk.RouteCall(new(T))
	lis, err := LoopListen()
	if err != nil {
		rec.Emit("SetupFailed", "why", err.Error())
		return
	}
	go erpc.VerifServeListener(bk, NoLinger{lis})
	addr := lis.Addr().String()
	var ov *overloader.Overloader
	var cli erpc.Peer
	after := &ovDiscPtr{done: map[interface{}]int{}}
	var liveS []erpc.Session
	var rejectedOpen int32
	defer func() {
		done := make(chan struct{})
		go func() {
			if cli != nil {
				cli.Close()
			}
			bk.Close()
			close(done)
		}()
		select {
		case <-done:
		case <-time.After(time.Second):
		}
		lis.Close()
		rec.Flush()
	}()
	dial := func() erpc.Session {
		s, st := cli.Dial(addr)
		if !st.OK() || s == nil {
			rec.Emit("DialRefused", "v", statStr(st))
			if st.Code() == erpc.CodeDialFailed && !strings.Contains(statStr(st), "connection overload") {
				// the machine, not the plugin, refused (no local port, ...): nothing can be concluded from this run
				rec.Emit("EnvFailure", "why", statStr(st))
			}
			return nil
		}
		return s
	}
	// the remote end sees exactly the live sessions once a rejected connection has been closed by the dialling side
	settled := func() bool {
		return WaitUntil(500*time.Millisecond, func() bool { return bk.CountSession() == len(liveS) })
	}
	for _, st := range sc.Steps {
		switch st.Op {
		case "limit":
			ov = overloader.New(overloader.LimitConfig{MaxConn: int32(st.K)})
			cli = erpc.NewPeer(erpc.PeerConfig{RedialTimes: 5, RedialInterval: 3 * time.Millisecond, DialTimeout: 2 * time.Second}, NoLingerDial{}, ov, after)
			rec.Emit("Op", "op", "limit", "k", st.K, "admitted", 0)
			continue
		case "raise":
			ov.Update(overloader.LimitConfig{MaxConn: int32(st.K)})
			rec.Emit("Op", "op", "raise", "k", st.K, "admitted", 0)
		case "connect":
			adm := 0
			if s := dial(); s != nil {
				adm = 1
				liveS = append(liveS, s)
			} else if !settled() {
				atomic.AddInt32(&rejectedOpen, 1)
			}
			rec.Emit("Op", "op", "connect", "k", 1, "admitted", adm)
		case "burst":
			var mu sync.Mutex
			var wg sync.WaitGroup
			before := len(liveS)
			for i := 0; i < st.K; i++ {
				wg.Add(1)
				go func() {
					defer wg.Done()
					if s := dial(); s != nil {
						mu.Lock()
						liveS = append(liveS, s)
						mu.Unlock()
					}
				}()
			}
			wg.Wait()
			if !settled() {
				atomic.AddInt32(&rejectedOpen, 1)
			}
			rec.Emit("Op", "op", "burst", "k", st.K, "admitted", len(liveS)-before)
		case "close":
			if len(liveS) == 0 {
				rec.Emit("Stuck", "why", "nothing to end")
				continue
			}
			s := liveS[0]
			liveS = liveS[1:]
			s.Close()
			WaitUntil(time.Second, func() bool {
				select {
				case <-s.CloseNotify():
					return !s.Health() && after.count(s) > 0
				default:
					return false
				}
			})
			settled()
			rec.Emit("Op", "op", "close", "k", 1, "admitted", 0)
		case "blip":
			if len(liveS) == 0 {
				rec.Emit("Stuck", "why", "nothing to blip")
				continue
			}
			s := liveS[0]
			old := Name(s)
			rs, ok := bk.GetSession(old)
			if !ok {
				rec.Emit("Stuck", "why", "remote end of the session not found")
				continue
			}
			rs.Close()
			// the session notices, re-dials, and is served again under its new address
			back := WaitUntil(3*time.Second, func() bool {
				if !s.Health() {
					return false
				}
				// (the new connection may well get the local port of the old one: the remote end's session object tells them apart)
				rs2, ok := bk.GetSession(Name(s))
				return ok && rs2 != rs && rs2.Health()
			})
			if !back {
				rec.Emit("Stuck", "why", "the session did not come back from its re-dial")
			}
			settled()
			rec.Emit("Op", "op", "blip", "k", 1, "admitted", 0)
		}
		working := 0
		for _, s := range liveS {
			r := new(Res)
			if s.Call(CallRoute, &Arg{Tag: "w"}, r).StatusOK() && r.Tag == F("w") {
				working++
			}
		}
		rec.Emit("Probe", "count", cli.CountSession(), "working", working, "rejectedopen", atomic.LoadInt32(&rejectedOpen))
	}
}

func runOverload(rec *Rec, sc *OverloadScenario, n int) {
	if sc.Path == "dial" {
		runOverloadDial(rec, sc, n)
		return
	}
	rec.SetTrace(sc.ID, map[string]interface{}{"mode": "overload", "cap": 0, "once": 0, "path": sc.Path})
	var lis *MemListener
	// serve admits connection b on the server by the scenario's accept path and reports the session (nil: rejected)
	serve := func(srv erpc.Peer, a, b *Conn, cs *erpc.Session, cd chan struct{}) (erpc.Session, bool) {
		if sc.Path != "listen" {
			ss, st := srv.ServeConn(b)
			return ss, st.OK() && ss != nil
		}
		lis.Inject(b)
		var ss erpc.Session
		WaitUntil(3*time.Second, func() bool {
			if s, ok := srv.GetSession(a.LocalAddr().String()); ok && s.Health() {
				ss = s
				return true
			}
			// rejected: the accept loop closed the connection, which the client side notices
			select {
			case <-cd:
				if *cs != nil {
					select {
					case <-(*cs).CloseNotify():
						return true
					default:
					}
				}
			default:
			}
			return false
		})
		return ss, ss != nil
	}
	app := NewApp(rec, nil)
	CurApp = app
	var ov *overloader.Overloader
	var srv erpc.Peer
	cli := erpc.NewPeer(erpc.PeerConfig{})
	var liveS []*ovSess
	var rejectedOpen int32
	after := &ovDisc{done: map[string]int{}}
	k := 0
	connect := func() bool {
		k++
		a, b := Pipe(fmt.Sprintf("OC%d.%d", n, k), fmt.Sprintf("OS%d.%d", n, k))
		var cs erpc.Session
		cd := make(chan struct{})
		go func() { cs, _ = cli.ServeConn(a); close(cd) }()
		ss, ok := serve(srv, a, b, &cs, cd)
		<-cd
		if !ok {
			// a rejected connection must be closed by the server
			if cs != nil {
				closed := WaitUntil(300*time.Millisecond, func() bool {
					select {
					case <-cs.CloseNotify():
						return true
					default:
						return false
					}
				})
				if !closed {
					atomic.AddInt32(&rejectedOpen, 1)
				}
			}
			return false
		}
		liveS = append(liveS, &ovSess{srv: ss, cli: cs, conn: a})
		return true
	}
	defer func() {
		done := make(chan struct{})
		go func() {
			cli.Close()
			if srv != nil {
				srv.Close()
			}
			close(done)
		}()
		select {
		case <-done:
		case <-time.After(time.Second):
		}
		rec.Flush()
	}()
	for _, st := range sc.Steps {
		switch st.Op {
		case "limit":
			ov = overloader.New(overloader.LimitConfig{MaxConn: int32(st.K)})
			srv = erpc.NewPeer(erpc.PeerConfig{}, ov, after)
			srv.RouteCall(new(T))
			if sc.Path == "listen" {
				lis = NewMemListener(fmt.Sprintf("OL%d", n))
				go erpc.VerifServeListener(srv, lis)
			}
			rec.Emit("Op", "op", "limit", "k", st.K, "admitted", 0)
			continue
		case "raise": // also: a limit is configured for the first time
			ov.Update(overloader.LimitConfig{MaxConn: int32(st.K)})
			rec.Emit("Op", "op", "raise", "k", st.K, "admitted", 0)
		case "connect":
			adm := 0
			if connect() {
				adm = 1
			}
			rec.Emit("Op", "op", "connect", "k", 1, "admitted", adm)
		case "burst":
			// concurrent connection attempts
			var mu sync.Mutex
			var wg sync.WaitGroup
			adm := 0
			res := make([]*ovSess, 0)
			for i := 0; i < st.K; i++ {
				wg.Add(1)
				k++
				kk := k
				go func() {
					defer wg.Done()
					a, b := Pipe(fmt.Sprintf("OC%d.%d", n, kk), fmt.Sprintf("OS%d.%d", n, kk))
					var cs erpc.Session
					cd := make(chan struct{})
					go func() { cs, _ = cli.ServeConn(a); close(cd) }()
					ss, ok := serve(srv, a, b, &cs, cd)
					<-cd
					if ok {
						mu.Lock()
						adm++
						res = append(res, &ovSess{srv: ss, cli: cs, conn: a})
						mu.Unlock()
					}
				}()
			}
			wg.Wait()
			liveS = append(liveS, res...)
			rec.Emit("Op", "op", "burst", "k", st.K, "admitted", adm)
		case "disc", "close":
			if len(liveS) == 0 {
				rec.Emit("Stuck", "why", "nothing to end")
				continue
			}
			s := liveS[0]
			liveS = liveS[1:]
			if st.Op == "disc" {
				s.conn.Close()
			} else {
				s.srv.Close()
			}
			WaitUntil(time.Second, func() bool {
				select {
				case <-s.srv.CloseNotify():
					// ... and the disconnect hooks (the plugin's slot release among them) have run
					return !s.srv.Health() && after.count(Name(s.srv)) > 0
				default:
					return false
				}
			})
			rec.Emit("Op", "op", st.Op, "k", 1, "admitted", 0)
		}
		// quiescent probe: how many sessions can complete a call
		working := 0
		for _, s := range liveS {
			r := new(Res)
			if s.cli != nil && s.cli.Call(CallRoute, &Arg{Tag: "w"}, r).StatusOK() && r.Tag == F("w") {
				working++
			}
		}
		rec.Emit("Probe", "count", srv.CountSession(), "working", working, "rejectedopen", atomic.LoadInt32(&rejectedOpen))
	}
}

// fakeRead is the smallest ReadCtx the plugin's header hook needs: it only asks for the service method.
type fakeRead struct{ erpc.ReadCtx }

func (fakeRead) ServiceMethod() string { return CallRoute }

// runHammer releases r.Hammer goroutines from a spin barrier into the plugin's PostReadCallHeader hook (the real
// token bucket, a fresh one per round): the interleavings of spec/QpsAtomic.tla, sampled by the scheduler.
func runHammer(rec *Rec, sc *OverloadScenario, n int) {
	r := sc.Rate
	interval := time.Duration(r.Interval) * time.Millisecond
	once := r.Cap / int(time.Second/interval)
	if once == 0 {
		once = 1
	}
	rec.SetTrace(sc.ID, map[string]interface{}{"mode": "rate", "cap": r.Cap, "once": once})
	for _, rounds := range r.Bursts {
		for k := 0; k < rounds; k++ {
			ov := overloader.New(overloader.LimitConfig{MaxTotalQPS: int32(r.Cap), QPSInterval: interval})
			var ready, admitted, rejErr int32
			var gate int32
			var wg sync.WaitGroup
			t0 := time.Now()
			for g := 0; g < r.Hammer; g++ {
				wg.Add(1)
				go func() {
					defer wg.Done()
					atomic.AddInt32(&ready, 1)
					for atomic.LoadInt32(&gate) == 0 {
					}
					st := ov.PostReadCallHeader(fakeRead{})
					if st.OK() {
						atomic.AddInt32(&admitted, 1)
					} else if st.Code() == erpc.CodeInternalServerError {
						atomic.AddInt32(&rejErr, 1)
					}
				}()
			}
			for atomic.LoadInt32(&ready) < int32(r.Hammer) {
				runtime.Gosched()
			}
			atomic.StoreInt32(&gate, 1)
			wg.Wait()
			ticks := int(time.Since(t0)/interval) + 1
			a := int(atomic.LoadInt32(&admitted))
			// one event per round; the bucket is fresh (event Fresh)
			rec.Emit("Fresh", "round", k)
			rec.Emit("Calls", "sent", r.Hammer, "admitted", a, "rejected", r.Hammer-a, "rejectederr", int(atomic.LoadInt32(&rejErr)),
				"handlers", a, "ticks", ticks-1, "hammer", true)
		}
	}
}

func runRate(rec *Rec, sc *OverloadScenario, n int) {
	r := sc.Rate
	if r.Hammer > 0 {
		runHammer(rec, sc, n)
		return
	}
	interval := time.Duration(r.Interval) * time.Millisecond
	once := r.Cap / int(time.Second/interval)
	if once == 0 {
		once = 1
	}
	rec.SetTrace(sc.ID, map[string]interface{}{"mode": "rate", "cap": r.Cap, "once": once})
	app := NewApp(rec, nil)
	CurApp = app
	var ov *overloader.Overloader
	if r.From != nil {
		// a limit update on a live plugin: from then on the new capacity and the new refill apply
		ov = overloader.New(overloader.LimitConfig{MaxTotalQPS: int32(r.From.Cap), QPSInterval: time.Duration(r.From.Interval) * time.Millisecond})
		time.Sleep(3 * time.Duration(r.From.Interval) * time.Millisecond)
		ov.Update(overloader.LimitConfig{MaxTotalQPS: int32(r.Cap), QPSInterval: interval})
	} else {
		ov = overloader.New(overloader.LimitConfig{MaxTotalQPS: int32(r.Cap), QPSInterval: interval})
	}
	srv := erpc.NewPeer(erpc.PeerConfig{}, ov)
	srv.RouteCall(new(T))
	srv.RoutePush(new(U))
	cli := erpc.NewPeer(erpc.PeerConfig{})
	defer func() {
		done := make(chan struct{})
		go func() { cli.Close(); srv.Close(); close(done) }()
		select {
		case <-done:
		case <-time.After(time.Second):
		}
		rec.Flush()
	}()
	// several sessions: each session's reader takes tokens on its own goroutine, so the bucket sees truly
	// concurrent takes (one session alone would serialise them)
	nsess := r.Sessions
	if nsess < 1 {
		nsess = 1
	}
	var css []erpc.Session
	for k := 0; k < nsess; k++ {
		a, b := Pipe(fmt.Sprintf("QC%d.%d", n, k), fmt.Sprintf("QS%d.%d", n, k))
		sd := make(chan struct{})
		go func() { srv.ServeConn(b); close(sd) }()
		c, _ := cli.ServeConn(a)
		<-sd
		css = append(css, c)
	}
	start := time.Now()
	lastTicks := 0
	for i, burst := range r.Bursts {
		if i > 0 && i-1 < len(r.Waits) {
			time.Sleep(time.Duration(r.Waits[i-1]) * time.Millisecond)
		}
		before := atomic.LoadInt64(&app.Enters)
		beforePush := atomic.LoadInt64(&app.EntersPush)
		admitted, rejected, rejectedErr := 0, 0, 0
		var wg sync.WaitGroup
		var mu sync.Mutex
		// every second burst mixes pushes in (they take tokens like calls, but are not answered)
		pushes := 0
		if i%2 == 1 {
			pushes = burst / 2
		}
		for j := 0; j < pushes; j++ {
			wg.Add(1)
			go func(j int) {
				defer wg.Done()
				css[j%len(css)].Push(PushRoute, &Arg{Tag: fmt.Sprintf("qp%d.%d", i, j)})
			}(j)
		}
		for j := 0; j < burst-pushes; j++ {
			wg.Add(1)
			go func(j int) {
				defer wg.Done()
				res := new(Res)
				cmd := css[j%len(css)].Call(CallRoute, &Arg{Tag: fmt.Sprintf("q%d.%d", i, j)}, res)
				mu.Lock()
				if cmd.StatusOK() {
					admitted++
				} else {
					rejected++
					if cmd.Status().Code() == erpc.CodeInternalServerError {
						rejectedErr++
					}
				}
				mu.Unlock()
			}(j)
		}
		wg.Wait()
		// ticks that can have elapsed since the previous burst ended (upper bound)
		ticksNow := int(time.Since(start)/interval) + 1
		if pushes > 0 {
			// pushes are handled asynchronously: wait until the handler count is stable
			last := int64(-1)
			for k := 0; k < 50; k++ {
				now := atomic.LoadInt64(&app.Enters)
				if now == last && k >= 3 {
					break
				}
				last = now
				time.Sleep(500 * time.Microsecond)
			}
		}
		// an admitted push is one whose handler ran; a rejected push gets no reply by definition
		pushIn := int(atomic.LoadInt64(&app.EntersPush) - beforePush)
		rec.Emit("Calls", "sent", burst, "admitted", admitted+pushIn, "rejected", rejected+pushes-pushIn, "rejectederr", rejectedErr+pushes-pushIn,
			"handlers", atomic.LoadInt64(&app.Enters)-before, "ticks", ticksNow-lastTicks, "pushes", pushes, "pushesin", pushIn)
		lastTicks = int(time.Since(start) / interval)
	}
}
