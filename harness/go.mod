module verifharness

go 1.14

require github.com/henrylee2cn/erpc/v6 v6.0.0

replace github.com/henrylee2cn/erpc/v6 => /repo
