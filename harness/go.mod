module verifharness

go 1.14

require (
	git.apache.org/thrift.git v0.13.0
	github.com/henrylee2cn/erpc/v6 v6.0.0
	github.com/henrylee2cn/goutil v0.0.0-20200416032639-974f5b4094a2
)

replace github.com/henrylee2cn/erpc/v6 => /repo
