#!/bin/bash
# save_round.sh <prop> <name1> <name2> — confirms the two changes a sub-agent left in /tmp/wt/<prop>/_out/{m1,m2},
# saves them as /verif/seeded/<prop>-<name1|name2> when confirmed, and removes the worktree.
p=$1; n1=$2; n2=$3
ok=1
for pair in m1:$n1 m2:$n2; do
  s=${pair%%:*}; d=${pair##*:}
  out=$(/verif/bin/confirm_seed.sh /tmp/wt/$p /tmp/wt/$p/_out/$s 2>&1)
  un=$(echo "$out" | sed -n '/--- demo on unchanged tree/,/--- builds/p' | grep -c '^ok')
  nt=$(echo "$out" | grep -c 'no tests to run')
  b=$(echo "$out" | grep -c BUILD_OK)
  pin=$(echo "$out" | sed -n '/--- pinned suite/,/--- demo with patch/p' | grep -c '^ok')
  fl=$(echo "$out" | sed -n '/--- demo with patch/,$p' | grep -cE '^(FAIL|panic)')
  echo "$p $s -> $d: unchanged_ok=$un notests=$nt build=$b pinned_ok=$pin fails_with_patch=$fl"
  if [ "$un" -ge 1 ] && [ "$nt" -eq 0 ] && [ "$b" -eq 1 ] && [ "$pin" -eq 5 ] && [ "$fl" -ge 1 ]; then
    mkdir -p /verif/seeded/$p-$d
    cp /tmp/wt/$p/_out/$s/patch.diff /tmp/wt/$p/_out/$s/meta.json /tmp/wt/$p/_out/$s/*_test.go /verif/seeded/$p-$d/ 2>/dev/null
    cp /tmp/wt/$p/_out/$s/*.go /verif/seeded/$p-$d/ 2>/dev/null
  else
    ok=0; echo "$out" | tail -15
  fi
done
if [ $ok -eq 1 ]; then git -C /repo worktree remove --force /tmp/wt/$p; echo "$p saved, worktree removed"; else echo "$p NOT fully confirmed: worktree kept"; fi
