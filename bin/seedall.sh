#!/bin/bash
# seedall.sh [names...] — runs every seeded change (or the named ones) against the quick check of its own
# property, 4 at a time, and rewrites seeded/RESULTS.txt (one line per change: name property rc signatures).
cd /verif
names="$@"; [ -z "$names" ] && names=$(ls seeded | grep -E '^C[0-9]+-m[0-9]+$')
mkdir -p out/seedall
# run from a snapshot of /verif, so that work in /verif during the sweep cannot disturb it
snap=/tmp/vsnap.$$
rm -rf $snap; mkdir -p $snap/out
rsync -a --exclude out --exclude .git /verif/ $snap/
cp -r /verif/out/cache $snap/out/cache 2>/dev/null
export VROOT=$snap
trap 'rm -rf $snap' EXIT
run1() {
  n=$1; p=${n%%-*}
  o=$(/verif/bin/seedtest.sh $n $p 2>&1)
  rc=$(echo "$o" | sed -n 's/^RESULT .* rc=\([0-9]*\)$/\1/p' | tail -1)
  sig=$(echo "$o" | sed -n 's/^ *signature: //p' | sed 's/[0-9]\{2,\}/N/g' | sort -u | head -3 | tr '\n' ' ')
  echo "$n $p rc=$rc $sig" > /verif/out/seedall/$n.txt
}
export -f run1
echo $names | tr ' ' '\n' | xargs -P ${PAR:-4} -I{} bash -c 'run1 {}'
for n in $names; do cat out/seedall/$n.txt; done | tee out/seedall/ALL.txt
if [ -z "$1" ]; then cp out/seedall/ALL.txt seeded/RESULTS.txt; fi
