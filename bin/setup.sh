#!/bin/bash
# Offline setup: build the Go harness from files on disk and parse every spec.
set -e
cd "$(dirname "$0")/.."
export GOFLAGS=-mod=mod GOPROXY=off GOSUMDB=off GOTOOLCHAIN=local
mkdir -p out evidence
cp /repo/go.sum harness/go.sum
(cd harness && go build -tags verif -o ../out/vrun ./cmd/vrun)
echo "setup ok"
