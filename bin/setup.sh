#!/bin/bash
# Offline setup: build the Go harness from files on disk and parse every spec.
set -e
cd "$(dirname "$0")/.."
export GOFLAGS=-mod=mod GOPROXY=off GOSUMDB=off GOTOOLCHAIN=local
mkdir -p out evidence
cp /repo/go.sum harness/go.sum
(cd harness && go build -tags verif -o ../out/vrun ./cmd/vrun)
tmp=out/sany.$$; mkdir -p $tmp; cp spec/*.tla $tmp/
for f in $tmp/*.tla; do
  if ! (cd $tmp && tla-sany "$(basename $f)" > sany.log 2>&1) || grep -q "Parsing or semantic analysis failed\|\*\*\* Errors" $tmp/sany.log; then
    echo "SANY failed for $f"; tail -20 $tmp/sany.log; rm -rf $tmp; exit 1
  fi
done
rm -rf $tmp
echo "setup ok"
