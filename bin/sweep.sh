#!/bin/bash
# sweep.sh <tier> <seed> [props...] — runs the checks one after the other on /repo and prints one line per check.
root=${VROOT:-/verif}
if [ -n "$SNAP" ]; then
  # run from a snapshot (evidence goes to the snapshot too): used to try the checks while /verif is being edited
  root=/tmp/vsnap_sweep.$$; rm -rf $root; mkdir -p $root/out
  rsync -a --exclude out --exclude .git ${VROOT:-/verif}/ $root/; [ -z "$NOCACHE" ] && cp -r ${VROOT:-/verif}/out/cache $root/out/cache 2>/dev/null
  trap 'rm -rf $root' EXIT
fi
cd $root
export GOFLAGS=-mod=mod GOPROXY=off GOSUMDB=off GOTOOLCHAIN=local
tier=$1; seed=$2; shift 2
props="$@"; [ -z "$props" ] && props="C01 C02 C03 C04 C05 C06 C07 C08 C09 C10 C11 C12 C13 C14 C15 C16 C17 C18 C19 C20"
mkdir -p /verif/out/sweep
for p in $props; do
  t0=$(date +%s)
  VERIF_SEED=$seed timeout 14400 bin/vcheck $p --tier $tier > /verif/out/sweep/$p.$tier.$seed.log 2>&1; rc=$?
  echo "SWEEP $p tier=$tier seed=$seed rc=$rc wall=$(( $(date +%s) - t0 ))s $(grep -cE '^VIOLATION' /verif/out/sweep/$p.$tier.$seed.log) violations $(grep -c '^KNOWN-FINDING' /verif/out/sweep/$p.$tier.$seed.log) known"
done
