#!/bin/bash
# sweep.sh <tier> <seed> [props...] — runs the checks one after the other on /repo and prints one line per check.
cd /verif
export GOFLAGS=-mod=mod GOPROXY=off GOSUMDB=off GOTOOLCHAIN=local
tier=$1; seed=$2; shift 2
props="$@"; [ -z "$props" ] && props="C01 C02 C03 C04 C05 C06 C07 C08 C09 C10 C11 C12 C13 C14 C15 C16 C17 C18 C19 C20"
mkdir -p out/sweep
for p in $props; do
  t0=$(date +%s)
  VERIF_SEED=$seed timeout 14400 bin/vcheck $p --tier $tier > out/sweep/$p.$tier.$seed.log 2>&1; rc=$?
  echo "SWEEP $p tier=$tier seed=$seed rc=$rc wall=$(( $(date +%s) - t0 ))s $(grep -cE '^VIOLATION' out/sweep/$p.$tier.$seed.log) violations $(grep -c '^KNOWN-FINDING' out/sweep/$p.$tier.$seed.log) known"
done
