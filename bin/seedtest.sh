#!/bin/bash
# seedtest.sh <seeded dir name under /verif/seeded> <property> [more properties...]
# Applies the seeded change in a scratch worktree of /repo (never in /repo itself), runs the quick
# checks against it with VERIF_REPO pointing there, and removes the worktree.
name=$1; shift
wt=/tmp/seedwt/$name.$$
mkdir -p /tmp/seedwt
git -C /repo worktree add -q --detach "$wt" HEAD || exit 2
trap 'git -C /repo worktree remove --force "$wt" 2>/dev/null; rm -rf "$wt"' EXIT
git -C "$wt" apply /verif/seeded/$name/patch.diff || { echo "patch does not apply"; exit 2; }
for p in "$@"; do
  out=$(cd ${VROOT:-/verif} && VERIF_REPO="$wt" timeout 2400 bin/vcheck $p --tier ${TIER:-quick} 2>&1); rc=$?
  echo "$out" | grep -E "VIOLATION|signature|BROKEN|KNOWN|^\[C" | cut -c1-240
  echo "RESULT $name $p rc=$rc"
done
