#!/bin/bash
# confirm_seed.sh <worktree> <mutation dir (with patch.diff, demo_test.go, meta.json)>
# Confirms in the scratch worktree: demo passes unpatched, patch applies, builds (both tag settings),
# pinned suite passes, demo fails patched. Leaves the worktree clean.
export GOFLAGS=-mod=mod GOPROXY=off GOSUMDB=off GOTOOLCHAIN=local
wt=$1; m=$2
cd "$wt" || exit 2
git checkout -q -- . ; git clean -fdq -e _out
pkg=$(python3 -c "import json;p=json.load(open('$m/meta.json')).get('demo_pkg_dir','.');print('.' if (' ' in p or p.startswith('/')) else p)")
cmd=$(python3 -c "import json;print(json.load(open('$m/meta.json'))['demo_cmd'])")
echo "demo_pkg_dir=$pkg"; echo "demo_cmd=$cmd"
pat=$(python3 -c "
import json,re
c=json.load(open('$m/meta.json'))['demo_cmd']
r=re.search(r'-run[ =]+(\S+)', c)
print(r.group(1).strip('\'\"') if r else '')")
[ -z "$pat" ] && pat='Demo|C[0-9][0-9]|[Mm][12]'
echo "run pattern: $pat"
demo=$(ls $m/*_test.go | head -1)
cp "$demo" "$wt/$pkg/zz_demo_test.go"
run_demo() { (cd "$wt" && timeout 300 go test -tags verif -vet=off -count=1 -timeout 120s -run "$pat" ./$pkg 2>&1 | tail -5); }
echo "--- demo on unchanged tree"; run_demo | grep -E "^(ok|FAIL|---|panic)" | tail -3
git apply --check "$m/patch.diff" || { echo "PATCH DOES NOT APPLY"; exit 1; }
git apply "$m/patch.diff"
echo "--- builds"; go build -tags verif . ./socket ./codec ./utils ./xfer/... ./proto/... ./plugin/... ./mixer/websocket/... && go build . ./socket ./codec ./utils ./xfer/... ./proto/... ./plugin/... && echo BUILD_OK
rm -f "$wt/$pkg/zz_demo_test.go"   # the pinned suite is run without the demonstration
echo "--- pinned suite"; go test -mod=mod -vet=off -count=1 ./codec ./socket ./utils ./xfer/gzip ./mixer/websocket/websocket 2>&1 | tail -6
cp "$demo" "$wt/$pkg/zz_demo_test.go"
echo "--- demo with patch"; run_demo | tail -4
git checkout -q -- . ; git clean -fdq -e _out
