#!/bin/bash
# Runs the repository's pinned baseline suite with the `verif` guard OFF and
# prints a pass/fail summary; exit 0 iff the 43 stable tests pass.
export GOFLAGS=-mod=mod GOPROXY=off GOSUMDB=off GOTOOLCHAIN=local
cd /repo || exit 2
out=$(mktemp)
go test -mod=mod -json -vet=off -count=1 -timeout 25m ./... > "$out" 2>/dev/null
python3 - "$out" <<'PY'
import json,sys
want=set(json.load(open('/root/.vp/BASELINE.json'))['stable_pass'])
res={}
for l in open(sys.argv[1]):
    try: e=json.loads(l)
    except Exception: continue
    if e.get('Test') and e.get('Action') in('pass','fail','skip'):
        res[e['Package']+'::'+e['Test']]=e['Action']
missing=[t for t in sorted(want) if res.get(t)!='pass']
print("baseline: %d/%d stable tests pass"%(len(want)-len(missing),len(want)))
for t in missing: print("NOT PASSING:",t,res.get(t))
sys.exit(1 if missing else 0)
PY
rc=$?
rm -f "$out"
exit $rc
