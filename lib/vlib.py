#!/usr/bin/env python3
"""Shared machinery of /verif: TLC runs, scenario export, harness runs, trace
validation, known findings, evidence files."""
import atexit, json, os, re, shutil, subprocess, sys, time, glob, hashlib

ROOT = os.path.dirname(os.path.dirname(os.path.abspath(__file__)))
SPEC = os.path.join(ROOT, 'spec')
OUT = os.path.join(ROOT, 'out')
HARNESS = os.path.join(ROOT, 'harness')
EVID = os.path.join(ROOT, 'evidence')
GOENV = dict(GOFLAGS='-mod=mod', GOPROXY='off', GOSUMDB='off', GOTOOLCHAIN='local')


class Broken(Exception):
    """The check itself could not run (exit 2), never a violation."""


def scratch(tag):
    d = os.path.join(OUT, '%s.%d' % (tag, os.getpid()))
    shutil.rmtree(d, ignore_errors=True)
    os.makedirs(d)
    return d


def seed():
    try:
        return int(os.environ.get('VERIF_SEED', '1'))
    except ValueError:
        return 1


def log(*a):
    print(*a, flush=True)


# --------------------------------------------------------------------------
# Go harness

_built = {}


def repo_dir():
    """/repo, unless VERIF_REPO names a scratch checkout (used only to try seeded changes in parallel)."""
    return os.environ.get('VERIF_REPO', '/repo')


def build_harness(race=False, tags='verif', cmd='vrun'):
    """Rebuilds the harness binary from the repository's working tree."""
    repo = repo_dir()
    key = (race, tags, cmd, repo)
    if key in _built:
        return _built[key]
    os.makedirs(OUT, exist_ok=True)
    env = dict(os.environ, **GOENV)
    suffix = '' if repo == '/repo' else '_' + hashlib.sha1(repo.encode()).hexdigest()[:8]
    # one binary per check process (several checks may run at the same time); removed when the process exits
    out = os.path.join(OUT, '%s%s%s.%d' % (cmd, '_race' if race else '', suffix, os.getpid()))
    atexit.register(lambda p=out: os.path.exists(p) and os.remove(p))
    args = ['go', 'build', '-tags', tags]
    if repo == '/repo':
        shutil.copyfile('/repo/go.sum', os.path.join(HARNESS, 'go.sum'))
    else:
        modfile = os.path.join(OUT, 'alt%s.mod' % suffix)
        mod = open(os.path.join(HARNESS, 'go.mod')).read().replace('=> /repo', '=> ' + repo)
        open(modfile, 'w').write(mod)
        shutil.copyfile('/repo/go.sum', modfile[:-4] + '.sum')
        args += ['-modfile', modfile]
    if race:
        args += ['-race', '-gcflags=all=-d=checkptr=0']
    args += ['-o', out, './cmd/' + cmd]
    t0 = time.time()
    p = subprocess.run(args, cwd=HARNESS, env=env, stdout=subprocess.PIPE, stderr=subprocess.STDOUT, text=True)
    if p.returncode != 0:
        raise Broken('harness build failed:\n' + p.stdout[-4000:])
    log('[build] %s in %.1fs' % (os.path.basename(out), time.time() - t0))
    _built[key] = out
    return out


def run_harness(binary, args, timeout=600, env=None):
    e = dict(os.environ, **GOENV)
    e['GOTRACEBACK'] = 'all'
    if env:
        e.update(env)
    t0 = time.time()
    try:
        p = subprocess.run([binary] + args, env=e, stdout=subprocess.PIPE, stderr=subprocess.PIPE, text=True, timeout=timeout, errors='replace')
    except subprocess.TimeoutExpired:
        raise Broken('harness timed out: %s %s' % (binary, ' '.join(args[:3])))
    return p.returncode, p.stdout, p.stderr, time.time() - t0


def crash_report(stderr):
    """If the driver process died from a Go panic / fatal error, returns
    (message, where): where is 'repo' when the innermost non-runtime frame of the
    panicking goroutine lies in github.com/henrylee2cn/erpc/v6 (the real code
    crashed the process), 'harness' otherwise."""
    m = re.search(r'^(panic: .*|fatal error: .*)$', stderr, re.M)
    if not m:
        return None
    msg = m.group(1).strip()
    rest = stderr[m.end():]
    # frames of the first goroutine printed after the message
    g = rest.split('\n\n', 2)
    block = g[0] if g[0].strip().startswith('goroutine') or 'goroutine' in g[0] else (g[1] if len(g) > 1 else rest)
    if 'goroutine' not in block and len(g) > 1:
        block = g[1]
    where = 'harness'
    for line in block.splitlines():
        line = line.strip()
        if not line or line.startswith('goroutine') or line.startswith('/') or line.startswith('panic(') or line.startswith('created by'):
            continue
        if line.startswith('runtime.') or line.startswith('sync.') or line.startswith('sync/') or line.startswith('internal/') or line.startswith('reflect.'):
            continue
        if 'github.com/henrylee2cn/erpc/v6' in line:
            where = 'repo'
        break
    return msg, where


# --------------------------------------------------------------------------
# TLC

def _copy_specs(dst):
    for f in glob.glob(os.path.join(SPEC, '*.tla')) + glob.glob(os.path.join(SPEC, '*.cfg')):
        shutil.copy(f, dst)


def tlc(module, cfg, workdir=None, workers=8, timeout=900, extra=None, env=None, sim=None, continue_=False):
    """Runs TLC on spec/<module>.tla with spec/<cfg>.  Returns a dict with
    counts, the list of violated properties and the raw output."""
    wd = workdir or scratch('tlc')
    _copy_specs(wd)
    md = os.path.join(wd, 'md_%s_%d' % (cfg.replace('.cfg', ''), int(time.time() * 1000) % 100000))
    args = ['timeout', str(timeout), 'tlc', '-workers', str(workers), '-metadir', md, '-config', cfg]
    if continue_:
        args.append('-continue')
    if sim:
        args += ['-simulate', sim]
    if extra:
        args += extra
    args.append(module + '.tla')
    e = dict(os.environ)
    # a generous thread stack: deeply recursive operators (long pipes, long histories) must not fail when the
    # machine is busy and the JIT has not kicked in yet
    if 'Xss' not in e.get('JAVA_TOOL_OPTIONS', ''):
        e['JAVA_TOOL_OPTIONS'] = (e.get('JAVA_TOOL_OPTIONS', '') + ' -Xss256m').strip()
    if env:
        e.update(env)
    t0 = time.time()
    p = subprocess.run(args, cwd=wd, env=e, stdout=subprocess.PIPE, stderr=subprocess.STDOUT, text=True, errors='replace')
    out = p.stdout
    res = {'rc': p.returncode, 'out': out, 'wall_s': time.time() - t0, 'workdir': wd}
    m = re.search(r'(\d+) states generated, (\d+) distinct states found, (\d+) states left', out)
    if m:
        res['generated'] = int(m.group(1))
        res['distinct'] = int(m.group(2))
        res['queue'] = int(m.group(3))
    m = re.search(r'The depth of the complete state graph search is (\d+)', out)
    if m:
        res['depth'] = int(m.group(1))
    res['violations'] = sorted(set(re.findall(r'Error: (?:Invariant|Action property|Temporal properties?) ?(\w*) (?:is|were) violated', out)))
    res['errors'] = [l for l in out.splitlines() if l.startswith('Error:')]
    res['finished'] = 'Finished in' in out or 'Model checking completed' in out
    shutil.rmtree(md, ignore_errors=True)
    if p.returncode == 124:
        raise Broken('TLC timed out on %s/%s' % (module, cfg))
    if 'java.lang.OutOfMemoryError' in out or 'StackOverflowError' in out:
        raise Broken('TLC resource failure on %s/%s' % (module, cfg))
    if re.search(r'(Parsing or semantic analysis failed|Lexical error|Parse Error|\*\*\* Errors:)', out):
        raise Broken('TLC could not parse %s/%s:\n%s' % (module, cfg, out[-3000:]))
    return res


def tlc_must_hold(module, cfg, **kw):
    """Exhaustive design-level check: every invariant/property of cfg holds."""
    r = tlc(module, cfg, **kw)
    if r['violations'] or not r['finished'] or 'distinct' not in r or any('Error' in e for e in r['errors']):
        raise Broken('design-level model check did not pass for %s/%s: %s\n%s' % (module, cfg, r['violations'], '\n'.join(r['errors'][:5]) or r['out'][-2000:]))
    if r.get('queue', 0) != 0:
        raise Broken('TLC did not exhaust %s/%s' % (module, cfg))
    return r


def parse_tla_value(s):
    """Parses the subset of TLA+ value syntax TLC prints: tuples, sets, strings,
    numbers, booleans, model values, records and functions (a :> b @@ ...)."""
    pos = 0

    def ws():
        nonlocal pos
        while pos < len(s) and s[pos] in ' \t\r\n':
            pos += 1

    def val():
        nonlocal pos
        ws()
        if s.startswith('<<', pos):
            pos += 2
            items = []
            ws()
            if s.startswith('>>', pos):
                pos += 2
                return items
            while True:
                items.append(val())
                ws()
                if s.startswith('>>', pos):
                    pos += 2
                    return items
                assert s[pos] == ',', (s[pos:pos + 20])
                pos += 1
        if s[pos] == '{':
            pos += 1
            items = []
            ws()
            if s[pos] == '}':
                pos += 1
                return {'__set__': items}
            while True:
                items.append(val())
                ws()
                if s[pos] == '}':
                    pos += 1
                    return {'__set__': items}
                assert s[pos] == ','
                pos += 1
        if s[pos] == '[':
            pos += 1
            rec = {}
            while True:
                ws()
                m = re.match(r'(\w+)\s*\|->', s[pos:])
                assert m, s[pos:pos + 30]
                pos += m.end()
                rec[m.group(1)] = val()
                ws()
                if s[pos] == ']':
                    pos += 1
                    return rec
                assert s[pos] == ','
                pos += 1
        if s[pos] == '(':
            pos += 1
            fn = {}
            while True:
                k = val()
                ws()
                assert s.startswith(':>', pos)
                pos += 2
                v = val()
                fn[json.dumps(k) if not isinstance(k, str) else k] = v
                ws()
                if s.startswith('@@', pos):
                    pos += 2
                    continue
                assert s[pos] == ')'
                pos += 1
                return fn
        if s[pos] == '"':
            m = re.match(r'"((?:[^"\\]|\\.)*)"', s[pos:])
            pos += m.end()
            return m.group(1)
        m = re.match(r'-?\d+', s[pos:])
        if m:
            pos += m.end()
            return int(m.group(0))
        m = re.match(r'\w+', s[pos:])
        assert m, s[pos:pos + 30]
        pos += m.end()
        w = m.group(0)
        if w == 'TRUE':
            return True
        if w == 'FALSE':
            return False
        return w

    return val()


def sim_behaviours(module, cfg, num, depth, seedv, var='hist', timeout=300, workdir=None):
    """Runs TLC in simulation mode and returns the final value of `var` of each
    generated behaviour (reproducible for equal seeds, -workers 1)."""
    wd = workdir or scratch('sim')
    simdir = os.path.join(wd, 'sim_%d' % seedv)
    shutil.rmtree(simdir, ignore_errors=True)
    os.makedirs(simdir)
    r = tlc(module, cfg, workdir=wd, workers=1, timeout=timeout,
            sim='file=%s/b,num=%d' % (simdir, num), extra=['-depth', str(depth), '-seed', str(seedv)])
    res = []
    files = sorted(glob.glob(os.path.join(simdir, 'b_*')), key=lambda p: [int(x) for x in re.findall(r'\d+', os.path.basename(p))])
    for f in files:
        txt = open(f).read()
        # last state of the behaviour
        idx = txt.rfind('STATE_')
        chunk = txt[idx:] if idx >= 0 else txt
        m = re.search(r'/\\ %s = (.*?)(?=\n/\\ |\n\n|\Z)' % re.escape(var), chunk, re.S)
        if not m:
            # fall back: search whole file for the last occurrence
            ms = list(re.finditer(r'/\\ %s = (.*?)(?=\n/\\ |\n\n|\Z)' % re.escape(var), txt, re.S))
            if not ms:
                continue
            m = ms[-1]
        try:
            res.append(parse_tla_value(m.group(1)))
        except Exception as ex:
            raise Broken('cannot parse %s in %s: %s' % (var, f, ex))
    shutil.rmtree(simdir, ignore_errors=True)
    return res, r


def counterexample(module, cfg, var='hist', **kw):
    """Runs TLC expecting a violation; returns (violated property, final value of var in the error trace)."""
    r = tlc(module, cfg, **kw)
    if not r['violations'] and not any('violated' in e for e in r['errors']):
        return None, None, r
    states = re.split(r'\nState \d+: ', r['out'])
    last = states[-1]
    m = re.search(r'/\\ %s = (.*?)(?=\n/\\ |\n\n|\Z)' % re.escape(var), last, re.S)
    val = parse_tla_value(m.group(1)) if m else None
    return (r['violations'] or ['?'])[0], val, r


# --------------------------------------------------------------------------
# trace validation

def validate_traces(module, cfg, trace_file, timeout=600, workdir=None, max_reject=8, env=None):
    """Validates an NDJSON batch (traces separated by Reset lines) against the
    trace specification `module`.  Returns (accepted_traces, rejections) where
    each rejection is {'t': trace id, 'line': first unconsumable event}.
    A rejected trace is cut out and validation is repeated so that the rest of
    the batch is still examined."""
    lines = [l for l in open(trace_file).read().split('\n') if l.strip()]
    if not lines:
        raise Broken('empty trace file ' + trace_file)
    traces = []  # list of (tid, [lines])
    for l in lines:
        try:
            e = json.loads(l)
        except Exception:
            raise Broken('unparsable trace line: ' + l[:200])
        if e.get('ev') == 'Reset' or not traces:
            traces.append((e.get('t'), []))
        traces[-1][1].append(l)
    wd = workdir or scratch('tv')
    rejections = []
    total = len(traces)
    rounds = 0
    tlc_out = ''
    while traces and rounds <= max_reject:
        rounds += 1
        batch = os.path.join(wd, 'batch_%d.ndjson' % rounds)
        with open(batch, 'w') as f:
            for _, ls in traces:
                f.write('\n'.join(ls) + '\n')
        e = {'VERIF_TRACE': batch}
        if env:
            e.update(env)
        r = tlc(module, cfg, workdir=wd, workers=1, timeout=timeout, env=e)
        tlc_out = r['out']
        m = re.search(r'"HWM",\s*(\d+),\s*(\d+)', r['out'])
        if not m:
            raise Broken('trace validation produced no high-water mark (%s/%s):\n%s' % (module, cfg, r['out'][-3000:]))
        hwm, n = int(m.group(1)), int(m.group(2))
        if hwm >= n:
            break
        # the event at index hwm (0-based) could not be consumed
        flat = [(tid, l) for tid, ls in traces for l in ls]
        tid, bad = flat[hwm]
        prev = flat[hwm - 1][1] if hwm > 0 else ''
        rejections.append({'t': tid, 'line': json.loads(bad), 'prev': json.loads(prev) if prev else None})
        traces = [(t, ls) for t, ls in traces if t != tid]
    accepted = len(traces)
    if rounds > max_reject and traces:
        log('[tv] stopped after %d rejections; %d remaining traces not all examined' % (max_reject, len(traces)))
        accepted = 0
    return accepted, rejections, tlc_out


def validate_cases(module, cfg, trace_file, timeout=900, workdir=None):
    """Validates a batch of independent Case events in one TLC run; returns (n_cases, failed case events)."""
    wd = workdir or scratch('tvc')
    r = tlc(module, cfg, workdir=wd, workers=1, timeout=timeout, env={'VERIF_TRACE': trace_file})
    m = re.search(r'"HWM",\s*(\d+),\s*(\d+)', r['out'])
    mf = re.search(r'"FAILED",\s*(\{[^}]*\})', r['out'])
    if not m or not mf:
        raise Broken('case validation produced no result (%s/%s):\n%s' % (module, cfg, r['out'][-3000:]))
    if int(m.group(1)) < int(m.group(2)):
        raise Broken('case validation stopped at line %s of %s' % (m.group(1), m.group(2)))
    failed = set(int(x) for x in re.findall(r'\d+', mf.group(1)))
    cases = {}
    for l in open(trace_file):
        if l.strip():
            e = json.loads(l)
            if e.get('ev') == 'Case':
                cases[e['n']] = e
    return len(cases), [cases[n] for n in sorted(failed) if n in cases]


# --------------------------------------------------------------------------
# known findings and verdicts

def load_findings():
    p = os.path.join(ROOT, 'known_findings.json')
    if not os.path.exists(p):
        return []
    return json.load(open(p)).get('findings', [])


def classify(prop, signature, findings=None):
    """Returns the 'known' finding entry matching this signature, or None."""
    for f in (findings if findings is not None else load_findings()):
        if f.get('property') == prop and f.get('status') == 'known' and re.search(f['key'], signature):
            return f
    return None


class Verdict:
    def __init__(self, prop):
        self.prop = prop
        self.violations = []   # (signature, replay path, detail)
        self.known = {}
        self.findings = load_findings()

    def report(self, signature, detail, replay_obj):
        f = classify(self.prop, signature, self.findings)
        if f:
            self.known.setdefault(f['key'], [f, 0])
            self.known[f['key']][1] += 1
            return
        d = os.path.join(OUT, 'replay')
        os.makedirs(d, exist_ok=True)
        h = hashlib.sha1((self.prop + signature + json.dumps(replay_obj, sort_keys=True, default=str)).encode()).hexdigest()[:12]
        path = os.path.join(d, '%s_%s.json' % (self.prop, h))
        with open(path, 'w') as fh:
            json.dump({'property': self.prop, 'signature': signature, 'detail': detail, 'replay': replay_obj}, fh, indent=1, default=str)
        self.violations.append((signature, path, detail))

    def finish(self):
        for key, (f, n) in self.known.items():
            log('KNOWN-FINDING: property=%s %s (%d occurrences; key %s)' % (self.prop, f['what'], n, key))
        seen = set()
        for sig, path, detail in self.violations:
            if sig in seen:
                continue
            seen.add(sig)
            log('VIOLATION property=%s replay=%s' % (self.prop, path))
            log('  signature: %s' % sig)
            log('  detail: %s' % (detail if isinstance(detail, str) else json.dumps(detail, default=str))[:600])
        return 1 if self.violations else 0


def write_evidence(prop, tier, level, coverage, wall_s, violations, assumptions):
    evid = EVID
    if repo_dir() != '/repo':
        # a seeded change is being tried in a scratch checkout: its results are not evidence about /repo
        evid = os.path.join(OUT, 'evidence_alt', os.path.basename(repo_dir()))
    os.makedirs(evid, exist_ok=True)
    ev = {'property_id': prop, 'tier': tier, 'seed': seed(), 'level': level, 'coverage': coverage,
          'assumptions': assumptions, 'wall_s': round(wall_s, 2), 'violations': violations}
    with open(os.path.join(evid, prop + '.json'), 'w') as f:
        json.dump(ev, f, indent=1, default=str)


def cleanup(*dirs):
    for d in dirs:
        if d and os.path.isdir(d) and d.startswith(OUT):
            shutil.rmtree(d, ignore_errors=True)
