"""Engine `hub`: Hub.tla (session index under operation histories) -> one
scenario per explored transition -> sequential replay with an index probe after
every operation (drv_hub.go) -> TLC trace validation against PHub.tla."""
import json, os, random, time
import vlib
from vlib import Broken, log

GEN = '''SPECIFICATION Spec
CONSTANTS
  S = {"s1", "s2", "s3"}
  U = {"x", "y"}
  MaxOps = %d
  GuardedDelete = %s
  Export = "%s"
VIEW view
%s
CHECK_DEADLOCK FALSE
'''


def classify(rej, lines):
    evs = [json.loads(l) for l in lines]
    ops = [e for e in evs if e.get('ev') == 'Op' and e['i'] < rej['line']['i']]
    last = ops[-1] if ops else {}
    feat = last.get('op', '?')
    if last.get('op') == 'setid':
        # colliding or fresh?
        ids = {}
        live = set()
        coll = False
        for e in ops[:-1]:
            if e['op'] in ('accept', 'setid'):
                ids[e['s']] = e['u']
                live.add(e['s'])
            else:
                live.discard(e['s'])
        coll = any(ids.get(t) == last['u'] for t in live if t != last['s'])
        feat = 'setid-colliding' if coll else 'setid-fresh'
    return '%s:after-%s' % (rej['line'].get('ev'), feat)


def run(prop, tier, verdict):
    t0 = time.time()
    seedv = vlib.seed()
    wd = vlib.scratch('hub_' + prop)
    maxops = 7
    r = vlib.tlc_must_hold('Hub', 'Hub_mc.cfg', workdir=wd, workers=4, timeout=600)
    cov = {'states': r['distinct'], 'transitions': r['generated'],
           'model': 'spec/Hub.tla, 3 sessions x 2 user ids, histories <= %d operations, invariant IndexExact, property ClosedStays' % maxops}
    # export one scenario per transition
    exp = os.path.join(wd, 'hub_sc.ndjson')
    open(os.path.join(wd, 'Hub_gen.cfg'), 'w').write(GEN % (maxops, 'TRUE', exp, 'ACTION_CONSTRAINT Emit'))
    rg = vlib.tlc('Hub', 'Hub_gen.cfg', workdir=wd, workers=1, timeout=600)
    if not os.path.exists(exp):
        raise Broken('Hub.tla exported nothing: ' + rg['out'][-1500:])
    scen = [json.loads(l) for l in open(exp) if l.strip()]
    if len(scen) < 5000:
        raise Broken('Hub.tla exported only %d transitions' % len(scen))
    total = len(scen)
    exhaustive = True
    if tier != 'thorough':
        rnd = random.Random(seedv)
        # always: short histories and every transition taken while a Close / SetID is blocked behind a
        # running handler (the non-quiescent part of the graph); plus a seeded sample of the rest
        def blocked_before_last(s):
            return len(s['steps']) >= 2 and not s['steps'][-2]['quiet']
        keep = [s for s in scen if len(s['steps']) < 3 or blocked_before_last(s)]
        rest = [s for s in scen if not (len(s['steps']) < 3 or blocked_before_last(s))]
        scen = keep + rnd.sample(rest, min(500, len(rest)))
        exhaustive = False
    for i, s in enumerate(scen):
        s['id'] = 'hub%d' % i
    # directed: TLC's counterexample on the unrepaired design (delete by id)
    open(os.path.join(wd, 'Hub_dir.cfg'), 'w').write(GEN % (maxops, 'FALSE', '', 'INVARIANT IndexExact'))
    viol, hist, rd = vlib.counterexample('Hub', 'Hub_dir.cfg', workdir=wd, workers=1, timeout=300)
    if hist is None:
        raise Broken('Hub.tla: no counterexample on the unrepaired design')
    steps = []
    for h in hist:
        steps.append({'op': h['op'], 's': h['s'], 'u': h['u'], 'quiet': h['quiet'],
                      'index': [list(p) for p in h['index']['__set__']], 'live': h['live']['__set__']})
    scen.insert(0, {'id': 'dir_takeover', 'steps': steps})
    scfile = os.path.join(wd, 'scen.ndjson')
    with open(scfile, 'w') as f:
        for s in scen:
            f.write(json.dumps(s) + '\n')
    binary = vlib.build_harness()
    trfile = os.path.join(wd, 'trace.ndjson')
    sumfile = os.path.join(wd, 'sum.json')
    rc, out, err, wall = vlib.run_harness(binary, ['hub', '-in', scfile, '-out', trfile, '-summary', sumfile], timeout=1500)
    if rc != 0:
        raise Broken('hub driver failed rc=%d: %s' % (rc, err[-2000:]))
    summ = json.load(open(sumfile))
    if summ['scenarios'] != len(scen):
        raise Broken('hub driver ran %d of %d scenarios' % (summ['scenarios'], len(scen)))
    ndrift = len([k for k in summ['drift'] if k != 'dir_takeover'])
    log('[hub] %d of %d exported transitions replayed in %.0fs; drift in %d' % (len(scen), total, wall, ndrift))
    for k, v in list(summ['drift'].items())[:3]:
        log('  DRIFT %s: %s' % (k, v[:1]))
    if ndrift * 2 > len(scen):
        raise Broken('more than half of the hub replays drifted')
    acc, rej, _ = vlib.validate_traces('PHub', 'PHub.cfg', trfile, workdir=wd, env={'VERIF_PROP': prop}, max_reject=10)
    by_id = {s['id']: s for s in scen}
    lines_by_t = {}
    for l in open(trfile):
        if l.strip():
            lines_by_t.setdefault(json.loads(l).get('t'), []).append(l)
    for rj in rej:
        sig = '%s:%s' % (prop, classify(rj, lines_by_t.get(rj['t'], [])))
        verdict.report(sig, {'rejected_event': rj['line']},
                       {'engine': 'hub', 'scenario': by_id.get(rj['t']), 'trace': [json.loads(x) for x in lines_by_t.get(rj['t'], [])]})
    nontriv = set(json.dumps([(x['op'], x['s'], x['u']) for x in s['steps']]) for s in scen if len(s['steps']) >= 2)
    cov.update({'hub_scenarios': len(scen), 'hub_transitions_exported': total, 'hub_exhaustive': exhaustive,
                'hub_traces_validated': acc + len(rej), 'hub_rejected': len(rej), 'hub_drift': ndrift,
                'hub_distinct_nontrivial': len(nontriv),
                'hub_sample': [(x['op'], x['s'], x['u']) for x in scen[-1]['steps']]})
    vlib.cleanup(wd)
    return cov, time.time() - t0
