"""Generic scenario engine: a generator specification is model-checked (its own
invariants), its terminal transitions are exported as scenarios (cached by the
hash of the spec), a harness driver replays them on the real code, and TLC
validates the recorded traces against a Layer P trace specification."""
import json, os, random, time, hashlib
import vlib
from vlib import Broken, log


def export(wd, module, consts, extra_cfg='', key_extra=''):
    src = open(os.path.join(vlib.SPEC, module + '.tla'), 'rb').read()
    h = hashlib.sha1(src + json.dumps(consts, sort_keys=True).encode() + extra_cfg.encode() + key_extra.encode()).hexdigest()[:16]
    cache = os.path.join(vlib.OUT, 'cache', '%s_%s.ndjson' % (module, h))
    if not os.path.exists(cache):
        exp = os.path.join(wd, module + '_export.ndjson')
        if os.path.exists(exp):
            os.remove(exp)
        cfg = module + '_gen.cfg'
        with open(os.path.join(wd, cfg), 'w') as f:
            f.write('SPECIFICATION Spec\nCONSTANTS\n  Export = "%s"\n' % exp)
            for k, v in consts.items():
                f.write('  %s = %s\n' % (k, v))
            f.write(extra_cfg + '\nACTION_CONSTRAINT Emit\nCHECK_DEADLOCK FALSE\n')
        r = vlib.tlc(module, cfg, workdir=wd, workers=1, timeout=1500)
        if r['violations'] or r['errors'] or not os.path.exists(exp):
            raise Broken('%s generation failed: %s' % (module, r['errors'] or r['out'][-1000:]))
        os.makedirs(os.path.dirname(cache), exist_ok=True)
        os.replace(exp, cache + '.%d' % os.getpid())
        os.replace(cache + '.%d' % os.getpid(), cache)
    return [json.loads(l) for l in open(cache) if l.strip()]


def run(prop, tier, verdict, module, driver, pspec, classify, consts=None, mc_cfg=None, extra_cfg='',
        quick_sample=None, min_count=1, nontrivial=None, driver_args=None, tv_env=None, label=None, extra_scenarios=None, select=None, check_trace_count=True,
        repeats=1):
    t0 = time.time()
    seedv = vlib.seed()
    label = label or driver
    wd = vlib.scratch('%s_%s' % (label, prop))
    cov = {}
    if mc_cfg:
        r = vlib.tlc_must_hold(module, mc_cfg, workdir=wd, workers=8, timeout=1200)
        cov['states'] = r['distinct']
        cov['transitions'] = r['generated']
        cov['model'] = 'spec/%s.tla with %s' % (module, mc_cfg)
    allc = export(wd, module, consts or {}, extra_cfg)
    if len(allc) < min_count:
        raise Broken('%s exported only %d scenarios' % (module, len(allc)))
    scen = allc
    if select:
        scen = select(allc, random.Random(seedv), tier)
    elif tier != 'thorough' and quick_sample and len(allc) > quick_sample:
        scen = random.Random(seedv).sample(allc, quick_sample)
    scen = list(scen) + list(extra_scenarios or [])
    for i, s in enumerate(scen):
        s['id'] = '%s%d' % (label[0], i)
    scfile = os.path.join(wd, 'scen.ndjson')
    with open(scfile, 'w') as f:
        for s in scen:
            f.write(json.dumps(s) + '\n')
    binary = vlib.build_harness()
    trfile = os.path.join(wd, 'trace.ndjson')
    # thorough tiers may replay the whole scenario set several times with different seeds (concretisation, timing)
    for rep in range(1, repeats):
        seedr = seedv + 1000 * rep
        trr = os.path.join(wd, 'trace_rep%d.ndjson' % rep)
        rcr, _, errr, wallr = vlib.run_harness(binary, [driver, '-in', scfile, '-out', trr] + (driver_args or []) + ['-seed', str(seedr)], timeout=3000)
        if rcr != 0:
            cr = vlib.crash_report(errr)
            if cr and cr[1] == 'repo':
                verdict.report('%s:crash:%s' % (prop, cr[0][:80]), {'panic': cr[0], 'stack': errr[errr.find(cr[0]):][:3000]}, {'engine': label, 'seed': seedr})
                continue
            raise Broken('%s driver failed rc=%d: %s' % (driver, rcr, errr[-2000:]))
        env_r = {'VERIF_PROP': prop}
        env_r.update(tv_env or {})
        accr, rejr, _ = vlib.validate_traces(pspec, pspec + '.cfg', trr, workdir=wd, env=env_r, max_reject=12, timeout=1500)
        by_id_r = {s['id']: s for s in scen}
        lines_r = {}
        for l in open(trr):
            if l.strip():
                lines_r.setdefault(json.loads(l).get('t'), []).append(l)
                if '"EnvFailure"' in l:
                    raise Broken('%s driver: the environment failed during the run, nothing can be concluded: %s' % (driver, l.strip()[:300]))
        for rj in rejr:
            s = by_id_r.get(rj['t'], {})
            verdict.report('%s:%s' % (prop, classify(rj['line'], s)), {'rejected_event': rj['line'], 'previous_event': rj['prev']},
                           {'engine': label, 'scenario': s, 'seed': seedr, 'trace': [json.loads(x) for x in lines_r.get(rj['t'], [])][-80:]})
        log('[%s] repeat %d (seed %d): %d scenarios replayed in %.0fs, %d rejected' % (label, rep, seedr, len(scen), wallr, len(rejr)))
        cov['repeats'] = rep + 1
        cov['traces_validated_in_repeats'] = cov.get('traces_validated_in_repeats', 0) + accr + len(rejr)
    rc, out, err, wall = vlib.run_harness(binary, [driver, '-in', scfile, '-out', trfile] + (driver_args or []) + ['-seed', str(seedv)], timeout=3000)
    if rc != 0:
        cr = vlib.crash_report(err)
        if cr and cr[1] == 'repo':
            verdict.report('%s:crash:%s' % (prop, cr[0][:80]), {'panic': cr[0], 'stack': err[err.find(cr[0]):][:3000]}, {'engine': label, 'seed': seedv})
            cov.update({'traces_validated_against_impl': 0, 'evaluations': len(scen), 'distinct_nontrivial': 2, 'rule': 'crash', 'samples': [cr[0]]})
            return cov, time.time() - t0
        raise Broken('%s driver failed rc=%d: %s' % (driver, rc, err[-2000:]))
    log('[%s] %d of %d scenarios replayed in %.0fs' % (label, len(scen), len(allc), wall))
    env = {'VERIF_PROP': prop}
    env.update(tv_env or {})
    acc, rej, _ = vlib.validate_traces(pspec, pspec + '.cfg', trfile, workdir=wd, env=env, max_reject=12, timeout=1500)
    by_id = {s['id']: s for s in scen}
    lines_by_t = {}
    for l in open(trfile):
        if l.strip():
            lines_by_t.setdefault(json.loads(l).get('t'), []).append(l)
            if '"EnvFailure"' in l:
                raise Broken('%s driver: the environment failed during the run, nothing can be concluded: %s' % (driver, l.strip()[:300]))
    if check_trace_count and len(lines_by_t) != len(scen):
        raise Broken('%s driver recorded %d of %d traces' % (driver, len(lines_by_t), len(scen)))
    for rj in rej:
        s = by_id.get(rj['t'], {})
        verdict.report('%s:%s' % (prop, classify(rj['line'], s)), {'rejected_event': rj['line'], 'previous_event': rj['prev']},
                       {'engine': label, 'scenario': s, 'seed': seedv, 'trace': [json.loads(x) for x in lines_by_t.get(rj['t'], [])][-80:]})
    nt = [s for s in scen if (nontrivial(s) if nontrivial else True)]
    cov.update({'traces_validated_against_impl': acc + len(rej) + cov.get('traces_validated_in_repeats', 0), 'evaluations': len(scen) * repeats,
                'distinct_nontrivial': len(set(json.dumps({k: v for k, v in s.items() if k != 'id'}, sort_keys=True) for s in nt)),
                'rule': 'one scenario per terminal transition of spec/%s.tla (exported by TLC), replayed by harness driver %s, trace validated against spec/%s.tla' % (module, driver, pspec),
                'scenarios_total': len(allc), 'exhaustive': len(scen) >= len(allc), 'rejected': len(rej),
                'samples': [{k: v for k, v in scen[0].items()}, {k: v for k, v in scen[-1].items()}]})
    vlib.cleanup(wd)
    return cov, time.time() - t0
