"""Engine `sess`: Session.tla (Layer M) + SessionGen.tla (scenario export) +
drv_sess.go (strict / free replay on the real session) + PSession.tla (Layer P
trace validation).  Serves C02, C07 (lifecycle part), C08 and contributes
traces to C01/C03."""
import json, os, time
import vlib
from vlib import Broken, log

# Directed scenarios: behaviours with which TLC refutes a property on the
# *unrepaired* design.  Each is replayed on the real code: if the code has the
# defect the public trace is rejected by Layer P; if it is repaired the code
# cannot follow the behaviour (drift) and the free-running rest is accepted.
DIRECTED = [
    # (name, cfg overrides, invariant/property checked on SessionGen)
    ('statusrace', dict(AtomicRD='FALSE', LeakFix='TRUE', BadReplies='FALSE', Calls='{c1}', Inb='{h1}', Closers='{k1}'), 'INVARIANT HookAtMostOnce'),
    ('badreply', dict(AtomicRD='TRUE', LeakFix='FALSE', BadReplies='TRUE', Calls='{c1, c2}', Inb='{h1}', Closers='{k1}'), 'INVARIANT NoHang'),
    ('latehandler', dict(AtomicRD='TRUE', LeakFix='TRUE', BadReplies='FALSE', Calls='{c1}', Inb='{h1}', Closers='{k1}'), 'PROPERTY NoLateHandler'),
]


_CC = dict(AtomicRD='TRUE', LeakFix='TRUE', BadReplies='TRUE', Calls='{c1, c2}', Inb='{h1}', Closers='{k1}')
_HH = dict(AtomicRD='TRUE', LeakFix='TRUE', BadReplies='FALSE', Calls='{c1}', Inb='{h1, h2}', Closers='{k1}')
_CH = dict(AtomicRD='TRUE', LeakFix='TRUE', BadReplies='FALSE', Calls='{c1}', Inb='{h1}', Closers='{k1}')
GOALS = {'GoalTwoCallsCloseOneReply': _CC, 'GoalTwoHandlersCloseOneDone': _HH, 'GoalCloseThenConnDown': _CH,
         'GoalReplyDuringClose': _CH, 'GoalHandlerReplyDuringClose': _CH, 'GoalInboundWhileClosing': _CH,
         'GoalConnDownTwoPending': _CC, 'GoalBadReplyOtherPending': _CC, 'GoalBufferedFrameAfterClose': _HH}


def _write_cfg(path, consts, check):
    with open(path, 'w') as f:
        f.write('SPECIFICATION GSpec\nCONSTANTS\n')
        for k, v in consts.items():
            f.write('  %s = %s\n' % (k, v))
        f.write(check + '\nVIEW gview\nCHECK_DEADLOCK FALSE\n')


def directed_scenarios(wd):
    """TLC-derived directed behaviours; cached under out/cache by the hash of the spec sources."""
    import hashlib, glob
    h = hashlib.sha1()
    for f in sorted(glob.glob(os.path.join(vlib.SPEC, 'Session*.tla'))) + [__file__]:
        h.update(open(f, 'rb').read())
    cache = os.path.join(vlib.OUT, 'cache', 'sess_directed_%s.json' % h.hexdigest()[:16])
    if os.path.exists(cache):
        try:
            return json.load(open(cache))
        except Exception:
            pass
    out = _directed_scenarios(wd)
    os.makedirs(os.path.dirname(cache), exist_ok=True)
    tmp = cache + '.%d' % os.getpid()
    json.dump(out, open(tmp, 'w'))
    os.replace(tmp, cache)
    return out


def _directed_scenarios(wd):
    out = []
    for name, consts, check in DIRECTED:
        cfg = 'SessionGen_dir_%s.cfg' % name
        _write_cfg(os.path.join(vlib.SPEC, '..', 'out', cfg) if False else os.path.join(wd, cfg), consts, check)
        # tlc() copies spec/ into wd; the cfg written above stays there
        viol, hist, r = vlib.counterexample('SessionGen', cfg, workdir=wd, workers=4, timeout=300)
        if hist is None:
            raise Broken('directed scenario %s: TLC found no counterexample on the unrepaired design (model changed?)' % name)
        out.append({'id': 'dir_' + name, 'mode': 'strict', 'steps': hist, 'directed': name})
    # coverage goals: shortest behaviours reaching the named situations
    from concurrent.futures import ThreadPoolExecutor
    def one(goal):
        cfg = 'SessionGen_goal_%s.cfg' % goal
        gwd = os.path.join(wd, 'g_' + goal)
        os.makedirs(gwd, exist_ok=True)
        _write_cfg(os.path.join(gwd, cfg), GOALS[goal], 'INVARIANT Not%s' % goal)
        viol, hist, r = vlib.counterexample('SessionGen', cfg, workdir=gwd, workers=3, timeout=600)
        if hist is None:
            raise Broken('coverage goal %s is unreachable in the model' % goal)
        return goal, hist
    with ThreadPoolExecutor(max_workers=5) as ex:
        for goal, hist in ex.map(one, GOALS):
            out.append({'id': 'goal_' + goal, 'mode': 'strict', 'steps': hist, 'directed': goal})
            out.append({'id': 'goalfree_' + goal, 'mode': 'free', 'steps': hist, 'directed': goal})
    return out


def classify(rej, trace_lines):
    """Abstract signature of a rejected trace: rejected event + features of the trace."""
    ev = rej['line'].get('ev')
    feats = []
    evs = [json.loads(l) for l in trace_lines]
    if any(e.get('ev') == 'RemoteReply' and e.get('kind') == 'bad' for e in evs):
        feats.append('badreply')
    if any(e.get('ev') == 'ConnDown' for e in evs):
        feats.append('conndown')
    if any(e.get('ev') == 'CloseCall' for e in evs):
        feats.append('close')
    line = rej['line']
    what = ev
    if ev == 'Quiesce':
        if line.get('pending'):
            what += ':pending'
        elif line.get('unreturned'):
            what += ':unreturned'
        elif line.get('hooks', 0) != 1 and line.get('status') in ('ActiveClosed', 'PassiveClosed'):
            what += ':hooks=%s' % line.get('hooks')
        else:
            what += ':state'
    if ev == 'HEnter':
        if any(e.get('ev') == 'CloseRet' and e['i'] < line['i'] for e in evs):
            what += ':afterCloseRet'
            # when was the frame read? (hook events read.frame / close.closed)
            # (the handler's own frame: the read.frame event that directly precedes the read.spawn event carrying
            #  this handler's sequence number; without a spawn event, the last call frame read before the handler)
            closed = [e['i'] for e in evs if e.get('ev') == 'P' and e.get('pt') == 'close.closed']
            spawn = [e['i'] for e in evs if e.get('ev') == 'P' and e.get('pt') == 'read.spawn' and e.get('a') == line.get('seq') and e['i'] < line['i']]
            upto = spawn[-1] if spawn else line['i']
            reads = [e['i'] for e in evs if e.get('ev') == 'P' and e.get('pt') == 'read.frame' and e.get('b') == 1 and e.get('a') == 0 and e['i'] < upto]
            if reads and closed:
                what += ':readWhileClosing' if reads[-1] < closed[0] else ':readAfterClosed'
    if ev == 'DiscHook':
        what += ':second'
    return what + '/' + '+'.join(feats)


def run(prop, tier, verdict):
    t0 = time.time()
    seedv = vlib.seed()
    wd = vlib.scratch('sess_' + prop)
    cov = {}
    # 1. design level: exhaustive model check of the code-shaped model
    cfg = 'Session_mc3.cfg' if tier == 'thorough' else 'Session_mc.cfg'
    r = vlib.tlc_must_hold('Session', cfg, workdir=wd, workers=14, timeout=1500)
    cov['states'] = r['distinct']
    cov['transitions'] = r['generated']
    cov['model'] = 'spec/Session.tla with %s (all interleavings; invariants TypeOK DoneAtMostOnce HookAtMostOnce NoHang CloseReturns ClosedClean DeadIsClosed GracefulReply CloseWaits ReplyWins; action properties ClosedStable StatusEdges)' % cfg
    rl = vlib.tlc_must_hold('Session', 'Session_live.cfg', workdir=wd, workers=8, timeout=600)
    cov['liveness'] = 'EventuallyDone under WF(Fw), %d distinct states' % rl['distinct']
    log('[sess] model check %s: %d distinct states, %d generated, depth %s (%.0fs)' % (cfg, r['distinct'], r['generated'], r.get('depth'), r['wall_s']))
    if prop == 'C02' or tier == 'thorough':
        # a hostile remote that answers a call it has not received yet (EarlyReplies): the repaired bindReply (RecheckFix) keeps
        # "done at most once"; with the repair switched off TLC must refute it (the model still knows defect f93528b)
        re_ = vlib.tlc_must_hold('Session', 'Session_early.cfg', workdir=wd, workers=14, timeout=1500)
        viol, _, _r = vlib.counterexample('Session', 'Session_early_asis.cfg', var='status', workdir=wd, workers=4, timeout=600)
        if not viol:
            raise Broken('Session.tla with RecheckFix switched off no longer violates DoneAtMostOnce under early replies')
        cov['early_replies'] = 'Session_early.cfg (replies to calls not yet written): %d distinct states, all invariants hold; Session_early_asis.cfg: DoneAtMostOnce refuted without the re-check of bindReply' % re_['distinct']
    # 2. scenarios
    nsim = 400 if tier == 'thorough' else 60
    hists, rs = vlib.sim_behaviours('SessionGen', 'SessionGen_sim.cfg', nsim, 80, seedv, workdir=wd)
    if len(hists) < nsim // 2:
        raise Broken('simulation produced only %d behaviours' % len(hists))
    scen = []
    for i, h in enumerate(hists):
        scen.append({'id': 'sim%d_%d' % (seedv, i), 'mode': 'strict', 'steps': h})
    nfree = 2500 if tier == 'thorough' else 300
    fhists, _ = vlib.sim_behaviours('SessionGen', 'SessionGen_sim.cfg', nfree, 80, seedv + 7919, workdir=wd)
    for i, h in enumerate(hists + fhists):
        scen.append({'id': 'free%d_%d' % (seedv, i), 'mode': 'free', 'steps': h})
    directed = directed_scenarios(wd)
    scen = directed + scen
    scfile = os.path.join(wd, 'scenarios.ndjson')
    with open(scfile, 'w') as f:
        for s in scen:
            f.write(json.dumps(s) + '\n')
    # 3. replay on the real code
    binary = vlib.build_harness()
    trfile = os.path.join(wd, 'trace.ndjson')
    sumfile = os.path.join(wd, 'summary.json')
    rc, out, err, wall = vlib.run_harness(binary, ['sess', '-in', scfile, '-out', trfile, '-summary', sumfile, '-seed', str(seedv)], timeout=1800)
    if rc != 0:
        cr = vlib.crash_report(err)
        if cr and cr[1] == 'repo':
            # the real code crashed the whole process: that breaks every property of this engine
            msg = cr[0]
            verdict.report('%s:crash:%s' % (prop, msg[:80]), {'panic': msg, 'stack': err[err.find(msg):][:3000]},
                           {'engine': 'sess', 'scenarios_file_content': open(scfile).read()[:200000], 'seed': seedv})
            cov.update({'traces_validated_against_impl': 0, 'evaluations': len(scen), 'distinct_nontrivial': len(scen),
                        'rule': 'driver process crashed by a panic inside the repository code', 'samples': [msg], 'crashed': True})
            vlib.cleanup(wd)
            return cov, time.time() - t0
        raise Broken('sess driver failed rc=%d: %s' % (rc, err[-2000:]))
    summ = json.load(open(sumfile))['scenarios']
    if len(summ) != len(scen):
        raise Broken('driver ran %d of %d scenarios' % (len(summ), len(scen)))
    strict = [s for s in summ if s['mode'] == 'strict' and not s['id'].startswith('dir_')]
    drift = [s for s in strict if s['drift']]
    log('[sess] replayed %d scenarios (%d strict, %d free, %d directed) in %.0fs; drift in %d strict replays' % (len(scen), len(strict), len(hists) + len(fhists), len(directed), wall, len(drift)))
    for s in drift[:3]:
        log('  DRIFT %s: %s' % (s['id'], s['drift'][:2]))
    drift_majority = len(drift) * 2 > len(strict)
    # 4. trace validation against Layer P
    acc, rej, _ = vlib.validate_traces('PSession', 'PSession.cfg', trfile, workdir=wd, env={'VERIF_PROP': prop}, max_reject=12)
    by_id = {s['id']: s for s in scen}
    lines_by_t = {}
    for l in open(trfile):
        if l.strip():
            t = json.loads(l).get('t')
            lines_by_t.setdefault(t, []).append(l)
    for rj in rej:
        sig = '%s:%s' % (prop, classify(rj, lines_by_t.get(rj['t'], [])))
        verdict.report(sig, {'rejected_event': rj['line'], 'previous_event': rj['prev']},
                       {'engine': 'sess', 'scenario': by_id.get(rj['t']), 'seed': seedv, 'trace': [json.loads(x) for x in lines_by_t.get(rj['t'], [])][-60:]})
    # (the model no longer describes the code: broken, unless another engine of the same check still finds a rejected trace --
    #  decided by the caller once every engine has run)
    cov['drift_majority_unexplained'] = bool(drift_majority and not rej)
    nontrivial = set()
    for s in scen:
        acts = [x[0] for x in s['steps']]
        if any(a in ('ConnDown', 'ClCall', 'RemoteReply_bad') for a in acts):
            nontrivial.add(json.dumps(s['steps']) + s['mode'])
    cov.update({
        'traces_validated_against_impl': acc + len(rej),
        'evaluations': len(scen),
        'distinct_nontrivial': len(nontrivial),
        'rule': 'scenarios = TLC -simulate behaviours of SessionGen (seeded), each replayed strictly (hold points, projection compared after every step) and free-running with jitter, plus TLC counterexamples of the unrepaired design; non-trivial = contains a connection loss, a Close or a hostile reply; distinct by action sequence',
        'strict_replays': len(strict), 'strict_drift': len(drift), 'free_runs': len(hists) + len(fhists), 'directed': [d['directed'] for d in directed],
        'rejected': len(rej), 'accepted': acc,
        'samples': [{'id': scen[len(directed)]['id'], 'steps': [x[:2] for x in scen[len(directed)]['steps']][:40]},
                    {'id': directed[0]['id'], 'steps': [x[:2] for x in directed[0]['steps']]}],
        'exhaustive': False,
    })
    vlib.cleanup(wd)
    return cov, time.time() - t0
