#!/usr/bin/env python3
"""Regenerates /verif/MANIFEST.json from the table below (single source of truth)."""
import json, os, subprocess
ROOT = os.path.dirname(os.path.dirname(os.path.abspath(__file__)))
props = [json.loads(l)['id'] for l in open(os.path.join(ROOT, 'properties.jsonl'))]

CHECKS = {
 'C01': dict(level='exploration', engine='corr', design='7 (C01)',
   technique='TLA+-enumerated configuration space (Workload.tla) run as concurrent tagged workloads on two real peers; TLC trace validation against PCorr.tla',
   text='Every cell of protocol x codec x filter pipe (capability matrix of the spec) x load profile is a truly concurrent workload (Call, AsyncCall, Push, reverse-direction calls, handlers that stay inside while other frames are decoded and then re-read their argument); every body, padding and metadata value is a unique tag and TLC checks each handler input and each OK result against the sender\'s values. Interleavings are sampled by the Go scheduler, not enumerated.',
   note='Trusted: TLC, the harness tag bookkeeping. http / websocket / thrift-struct protocols are not driven by this engine (their framing is covered by C05).'),
 'C03': dict(level='model_checking', engine='disp', design='7 (C03), 6 (Dispatch.tla)',
   technique='TLA+ model checking of the single-message pipeline (Dispatch.tla); every terminal state replayed between two real peers; TLC trace validation against PDispatch.tla',
   text='Dispatch.tla enumerates every scenario (message kind, route class, plugin stage profiles, one vetoing (plugin, stage), handler outcome incl. panic, undecodable bodies) and TLC checks AtMostOneHandler / OneReply on all of them; each scenario is executed between two real peers with a wire tap counting CALL/REPLY frames, and the recorded events are validated against the dispatch rules. Concurrent arrivals and disconnect alternatives are covered by the sess engine traces (PSession C03 rules).',
   note='Trusted: TLC, the harness frame counter (an independent parser of the raw framing). Raw protocol + JSON codec only.'),
 'C04': dict(level='model_checking', engine='disp', design='7 (C04)',
   technique='TLA+ model checking (Dispatch.tla: OKIff) with replay of every scenario and TLC trace validation of the caller status rule (PDispatch.tla)',
   text='For every scenario of Dispatch.tla the caller status observed on the real code must be OK iff the handler ran to completion, returned OK and the reply was decoded, and otherwise equal the handler triple or the applicable framework rule (404, 400, 500, veto status, connection error).',
   note='Raw protocol + JSON codec; status value classes over other protocols are covered by the wire round-trip check (C05).'),
 'C09': dict(level='model_checking', engine='disp', design='7 (C09)',
   technique='TLA+ model checking (Dispatch.tla: HookOnce, VetoStops, CallerVetoStops, Scoped) with replay and TLC trace validation of hook order / veto rules (PDispatch.tla)',
   text='For every scenario the recorded (plugin, stage) sequence on both sides must equal the documented stage and registration order computed by the specification (global-left, group, handler, global-right; cut at a veto), plugins outside the matched chain must stay silent, a pre-handler veto must prevent the handler and become the caller status, a vetoing pre-write hook must leave nothing on the wire.',
   note='Plugins are registered before the routes exist; three stage profiles per plugin; at most one veto per scenario.'),
 'C05': dict(level='exploration', engine='data', design='7 (C05), 6 (Wire.tla)',
   technique='TLA+-enumerated message vector space with per-protocol supported-field oracle (Wire.tla); Pack/Unpack of every vector on the real protocols; outcomes validated by TLC against PCase.tla',
   text='Wire.tla enumerates every message vector differing from the default message in at most K fields (K=2 quick, 3 thorough) over field classes (sequence extremes, method/meta/status byte classes and boundary lengths, body classes up to 65535 bytes, codec ids, filter pipes) for six protocols and three chunkings; each is packed with ONE protocol instance inside a three-frame stream, unpacked from a chunking reader and compared field by field, including frame sync and size independence from preceding traffic.',
   note='Small-scope hypothesis (K fields differ at once); http and thrift-struct protocols are not driven; concretisation is seeded (3 seeds in the thorough tier).'),
 'C11': dict(level='exploration', engine='data', design='7 (C11), 6 (Codec.tla)',
   technique='TLA+ shape grammar and capability matrix (Codec.tla); reflect-built values round-tripped through the real codecs, garbage decoding with sentinel words; outcomes validated by TLC against PCase.tla',
   text='Codec.tla enumerates shapes (scalars at extremes, string classes, slices, fixed arrays, structs of up to three representative fields, nesting) within each codec\'s documented domain; the harness builds the Go types with reflect, requires DeepEqual after decode(encode(v)) including element order, and decodes empty / random / every truncation / one flipped bit per offset / overflowing / wrongly typed inputs requiring an error or a value, no panic and untouched sentinel words around the destination.',
   note='Memory safety is observed only through the two sentinel words and Go\'s own bounds checks; protobuf / thrift use the message types shipped in the repository.'),
 'C12': dict(level='exploration', engine='data', design='7 (C12), 6 (Xfer.tla)',
   technique='TLA+-enumerated pipes with expectation classes (Xfer.tla); OnPack/OnUnpack, protocol Pack/Unpack and end-to-end reply frames on the real code; outcomes validated by TLC against PCase.tla',
   text='All pipes of length <= 4 over gzip (two levels) and md5 x five payload classes must invert exactly; long pipes by pattern up to 255, length 256 and unregistered ids must be refused (also when patched into a raw / json frame); every single-byte corruption (3 masks per offset), truncation and extension of md5-outermost packed payloads must be detected; a reply must travel through the pipe of its call (frames captured on the wire).',
   note='Corruption enumeration is exhaustive for payloads up to 200 bytes only.'),
 'C15': dict(level='model_checking', engine='generic(hist)', design='7 (C15), 6 (History.tla)',
   technique='TLC-enumerated operation histories (History.tla) replayed in one process with a sentinel snapshot after every operation; TLC trace validation against PHistory.tla',
   text='Every history of at most 2 (quick) / 3 (thorough) operations over a 13-operation alphabet (direct and proxied traffic, backend failures, closed sessions, unknown routes, undecodable bodies, panics, auth / overload / secure rejections) is executed in one process; after each operation every package-level status is snapshotted through a verif accessor and four failing probes are repeated: snapshot and probe triples must never change.',
   note='The snapshot covers the statuses declared in status.go and session.go; a shared status created elsewhere would be seen only through the probes.'),
 'C16': dict(level='model_checking', engine='generic(auth)', design='7 (C16), 6 (Accept.tla)',
   technique='TLA+ model of the accept phase (Accept.tla, TLC exhaustive) with every terminal state replayed by a scripted raw client; TLC trace validation against PAuth.tla',
   text='Accept.tla models ServeConn with the checker and one other accept hook; TLC checks that no reader, handler or index entry exists without a completed exchange; all 440 scenarios (11 first-message classes x pipelining x timing x other-hook placement/verdict) are replayed against a real peer with the shipped plugin and a recording plugin on every stage.',
   note='ServeConn path only (ListenAndServe differs in the order of index insertion and status change and is not driven).'),
 'C17': dict(level='model_checking', engine='generic(secure)', design='7 (C17), 6 (Secure.tla)',
   technique='Complete marker matrix with oracle (Secure.tla) replayed between two real peers with the shipped plugin over byte-capturing connections; TLC trace validation against PSecure.tla',
   text='All 672 cells (kind x secure marker x accept-secure x enforced secure reply x equal/different keys x key length x codec x body class) are executed; the captured bytes are searched for the random tags, handler invocation and caller status are compared with the oracle.',
   note='Cipher strength is out of scope; secure request + accept-secure=false is unconstrained.'),
 'C18': dict(level='model_checking', engine='generic(overload)', design='7 (C18), 6 (Overload.tla)',
   technique='TLA+ models of the connection limiter (histories, Overload.tla; atomic interleavings, OverloadAtomic.tla) with every history transition replayed on a real peer with the shipped plugin; TLC trace validation against POverload.tla',
   text='Every transition of the history model (connect, concurrent bursts, disconnect, close, raise of the limit; limit 1-3, up to 7 operations) is replayed with a probe of CountSession and of the number of sessions able to complete a call after each operation; admission must equal min(k, free slots). Rate limit: bursts of concurrent calls against the real ticker with the token-bucket bound and error replies for rejected calls.',
   note='Atomic interleavings of take/release are model-checked at design level and exercised by concurrent bursts, not replayed step by step; timing bound carries one tick of slack.'),
 'C19': dict(level='exploration', engine='generic(proxy)', design='7 (C19), 6 (Proxy.tla)',
   technique='Request space with metamorphic oracle (Proxy.tla): each case sent through a real proxy peer and directly to the backend; TLC trace validation against PProxy.tla',
   text='264 cases (kind x backend method outcome x codec x request metadata x reply metadata x body class x backend failure) with three real peers; proxied status, body and reply metadata must equal the direct ones, the backend must be entered exactly once and see the real-IP metadata exactly when absent, backend failures must give 502 on that call only.',
   note='One proxy hop; backend chosen by a fixed forwarder.'),
 'C02': dict(level='model_checking', engine='sess', design='7 (C02), 6 (Session.tla)',
   technique='TLA+ model checking (Session.tla, TLC exhaustive + liveness) bound to the code by strict hold-point replay of TLC behaviours and TLC trace validation (PSession.tla) of recorded executions',
   text='Every interleaving of call issue / write / reply arrival / Close / connection loss / hostile reply for 2 calls + 1-2 inbound calls + 1-2 Close invocations is model-checked (NoHang, DoneAtMostOnce, liveness under weak fairness); TLC-generated behaviours are replayed step by step on the real session with the projected state compared after each step, and every recorded execution (strict and free-running) is validated by TLC against the completion rules of the Layer P trace specification.',
   note='Trusted: TLC, the Go runtime, the in-memory connection of the harness; bounded to the stated constants; real concurrency beyond the replayed schedules is sampled (seeded jitter), not enumerated.'),
 'C07': dict(level='model_checking', engine='sess', design='7 (C07), 6 (Session.tla, Hub.tla)',
   technique='TLA+ model checking (Session.tla lifecycle; Hub.tla session index) with strict replay and TLC trace validation (PSession.tla, PHub.tla)',
   text='The lifecycle state machine (status edges, closed stable, hook once, notify, index removal) is model-checked over all interleavings of Close against disconnect; behaviours and TLC counterexamples of the unrepaired design are replayed on the real code and all recorded traces are validated against the lifecycle rules.',
   note='Same trusted base as C02; index exactness over histories of several sessions is decided by the Hub engine.'),
 'C08': dict(level='model_checking', engine='sess', design='7 (C08)',
   technique='TLA+ model checking (Session.tla: GracefulReply, CloseWaits, ReplyWins) with free-running replay of TLC behaviours and TLC trace validation (PSession.tla graceful-close rules)',
   text='All placements of Close() relative to handler entry, reply write, reply arrival and connection loss within the model bounds are model-checked; the waits-for rules are judged on free-running executions of the same behaviours (no hold point on the closer).',
   note='Same trusted base as C02; handler durations are sampled by the jitter of the run, not enumerated.'),
}

def main():
    checks = []
    for p in props:
        if p not in CHECKS:
            continue
        c = CHECKS[p]
        checks.append({
            'property_id': p,
            'quick_cmd': 'bin/vcheck %s --tier quick' % p,
            'thorough_cmd': 'bin/vcheck %s --tier thorough' % p,
            'evidence_file': '/verif/evidence/%s.json' % p,
            'replay_cmd_template': 'bin/vcheck %s --replay {path}' % p,
            'engine': c['engine'],
            'level_claimed': {'category': c['level'], 'text': c['text'], 'design_ref': 'DESIGN.md section ' + c['design']},
            'level_note': c['note'],
            'technique': c['technique'],
        })
    hooks = subprocess.run(['git', '-C', '/repo', 'log', '--format=%h %s'], stdout=subprocess.PIPE, text=True).stdout.splitlines()
    hook_commits = [l.split()[0] for l in hooks if l.split(' ', 1)[1].startswith('verif hook')]
    m = {
        'version': 1,
        'setup_cmd': 'bin/setup.sh',
        'hooks': {'guard': 'verif', 'enable': 'go build -tags verif (harness module /verif/harness, replace github.com/henrylee2cn/erpc/v6 => /repo)',
                  'baseline_off_cmd': 'bin/baseline_off.sh', 'source_commits': hook_commits[::-1], 'add_only': True},
        'engines': [
            {'name': 'hub', 'path': 'lib/eng_hub.py', 'serves_properties': ['C07'],
             'kind_free_text': 'TLC model checking of spec/Hub.tla (session index under operation histories incl. running handlers and blocked takeovers); one scenario per explored transition replayed by harness driver hub; TLC trace validation against spec/PHub.tla'},
            {'name': 'disp', 'path': 'lib/eng_disp.py', 'serves_properties': ['C03', 'C04', 'C09'],
             'kind_free_text': 'TLC model checking of spec/Dispatch.tla; every terminal state replayed by harness driver disp; TLC trace validation against spec/PDispatch.tla'},
            {'name': 'data', 'path': 'lib/eng_data.py', 'serves_properties': ['C05', 'C11', 'C12'],
             'kind_free_text': 'generator specifications spec/Wire.tla, spec/Codec.tla, spec/Xfer.tla (abstract case space + expectation class); driver data; TLC validation against spec/PCase.tla'},
            {'name': 'generic', 'path': 'lib/eng_generic.py', 'serves_properties': ['C15', 'C16', 'C17', 'C18', 'C19'],
             'kind_free_text': 'model check + export of terminal transitions (History/Accept/Secure/Overload/Proxy .tla), replay by the matching harness driver, TLC trace validation against the matching P*.tla'},
            {'name': 'plug', 'path': 'lib/eng_plug.py', 'serves_properties': ['C09'],
             'kind_free_text': 'plugin placement trees from spec/Plugins.tla replayed by driver plug; TLC trace validation against spec/PPlug.tla'},
            {'name': 'corr', 'path': 'lib/eng_corr.py', 'serves_properties': ['C01'],
             'kind_free_text': 'configuration space from spec/Workload.tla; concurrent tagged workloads (driver corr); TLC trace validation against spec/PCorr.tla'},
            {'name': 'sess', 'path': 'lib/eng_sess.py', 'serves_properties': ['C02', 'C07', 'C08'],
             'kind_free_text': 'TLC model checking of spec/Session.tla; scenario export via spec/SessionGen.tla; strict/free replay by harness driver sess; TLC trace validation against spec/PSession.tla'},
        ],
        'checks': checks,
        'notes': 'Every verdict comes from an execution of code built from /repo\'s working tree that the Layer P TLA+ trace specification rejects; TLC counterexamples, drift, timeouts are exit 2. See DESIGN.md.',
        'not_applicable': [{'property_id': p, 'reason': 'check not built yet (work in progress; planned per DESIGN.md section 7)'} for p in props if p not in CHECKS],
    }
    json.dump(m, open(os.path.join(ROOT, 'MANIFEST.json'), 'w'), indent=1)
    print('MANIFEST.json: %d checks, %d not_applicable' % (len(checks), len(m['not_applicable'])))

if __name__ == '__main__':
    main()
