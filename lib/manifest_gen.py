#!/usr/bin/env python3
"""Regenerates /verif/MANIFEST.json from the table below (single source of truth)."""
import json, os, subprocess
ROOT = os.path.dirname(os.path.dirname(os.path.abspath(__file__)))
props = [json.loads(l)['id'] for l in open(os.path.join(ROOT, 'properties.jsonl'))]

CHECKS = {
 'C01': dict(level='exploration', engine='corr', design='7 (C01)',
   technique='TLA+-enumerated configuration space (Workload.tla) run as concurrent tagged workloads on two real peers; TLC trace validation against PCorr.tla',
   text='Every cell of protocol x codec x filter pipe (capability matrix of the spec) x load profile is a truly concurrent workload (Call, AsyncCall, Push, reverse-direction calls, handlers that stay inside while other frames are decoded and then re-read their argument); every body, padding and metadata value is a unique tag and TLC checks each handler input and each OK result against the sender\'s values. Interleavings are sampled by the Go scheduler, not enumerated.',
   note='Trusted: TLC, the harness tag bookkeeping. http / websocket / thrift-struct protocols are not driven by this engine (their framing is covered by C05).'),
 'C03': dict(level='model_checking', engine='disp', design='7 (C03), 6 (Dispatch.tla)',
   technique='TLA+ model checking of the single-message pipeline (Dispatch.tla); every terminal state replayed between two real peers; TLC trace validation against PDispatch.tla',
   text='Dispatch.tla enumerates every scenario (message kind, route class, plugin stage profiles, one vetoing (plugin, stage), handler outcome incl. panic, undecodable bodies) and TLC checks AtMostOneHandler / OneReply on all of them; each scenario is executed between two real peers with a wire tap counting CALL/REPLY frames, and the recorded events are validated against the dispatch rules. Concurrent arrivals and disconnect alternatives are covered by the sess engine traces (PSession C03 rules).',
   note='Trusted: TLC, the harness frame counter (an independent parser of the raw framing). Raw protocol + JSON codec only.'),
 'C04': dict(level='model_checking', engine='disp', design='7 (C04)',
   technique='TLA+ model checking (Dispatch.tla: OKIff) with replay of every scenario and TLC trace validation of the caller status rule (PDispatch.tla)',
   text='For every scenario of Dispatch.tla the caller status observed on the real code must be OK iff the handler ran to completion, returned OK and the reply was decoded, and otherwise equal the handler triple or the applicable framework rule (404, 400, 500, veto status, connection error).',
   note='Raw protocol + JSON codec; status value classes over other protocols are covered by the wire round-trip check (C05).'),
 'C09': dict(level='model_checking', engine='disp', design='7 (C09)',
   technique='TLA+ model checking (Dispatch.tla: HookOnce, VetoStops, CallerVetoStops, Scoped) with replay and TLC trace validation of hook order / veto rules (PDispatch.tla)',
   text='For every scenario the recorded (plugin, stage) sequence on both sides must equal the documented stage and registration order computed by the specification (global-left, group, handler, global-right; cut at a veto), plugins outside the matched chain must stay silent, a pre-handler veto must prevent the handler and become the caller status, a vetoing pre-write hook must leave nothing on the wire.',
   note='Plugins are registered before the routes exist; three stage profiles per plugin; at most one veto per scenario.'),
 'C02': dict(level='model_checking', engine='sess', design='7 (C02), 6 (Session.tla)',
   technique='TLA+ model checking (Session.tla, TLC exhaustive + liveness) bound to the code by strict hold-point replay of TLC behaviours and TLC trace validation (PSession.tla) of recorded executions',
   text='Every interleaving of call issue / write / reply arrival / Close / connection loss / hostile reply for 2 calls + 1-2 inbound calls + 1-2 Close invocations is model-checked (NoHang, DoneAtMostOnce, liveness under weak fairness); TLC-generated behaviours are replayed step by step on the real session with the projected state compared after each step, and every recorded execution (strict and free-running) is validated by TLC against the completion rules of the Layer P trace specification.',
   note='Trusted: TLC, the Go runtime, the in-memory connection of the harness; bounded to the stated constants; real concurrency beyond the replayed schedules is sampled (seeded jitter), not enumerated.'),
 'C07': dict(level='model_checking', engine='sess', design='7 (C07), 6 (Session.tla, Hub.tla)',
   technique='TLA+ model checking (Session.tla lifecycle; Hub.tla session index) with strict replay and TLC trace validation (PSession.tla, PHub.tla)',
   text='The lifecycle state machine (status edges, closed stable, hook once, notify, index removal) is model-checked over all interleavings of Close against disconnect; behaviours and TLC counterexamples of the unrepaired design are replayed on the real code and all recorded traces are validated against the lifecycle rules.',
   note='Same trusted base as C02; index exactness over histories of several sessions is decided by the Hub engine.'),
 'C08': dict(level='model_checking', engine='sess', design='7 (C08)',
   technique='TLA+ model checking (Session.tla: GracefulReply, CloseWaits, ReplyWins) with free-running replay of TLC behaviours and TLC trace validation (PSession.tla graceful-close rules)',
   text='All placements of Close() relative to handler entry, reply write, reply arrival and connection loss within the model bounds are model-checked; the waits-for rules are judged on free-running executions of the same behaviours (no hold point on the closer).',
   note='Same trusted base as C02; handler durations are sampled by the jitter of the run, not enumerated.'),
}

def main():
    checks = []
    for p in props:
        if p not in CHECKS:
            continue
        c = CHECKS[p]
        checks.append({
            'property_id': p,
            'quick_cmd': 'bin/vcheck %s --tier quick' % p,
            'thorough_cmd': 'bin/vcheck %s --tier thorough' % p,
            'evidence_file': '/verif/evidence/%s.json' % p,
            'replay_cmd_template': 'bin/vcheck %s --replay {path}' % p,
            'engine': c['engine'],
            'level_claimed': {'category': c['level'], 'text': c['text'], 'design_ref': 'DESIGN.md section ' + c['design']},
            'level_note': c['note'],
            'technique': c['technique'],
        })
    hooks = subprocess.run(['git', '-C', '/repo', 'log', '--format=%h %s'], stdout=subprocess.PIPE, text=True).stdout.splitlines()
    hook_commits = [l.split()[0] for l in hooks if l.split(' ', 1)[1].startswith('verif hook')]
    m = {
        'version': 1,
        'setup_cmd': 'bin/setup.sh',
        'hooks': {'guard': 'verif', 'enable': 'go build -tags verif (harness module /verif/harness, replace github.com/henrylee2cn/erpc/v6 => /repo)',
                  'baseline_off_cmd': 'bin/baseline_off.sh', 'source_commits': hook_commits[::-1], 'add_only': True},
        'engines': [
            {'name': 'hub', 'path': 'lib/eng_hub.py', 'serves_properties': ['C07'],
             'kind_free_text': 'TLC model checking of spec/Hub.tla (session index under operation histories incl. running handlers and blocked takeovers); one scenario per explored transition replayed by harness driver hub; TLC trace validation against spec/PHub.tla'},
            {'name': 'disp', 'path': 'lib/eng_disp.py', 'serves_properties': ['C03', 'C04', 'C09'],
             'kind_free_text': 'TLC model checking of spec/Dispatch.tla; every terminal state replayed by harness driver disp; TLC trace validation against spec/PDispatch.tla'},
            {'name': 'corr', 'path': 'lib/eng_corr.py', 'serves_properties': ['C01'],
             'kind_free_text': 'configuration space from spec/Workload.tla; concurrent tagged workloads (driver corr); TLC trace validation against spec/PCorr.tla'},
            {'name': 'sess', 'path': 'lib/eng_sess.py', 'serves_properties': ['C02', 'C07', 'C08'],
             'kind_free_text': 'TLC model checking of spec/Session.tla; scenario export via spec/SessionGen.tla; strict/free replay by harness driver sess; TLC trace validation against spec/PSession.tla'},
        ],
        'checks': checks,
        'notes': 'Every verdict comes from an execution of code built from /repo\'s working tree that the Layer P TLA+ trace specification rejects; TLC counterexamples, drift, timeouts are exit 2. See DESIGN.md.',
        'not_applicable': [{'property_id': p, 'reason': 'check not built yet (work in progress; planned per DESIGN.md section 7)'} for p in props if p not in CHECKS],
    }
    json.dump(m, open(os.path.join(ROOT, 'MANIFEST.json'), 'w'), indent=1)
    print('MANIFEST.json: %d checks, %d not_applicable' % (len(checks), len(m['not_applicable'])))

if __name__ == '__main__':
    main()
