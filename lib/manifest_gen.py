#!/usr/bin/env python3
"""Regenerates /verif/MANIFEST.json from the table below (single source of truth)."""
import json, os, subprocess
ROOT = os.path.dirname(os.path.dirname(os.path.abspath(__file__)))
props = [json.loads(l)['id'] for l in open(os.path.join(ROOT, 'properties.jsonl'))]

CHECKS = {
 'C01': dict(level='exploration', engine='corr', design='7 (C01)',
   technique='TLA+-enumerated configuration space (Workload.tla) run as concurrent tagged workloads on two real peers; TLC trace validation against PCorr.tla',
   text='Every cell of protocol (raw, json, pb, thrift-binary, thrift-struct) x codec (json, xml, form, plain, protobuf, thrift) x filter pipe (capability matrix of the spec) x load profile (incl. a barrier profile: 32 goroutines of one session issue their operations at the same instant) is a truly concurrent workload; the websocket mixer is driven end to end (http upgrade over loopback TCP, json / protobuf sub-protocols); every cell is a truly concurrent workload (Call, AsyncCall, Push, reverse-direction calls, handlers that stay inside while other frames are decoded and then re-read their argument); every body, padding and metadata value is a unique tag and TLC checks each handler input and each OK result against the sender\'s values. Interleavings are sampled by the Go scheduler, not enumerated.',
   note='Trusted: TLC, the harness tag bookkeeping. http and websocket protocols are not driven by this engine (their framing is covered by C05); the end of a workload waits until every sent message has reached its handler.'),
 'C03': dict(level='model_checking', engine='disp', design='7 (C03), 6 (Dispatch.tla)',
   technique='TLA+ model checking of the single-message pipeline (Dispatch.tla); every terminal state replayed between two real peers; TLC trace validation against PDispatch.tla',
   text='Dispatch.tla enumerates every scenario (message kind, route class, plugin stage profiles, one vetoing (plugin, stage), handler outcome incl. panic, undecodable bodies) and TLC checks AtMostOneHandler / OneReply on all of them; each scenario is executed between two real peers with a wire tap counting CALL/REPLY frames, and the recorded events are validated against the dispatch rules. Well-formed frames of an unsupported type (0, 4, 5, 9, 255) written onto a live session must be answered by disconnecting, with no hook, handler or reply. Some scenarios are preceded by a push that the serving session wrote under a context deadline which has passed since (the in-memory connection fails writes after a passed deadline, as a real one does): the reply must still be written. Twelve scenarios give the receiving side scarce resources: a context age shorter than the handler takes (the reply cannot be written under the expired handling context: the caller must be told so, 500, not left without an answer), and a goroutine pool of the process without a free slot when the frames arrive (the exchange must end as the plain one does). Concurrent arrivals and disconnect alternatives are covered by the sess engine traces (PSession C03 rules).',
   note='Trusted: TLC, the harness frame counter (an independent parser of the raw framing). Raw protocol + JSON codec only.'),
 'C04': dict(level='model_checking', engine='disp', design='7 (C04)',
   technique='TLA+ model checking (Dispatch.tla: OKIff) with replay of every scenario and TLC trace validation of the caller status rule (PDispatch.tla)',
   text='For every scenario of Dispatch.tla the caller status observed on the real code must be OK iff the handler ran to completion, returned OK and the reply was decoded, and otherwise equal the handler triple or the applicable framework rule (404, 400, 500, veto status, connection error). 16 scenarios make the caller\'s connection return from Write 25 ms after the bytes were delivered, so that the whole exchange is over before the calling goroutine is back from its write. The status triples of all earlier calls of a run are held and re-read after later traffic: they must not change.',
   note='Raw protocol + JSON codec; status value classes over other protocols are covered by the wire round-trip check (C05).'),
 'C09': dict(level='model_checking', engine='disp', design='7 (C09)',
   technique='TLA+ model checking (Dispatch.tla: HookOnce, VetoStops, CallerVetoStops, Scoped) with replay and TLC trace validation of hook order / veto rules (PDispatch.tla)',
   text='For every scenario the recorded (plugin, stage) sequence on both sides must equal the documented stage and registration order computed by the specification (global-left, group, handler, global-right; cut at a veto), plugins outside the matched chain must stay silent, a pre-handler veto must prevent the handler and become the caller status, a vetoing pre-write hook must leave nothing on the wire.',
   note='Plugins are registered before the routes exist; three stage profiles per plugin; at most one veto per scenario.'),
 'C05': dict(level='exploration', engine='data', design='7 (C05), 6 (Wire.tla)',
   technique='TLA+-enumerated message vector space with per-protocol supported-field oracle (Wire.tla); Pack/Unpack of every vector on the real protocols; outcomes validated by TLC against PCase.tla',
   text='Wire.tla enumerates every message vector differing from the default message in at most K fields (K=2 quick, 3 thorough) over field classes (sequence extremes, method/meta/status byte classes and boundary lengths, body classes up to 65535 bytes, codec ids, filter pipes) for eight protocols (raw, json, pb, thrift-binary, thrift-struct, http, websocket json / pb sub-protocols; per-protocol supported sets and compare sets: the http-style protocol reproduces method+body+codec for calls, status for replies, metadata is outside the claim) and three chunkings; each is packed with ONE protocol instance inside a three-frame stream, unpacked from a chunking reader into fresh messages and into ONE message object that is Reset between frames after an unrelated primer frame, and compared field by field, including frame sync and size independence from preceding traffic.',
   note='Small-scope hypothesis (K fields differ at once); concretisation is seeded (3 seeds in the thorough tier); thrift-struct bodies are the harness\'s thrift document type.'),
 'C11': dict(level='exploration', engine='data', design='7 (C11), 6 (Codec.tla)',
   technique='TLA+ shape grammar and capability matrix (Codec.tla); reflect-built values round-tripped through the real codecs, garbage decoding with sentinel words; outcomes validated by TLC against PCase.tla',
   text='Codec.tla enumerates shapes (scalars at extremes, string classes, slices, fixed arrays, structs of up to three representative fields, nesting) within each codec\'s documented domain; the harness builds the Go types with reflect, requires DeepEqual after decode(encode(v)) including element order, a value\'s encoding must survive later encodings (encode A, B, A\' then decode all three, not copied); and the harness decodes empty / random / every truncation / one flipped bit per offset / overflowing / wrongly typed inputs requiring an error or a value, no panic and untouched sentinel words around the destination; the plain codec decodes into a window of a larger buffer (length 4, capacity 12) whose surroundings must stay untouched.',
   note='Memory safety is observed only through the two sentinel words and Go\'s own bounds checks; protobuf uses the message type shipped in the repository, thrift a hand-written thrift struct (string, list<i64>, binary).'),
 'C12': dict(level='exploration', engine='data', design='7 (C12), 6 (Xfer.tla)',
   technique='TLA+-enumerated pipes with expectation classes (Xfer.tla); OnPack/OnUnpack, protocol Pack/Unpack and end-to-end reply frames on the real code; outcomes validated by TLC against PCase.tla',
   text='All pipes of length <= 4 over gzip (two levels) and md5 x five payload classes must invert exactly; long pipes by pattern up to 255 (pipes of 254 and 255 filters also through the raw and json wire protocols), length 256 and unregistered ids must be refused (also when patched into a raw / json frame, and when the frame header names an unregistered id while the payload is valid for the registered ones); every single-byte corruption (3 masks per offset), truncation and extension of md5-outermost packed payloads must be detected; a reply must travel through the pipe of its call (frames captured on the wire), also an error reply: handler error, unknown method, undecodable argument.',
   note='Corruption enumeration is exhaustive for payloads up to 200 bytes only.'),
 'C15': dict(level='model_checking', engine='generic(hist)', design='7 (C15), 6 (History.tla)',
   technique='TLC-enumerated operation histories (History.tla) replayed in one process with a sentinel snapshot after every operation; TLC trace validation against PHistory.tla',
   text='Every history of at most 2 (quick) / 3 (thorough) operations over a 15-operation alphabet (direct and proxied traffic, backend failures, closed sessions, unknown routes, undecodable bodies, panics, auth / overload / secure rejections, PreReceive on a PreSession kept beyond the preparing phase with the message recycled, an accept hook that sends and returns a status object of its own) is executed in one process; after each operation every package-level status is snapshotted through a verif accessor and four failing probes are repeated: snapshot and probe triples must never change, and a status object owned by a plugin must read the same after the framework has used it.',
   note='The snapshot covers the statuses declared in status.go and session.go; a shared status created elsewhere would be seen only through the probes.'),
 'C16': dict(level='model_checking', engine='generic(auth)', design='7 (C16), 6 (Accept.tla)',
   technique='TLA+ model of the accept phase (Accept.tla, TLC exhaustive) with every terminal state replayed by a scripted raw client; TLC trace validation against PAuth.tla',
   text='Accept.tla models both accept paths (ServeConn, and the accept loop behind ListenAndServe driven through the verif hook VerifServeListener on an in-memory listener) with the checker and one other accept hook; TLC checks that no reader, handler or index entry exists without a completed exchange; all 1440 scenarios (2 paths x 16 first-message classes incl. a panicking checker, a checker that assigns the session id before it decides, and byte tokens x pipelining x timing x other-hook placement/verdict; for byte tokens also with a neighbouring connection of the process that authenticates with a valid token of the same length between the receive and the compare of this checker) are replayed against a real peer with the shipped plugin and a recording plugin on every stage; the trace specification accepts a successful verdict only for a valid token sent by this very client.',
   note='The client side is a scripted raw peer; the bearer plugin (PostDial side) is not driven. ListenAndServe itself (listener creation) is not driven, its accept loop is.'),
 'C17': dict(level='model_checking', engine='generic(secure)', design='7 (C17), 6 (Secure.tla)',
   technique='Complete marker matrix with oracle (Secure.tla) replayed between two real peers with the shipped plugin over byte-capturing connections; TLC trace validation against PSecure.tla',
   text='All 672 cells (kind x secure marker x accept-secure x enforced secure reply x equal/different keys x key length x codec x body class), plus 48 cells with an earlier secure call on the same session and / or a seeded session swap, 6 cells of 240 concurrent exchanges on one session, 48 cells whose handler reports success with a status object of code 0 instead of nil, and 8 cells in which the message is the first one after a connection loss on a redial-enabled session over loopback TCP (re-written after a redial), are executed; the captured bytes are searched for the random tags, handler invocation and caller status are compared with the oracle.',
   note='Cipher strength is out of scope; secure request + accept-secure=false is unconstrained.'),
 'C18': dict(level='model_checking', engine='generic(overload)', design='7 (C18), 6 (Overload.tla)',
   technique='TLA+ models of the connection limiter (histories, Overload.tla; atomic interleavings, OverloadAtomic.tla) with every history transition replayed on a real peer with the shipped plugin; TLC trace validation against POverload.tla',
   text='Every transition of the history model (connect, concurrent bursts, disconnect, close, raise of the limit, a limit configured for the first time while sessions admitted without one are alive; limit none/1-3, up to 7 operations, both accept paths and the dialling side (plugin on a peer that dials over loopback TCP and re-dials: a connection dropped by the remote end and re-dialled is the same admitted session), a ghost summary of the past in the VIEW so that history-dependent deviations are reached) is replayed with a probe of CountSession and of the number of sessions able to complete a call after each operation; admission must equal min(k, free slots). Rate limit: bursts of concurrent calls and pushes against the real ticker (one and several tokens per refill tick, one and eight sessions, a live update that lengthens the refill interval), and the take() interleavings of QpsAtomic.tla sampled by goroutines released from a spin barrier into the header hook of the plugin (fresh bucket per round) with the token-bucket bound and error replies for rejected calls.',
   note='Atomic interleavings of take/release are model-checked at design level and exercised by concurrent bursts, not replayed step by step; timing bound carries one tick of slack.'),
 'C19': dict(level='exploration', engine='generic(proxy)', design='7 (C19), 6 (Proxy.tla)',
   technique='Request space with metamorphic oracle (Proxy.tla): each case sent through a real proxy peer and directly to the backend; TLC trace validation against PProxy.tla',
   text='316 cases (kind x backend method outcome x codec x request metadata x reply metadata x body class incl. no argument at all after non-empty exchanges x backend failure: down before, write failure while the connection looks healthy, cut during) with three real peers; proxied status, body and reply metadata must equal the direct ones, the backend must be entered exactly once and see the real-IP metadata exactly when absent, backend failures must give 502 on that call only; 200 proxied calls made by 8 goroutines at once must each get the body and reply metadata of their own call.',
   note='One proxy hop; backend chosen by a fixed forwarder.'),
 'C06': dict(level='fault_enumeration', engine='data', design='7 (C06), 6 (Hostile.tla, HostileRecv.tla)',
   technique='TLA+ receiver automaton (HostileRecv.tla, TLC) and hostile input space (Hostile.tla); every input class fed as raw bytes to a live session of a real peer; outcomes validated by TLC against PCase.tla',
   text='Input classes (random, zeros, every truncation of a valid frame, valid prefix + garbage, valid frame + garbage, the length field at seven boundary values, frames announcing 512 MiB / limit+1) x five protocols x two read limits are written to live sessions (for the http-style protocol also repeated and negative Content-Length and request / header / status lines of 4 MiB that never end; long inputs are delivered piecewise so that only the receiver buffers); well-formed REPLY frames with malformed bodies (5 codecs x 6 malformation classes) are sent to a session that has a call outstanding; after the input and EOF the session must be functional or cleanly disconnected (notify, not indexed) within the quiescence bound, the allocation attributable to the input must stay within the limit plus slack, and a control session on the same peer must answer before and after.',
   note='Allocation is measured as a TotalAlloc delta (GC-independent but shared with concurrent harness activity: 2 MiB slack); a process crash is caught by the driver crash path.'),
 'C10': dict(level='model_checking', engine='generic(router)', design='7 (C10), 6 (Router.tla)',
   technique='TLC-enumerated identifier strings and registration scenarios (Router.tla); mapper calls and live dispatch on real peers, conflicts in child processes; TLC trace validation against PRouter.tla',
   text='Every identifier string up to length 4/5 over {A,B,a,b,_,1} x 4 prefixes x both mappers is mapped twice (totality, determinism) and the 16 documented table rows are compared; registration scenarios (subsets of a handler inventory x group prefixes x mappers x unknown handlers) are registered on real peers and every returned name, eight near misses of each and unregistered names are requested as CALL and PUSH: exactly the owning handler must run. With the shipped ignore-case plugin installed, dispatch must follow the rewritten (lower-case) name; one controller with two methods that map to one name must be refused like two conflicting registrations.',
   note='The general mapping rule beyond the 16 table rows is not transcribed; the handler inventory is fixed Go source (method names cannot be generated at run time).'),
 'C13': dict(level='model_checking', engine='generic(redial)', design='7 (C13), 6 (Redial.tla)',
   technique='TLA+ fault-sequence model with expectations (Redial.tla, TLC exhaustive) replayed over loopback TCP through a controllable forwarder; TLC trace validation against PRedial.tla',
   text='Every transition of the fault-sequence model (calls, in-flight calls, connection cut, server down/up, SetID, the dial hook of the client rejecting re-established connections, quiescence; the dial hook configures every connection through the PreSession it is given (ControlFD); the index of the client is counted at every probe) for redial budgets 0, 2, unlimited and a slow-interval budget 3 with repeated outages shorter than the budget (blips) is replayed with a real Dial over TCP (incl. a call held at the call.stored hook point while the connection is cut and the reader notices); calls must complete (reply or connection error as the model demands, never hang), at quiescent points the same Session must be healthy, indexed, keep its user id and have re-run the dial hooks, or have ended (notify fired, not indexed).',
   note='Which goroutine detects a loss is left to the run; outcomes the statement leaves open (calls racing with a redial, calls on an ended session once the server is back) are unconstrained.'),
 'C14': dict(level='exploration', engine='race', design='7 (C14)',
   technique='Concurrent programs generated from the TLA+ models (Workload.tla, SessionGen.tla, Hub.tla, Peer.tla, Redial.tla, Accept.tla) executed under the Go race detector',
   text='Workload cells with at least four goroutines per session, free-running session behaviours with Close / disconnect races, index histories with SetID / takeover, peer-level histories (with a concurrent first use of the swap of every session), redial fault sequences and accept-phase scenarios are run on a race-detector build; a report counts when, in both access stacks, the first frame that is not Go runtime / standard library belongs to the repository (deduplicated by that pair of frames).',
   note='Verdict from the Go race detector on sampled schedules; TLA+ only supplies the programs.'),
 'C20': dict(level='exploration', engine='data', design='7 (C20), 6 (Pool.tla)',
   technique='TLC-enumerated mutator sequences per pooled kind (Pool.tla); differential comparison recycled vs fresh object on the real code; outcomes validated by TLC against PCase.tla',
   text='For messages (also obtained through GetMessage with up to three settings, one of which may panic), metadata containers, pooled sockets (incl. a previous user closing from two goroutines at once), filter pipes and handler contexts (incl. a session context age and a caller-supplied call context whose reply a pooled context processed) every sequence of at most 2/3 mutators of the previous user followed by one operation of the next user is executed with deterministic recycling (GOMAXPROCS(1), pointer identity checked); all public getters and the bytes of a packed message must equal those of a fresh object.',
   note='Handler contexts are observed from inside the handler of a second request on one session.'),
 'C02': dict(level='model_checking', engine='sess', design='7 (C02), 6 (Session.tla)',
   technique='TLA+ model checking (Session.tla, TLC exhaustive + liveness) bound to the code by strict hold-point replay of TLC behaviours and TLC trace validation (PSession.tla) of recorded executions',
   text='Every interleaving of call issue / write / reply arrival / Close / connection loss / hostile reply for 2 calls + 1-2 inbound calls + 1-2 Close invocations is model-checked (NoHang, DoneAtMostOnce, liveness under weak fairness); TLC-generated behaviours are replayed step by step on the real session with the projected state compared after each step, and every recorded execution (strict and free-running) is validated by TLC against the completion rules of the Layer P trace specification.',
   note='Trusted: TLC, the Go runtime, the in-memory connection of the harness; bounded to the stated constants; real concurrency beyond the replayed schedules is sampled (seeded jitter), not enumerated.'),
 'C07': dict(level='model_checking', engine='sess', design='7 (C07), 6 (Session.tla, Hub.tla)',
   technique='TLA+ model checking (Session.tla lifecycle; Hub.tla session index; Peer.tla peer-level histories) with strict replay, scenario replay and TLC trace validation (PSession.tla, PHub.tla, PPeer.tla)',
   text='The lifecycle state machine (status edges, closed stable, hook once, notify, index removal) is model-checked over all interleavings of Close against disconnect; behaviours and TLC counterexamples of the unrepaired design are replayed on the real code and all recorded traces are validated against the lifecycle rules. Peer.tla adds histories over two connections and the three establishment paths (ServeConn, accept loop, Dial over loopback TCP) with the hook verdicts ok / reject on both ends and panic / assigns-an-id-and-wraps-the-connection on the accepting end, Close on either end, cut, Peer.Close and calls; PPeer.tla derives every end\'s state from the recorded operations and checks health, index, counts, hook counts, close notification and fail-fast calls at every probe.',
   note='Same trusted base as C02; index exactness over histories of several sessions is decided by the Hub and Peer engines; the peer driver delays the goroutine that brings a session up by 1 ms right after it started the reader (schedule perturbation at the *.reader hook points).'),
 'C08': dict(level='model_checking', engine='sess', design='7 (C08)',
   technique='TLA+ model checking (Session.tla: GracefulReply, CloseWaits, ReplyWins) with free-running replay of TLC behaviours and TLC trace validation (PSession.tla graceful-close rules)',
   text='All placements of Close() relative to handler entry, reply write, reply arrival and connection loss within the model bounds are model-checked; the waits-for rules are judged on free-running executions of the same behaviours (no hold point on the closer).',
   note='Same trusted base as C02; handler durations are sampled by the jitter of the run, not enumerated.'),
}

# Extensions of the fifth session (appended to the level texts above; DESIGN.md sections 12.6 and 12.8)
RDM = (' A redial-enabled session is covered at step level as well: spec/RedialM.tla (reader per connection generation, callers, Close(), the redial round under the session lock; '
       'TLC exhaustive, 710 889 distinct states in the quick configuration; with one repair switched off TLC must refute the named invariant) and the schedule families of spec/RedialSched.tla '
       '(the loss-handling goroutine parked at each of 13 action boundaries, callers parked at call.stored / write.refused, calls / Close() / server back / rejecting dial hook issued meanwhile) '
       'forced on the real code over loopback TCP and judged at quiescence by spec/PRedialM.tla (every call and Close() ends; the session is alive, ended or, after a later call, revived; closed for good after a local Close()).')
EXTRA = {
 'C02': RDM + ' For this property: the 200 sampled families with calls racing a loss, a round or a Close(), the directed scenarios earlyreply (a hostile remote answers a call that is still being launched and whose write fails; Session.tla with EarlyReplies is model-checked for it) and nestedcall (a handler calls back on its own session and the connection is lost).',
 'C07': RDM + ' For this property: 200 sampled families (all 830 in the thorough tier).',
 'C08': RDM + ' For this property: the families with a local Close() (150 sampled).',
 'C13': RDM + ' For this property: 400 sampled families in the quick tier, all 830 twice in the thorough tier.',
 'C06': ' The state of the attacked session is a dimension of its own (idle / a CALL of this side pending / a CALL pending with a graceful Close() parked) over truncations, random bytes, plain EOF, boundary length fields and an unsupported frame type: once the input is exhausted the pending call must have completed and Close() returned; class lowered: the oversized announcements after the read limit was lowered at run time on a peer with earlier traffic; class logged: well-formed frames with 11 hostile body / metadata classes to a peer that prints message details (416 cases).',
 'C09': ' A second class of placement trees varies how the global plugin lists came into being (slice with spare capacity, a plugin removed by name at either end, two plugins appended at once) with two sibling routes that are both called (27 720 scenarios, 1 500 sampled in the quick tier); a Fatalf of the framework during a legal configuration is an event the trace specification never accepts.',
 'C10': ' Class live (320 scenarios, all replayed): unknown handlers and part of the routes installed before / after / replaced after the first session exists, request rounds on the old and on a new session, the current unknown handler per round stated by Router.tla.',
 'C11': ' Class alias (60 cases): the decoded value must still equal v after every byte of the input buffer was overwritten; class reuse (140 cases): for codecs whose capability ResetsDest holds (protobuf, plain, thrift; measured on the unchanged tree) decoding into a destination that received a larger value before must yield v; class bytesreuse: a byte-slice receiver kept across calls holds exactly the new body (1960 cases in all).',
 'C14': ' An observing-plugin profile (write hooks read Status, Output and Swap while replies arrive) and byte-body cells through the unknown-message handlers are among the race programs (43 workload programs); a report that pairs a repository access with a harness read of a value the framework handed over for good (vh.Owned*) counts.',
 'C15': ' The alphabet has 20 operations: five whose reply WRITE fails with something other than connection-closed were added (unencodable result; known / unknown route under an expired context age; known / unknown route on a connection whose writes fail): 420 histories in the quick tier.',
 'C16': ' Timing class split: the first frame arrives in two pieces (cut inside the size field, inside the header, after the header, after the public part of the credential) and the client watches during the pause: no verdict, hook or handler may precede the complete first frame; neighbour before: a valid credential of the same layout was left in the pooled receive buffer (2640 scenarios).',
 'C17': ' A neighbouring plugin before / after the secure plugin or on the serving routes reports success from every read and write hook with nil or with a status object of code 0 (1118 scenarios).',
 'C19': ' Dimension earlier: what happened before on the forwarder session (a message under a context deadline that has since passed; a context age switched off) as a pre-step (438 scenarios).',
 'C20': ' Previous uses of handler contexts that end not OK on either side (handler error, not found, undecodable argument, failed / unserved push, unsupported frame type) and the view of the write hooks (WriteCtx) of the next call / push are part of the observation; the context pool is drained before the recycled and before the reference run (2466 cases).',
}
TECH_EXTRA = {
 'C02': '; step-level redial model (RedialM.tla, TLC exhaustive) with hold-point schedule families (RedialSched.tla) validated by TLC against PRedialM.tla',
 'C07': '; step-level redial model (RedialM.tla, TLC exhaustive) with hold-point schedule families (RedialSched.tla) validated by TLC against PRedialM.tla',
 'C08': '; step-level redial model (RedialM.tla, TLC exhaustive) with hold-point schedule families (RedialSched.tla) validated by TLC against PRedialM.tla',
 'C13': '; step-level redial model (RedialM.tla, TLC exhaustive) with hold-point schedule families (RedialSched.tla) validated by TLC against PRedialM.tla',
}

def main():
    checks = []
    for p in props:
        if p not in CHECKS:
            continue
        c = CHECKS[p]
        checks.append({
            'property_id': p,
            'quick_cmd': 'bin/vcheck %s --tier quick' % p,
            'thorough_cmd': 'bin/vcheck %s --tier thorough' % p,
            'evidence_file': '/verif/evidence/%s.json' % p,
            'replay_cmd_template': 'bin/vcheck %s --replay {path}' % p,
            'engine': c['engine'],
            'level_claimed': {'category': c['level'], 'text': c['text'] + EXTRA.get(p, ''), 'design_ref': 'DESIGN.md section ' + c['design']},
            'level_note': c['note'],
            'technique': c['technique'] + TECH_EXTRA.get(p, ''),
        })
    hooks = subprocess.run(['git', '-C', '/repo', 'log', '--format=%h %s'], stdout=subprocess.PIPE, text=True).stdout.splitlines()
    hook_commits = [l.split()[0] for l in hooks if l.split(' ', 1)[1].startswith('verif hook')]
    m = {
        'version': 1,
        'setup_cmd': 'bin/setup.sh',
        'hooks': {'guard': 'verif', 'enable': 'go build -tags verif (harness module /verif/harness, replace github.com/henrylee2cn/erpc/v6 => /repo)',
                  'baseline_off_cmd': 'bin/baseline_off.sh', 'source_commits': hook_commits[::-1], 'add_only': True},
        'engines': [
            {'name': 'hub', 'path': 'lib/eng_hub.py', 'serves_properties': ['C07'],
             'kind_free_text': 'TLC model checking of spec/Hub.tla (session index under operation histories incl. running handlers and blocked takeovers); one scenario per explored transition replayed by harness driver hub; TLC trace validation against spec/PHub.tla'},
            {'name': 'disp', 'path': 'lib/eng_disp.py', 'serves_properties': ['C03', 'C04', 'C09'],
             'kind_free_text': 'TLC model checking of spec/Dispatch.tla; every terminal state replayed by harness driver disp; TLC trace validation against spec/PDispatch.tla'},
            {'name': 'data', 'path': 'lib/eng_data.py', 'serves_properties': ['C05', 'C06', 'C11', 'C12', 'C20'],
             'kind_free_text': 'generator specifications spec/Wire.tla, spec/Codec.tla, spec/Xfer.tla, spec/Pool.tla, spec/Hostile.tla (abstract case space + expectation class); driver data; TLC validation against spec/PCase.tla'},
            {'name': 'generic', 'path': 'lib/eng_generic.py', 'serves_properties': ['C10', 'C13', 'C15', 'C16', 'C17', 'C18', 'C19'],
             'kind_free_text': 'model check + export of terminal transitions (History/Accept/Secure/Overload/Proxy/Router/Redial .tla), replay by the matching harness driver, TLC trace validation against the matching P*.tla'},
            {'name': 'plug', 'path': 'lib/eng_plug.py', 'serves_properties': ['C09'],
             'kind_free_text': 'plugin placement trees from spec/Plugins.tla replayed by driver plug; TLC trace validation against spec/PPlug.tla'},
            {'name': 'race', 'path': 'lib/eng_race.py', 'serves_properties': ['C14'],
             'kind_free_text': 'programs from Workload.tla / SessionGen.tla / Hub.tla run on a race-detector build; reports filtered to the repository packages'},
            {'name': 'corr', 'path': 'lib/eng_corr.py', 'serves_properties': ['C01'],
             'kind_free_text': 'configuration space from spec/Workload.tla; concurrent tagged workloads (driver corr); TLC trace validation against spec/PCorr.tla'},
            {'name': 'redialm', 'path': 'lib/checks.py (redialm) + lib/eng_generic.py', 'serves_properties': ['C02', 'C07', 'C08', 'C13'],
             'kind_free_text': 'TLC model checking of spec/RedialM.tla (step-level redial machinery; as-is configurations must be refuted); schedule families from spec/RedialSched.tla forced with hold points by harness driver redialm over loopback TCP; TLC trace validation against spec/PRedialM.tla'},
            {'name': 'sess', 'path': 'lib/eng_sess.py', 'serves_properties': ['C02', 'C07', 'C08'],
             'kind_free_text': 'TLC model checking of spec/Session.tla; scenario export via spec/SessionGen.tla; strict/free replay by harness driver sess; TLC trace validation against spec/PSession.tla'},
        ],
        'checks': checks,
        'notes': 'Every verdict comes from an execution of code built from /repo\'s working tree that the Layer P TLA+ trace specification rejects; TLC counterexamples, drift, timeouts are exit 2. See DESIGN.md.',
        'not_applicable': [{'property_id': p, 'reason': 'check not built yet'} for p in props if p not in CHECKS],
    }
    json.dump(m, open(os.path.join(ROOT, 'MANIFEST.json'), 'w'), indent=1)
    print('MANIFEST.json: %d checks, %d not_applicable' % (len(checks), len(m['not_applicable'])))

if __name__ == '__main__':
    main()
