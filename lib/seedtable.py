"""Rewrites the seeded-change table of DESIGN.md (between the SEEDTABLE markers) from seeded/*/meta.json,
seeded/RESULTS.txt (written by bin/seedall.sh) and seeded/NOTES.json (what was strengthened, by hand)."""
import json, os, re
root = os.path.dirname(os.path.dirname(os.path.abspath(__file__)))
res = {}
for l in open(os.path.join(root, 'seeded', 'RESULTS.txt')):
    p = l.split()
    if len(p) >= 3:
        res[p[0]] = (p[2], ' '.join(p[3:]))
notes = json.load(open(os.path.join(root, 'seeded', 'NOTES.json')))
rows = ['| change | what it does (short) | quick check of its property | first rejected signature | note |', '|---|---|---|---|---|']
for name in sorted(os.listdir(os.path.join(root, 'seeded'))):
    d = os.path.join(root, 'seeded', name)
    if not os.path.isdir(d):
        continue
    m = json.load(open(os.path.join(d, 'meta.json')))
    summ = re.sub(r'\s+', ' ', m['summary']).replace('|', '/')
    summ = summ[:170] + ('…' if len(summ) > 170 else '')
    rc, sig = res.get(name, ('?', ''))
    verdict = {'rc=1': 'caught (exit 1)', 'rc=0': '**missed** (exit 0)', 'rc=2': 'check broke (exit 2)'}.get(rc, rc)
    sig = sig.split(' ')[0].replace('|', '/')[:90] if sig else ''
    rows.append('| %s | %s | %s | `%s` | %s |' % (name, summ, verdict, sig, notes.get(name, '')))
table = '\n'.join(rows)
p = os.path.join(root, 'DESIGN.md')
s = open(p).read()
a, b = '<!-- SEEDTABLE-BEGIN -->', '<!-- SEEDTABLE-END -->'
if a in s:
    s = s[:s.index(a) + len(a)] + '\n' + table + '\n' + s[s.index(b):]
else:
    s = s.replace('(table generated from `seeded/RESULTS.txt` — see §12.7)\n', a + '\n' + table + '\n' + b + '\n')
open(p, 'w').write(s)
print(len(rows) - 2, 'rows')
