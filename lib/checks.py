"""Registry: property id -> check function(prop, tier, verdict) -> (level, coverage, assumptions)."""
import eng_sess, eng_hub, eng_disp, eng_corr, eng_data, eng_plug, eng_generic, eng_race

SESS_ASSUME = [
    'the in-memory connection of the harness behaves like a reliable byte stream (delivered bytes stay readable after the peer closes; writes fail after a close)',
    'hold points (build tag verif) add synchronisation only; waits-for rules are judged on free-running executions',
    'bounded model: at most 2 outbound calls, 2 inbound calls, 2 Close invocations per behaviour',
]

def _drift_gate(cov, verdict):
    """More than half of the strict session replays drifted and Layer P accepted every session trace: the check is broken
    (exit 2) unless one of its other engines has rejected a trace recorded from the same code."""
    if cov.get('drift_majority_unexplained') and not verdict.violations:
        import vlib
        raise vlib.Broken('more than half of the strict replays drifted and Layer P accepted every trace: the model no longer describes the code')

def _rdm_merge(cov, mcov):
    cov.update(mcov)
    cov['traces_validated_against_impl'] += mcov['redialm_traces']
    cov['evaluations'] += mcov['redialm_scenarios']
    cov['distinct_nontrivial'] += mcov['redialm_nontrivial']

def _rdm_calls(c):
    # schedule families with calls racing a loss, a redial round or a Close() on a redial-enabled session
    return 'call' in (c.get('during') or []) or c.get('kind') == 'closerace'

def _rdm_close(c):
    return c.get('closed')

def c02(prop, tier, verdict):
    cov, _ = eng_sess.run(prop, tier, verdict)
    # calls on a session that redials: every call completes exactly once whatever the schedule inside a loss (spec/RedialM.tla)
    _rdm_merge(cov, redialm(prop, tier, verdict, 200, only=_rdm_calls))
    _drift_gate(cov, verdict)
    return 'model_checking', cov, SESS_ASSUME + [REDIALM_ASSUME]

def c08(prop, tier, verdict):
    cov, _ = eng_sess.run(prop, tier, verdict)
    # Peer.Close() at the end of every index history (sessions that took over ids, handlers still running): spec/Hub.tla, PHub PeerClose
    hcov, _ = eng_hub.run(prop, tier, verdict)
    cov.update(hcov)
    cov['traces_validated_against_impl'] += hcov['hub_traces_validated']
    cov['evaluations'] += hcov['hub_scenarios']
    cov['distinct_nontrivial'] += hcov['hub_distinct_nontrivial']
    cov['samples'].append({'hub_history': hcov['hub_sample']})
    # Close() on a session that redials, racing with a loss, a redial round and new calls (spec/RedialM.tla)
    _rdm_merge(cov, redialm(prop, tier, verdict, 150, only=_rdm_close))
    _drift_gate(cov, verdict)
    return 'model_checking', cov, SESS_ASSUME + [REDIALM_ASSUME, 'peer level: every index history of spec/Hub.tla ends with Peer.Close() while the handlers that are still running run on (15 ms observation window for a Close that returns too early)']

def c07(prop, tier, verdict):
    cov, _ = eng_sess.run(prop, tier, verdict)
    hcov, _ = eng_hub.run(prop, tier, verdict)
    cov.update(hcov)
    cov['traces_validated_against_impl'] += hcov['hub_traces_validated']
    cov['evaluations'] += hcov['hub_scenarios']
    cov['distinct_nontrivial'] += hcov['hub_distinct_nontrivial']
    cov['samples'].append({'hub_history': hcov['hub_sample']})
    # peer-level histories: ServeConn / accept loop / Dial, hook rejections, Close, cut, Peer.Close (spec/Peer.tla, spec/PPeer.tla)
    def pcl(line, sc):
        ops = [x['op'] + (':' + x['path'] + ':' + x['sv'] + '/' + x['cv'] if x['op'] == 'establish' else '') for x in sc.get('steps', [])]
        return 'peer:%s:%s' % (line.get('ev'), '>'.join(ops[-3:]))
    pcov, _ = eng_generic.run(prop, tier, verdict, 'Peer', 'peerlife', 'PPeer', pcl, consts={'MaxOps': '6' if tier == 'thorough' else '5', 'Slots': '{1, 2}'}, mc_cfg='Peer_mc.cfg', extra_cfg='VIEW view',
                              quick_sample=700, min_count=6000, nontrivial=lambda sc: len(sc.get('steps', [])) > 1, label='peerlife')
    cov['peer_model'] = pcov.get('model'); cov['peer_states'] = pcov.get('states'); cov['peer_scenarios'] = pcov['evaluations']
    cov['traces_validated_against_impl'] += pcov['traces_validated_against_impl']
    cov['evaluations'] += pcov['evaluations']
    cov['distinct_nontrivial'] += pcov['distinct_nontrivial']
    cov['samples'].append({'peer_history': pcov['samples'][-1]})
    # lifecycle and index of a session that redials: a local Close() ends it for good, at quiescence it is alive or ended (spec/RedialM.tla)
    _rdm_merge(cov, redialm(prop, tier, verdict, 200))
    _drift_gate(cov, verdict)
    return 'model_checking', cov, SESS_ASSUME + [REDIALM_ASSUME, 'peer level: 2 connections, histories of at most 5 operations over the three establishment paths (ServeConn, accept loop on an in-memory listener, Dial over loopback TCP to the accept loop), both hook verdicts on both ends, Close on either end, cut, Peer.Close on either peer, calls; quick tier replays a seeded sample of 700 of the exported transitions', 'session index: 3 sessions, 2 user ids, histories of at most 7 operations, one operation at a time (quiescent probes)']

DISP_ASSUME = [
    'one message per scenario between two real peers over the in-memory connection; concurrent arrivals are covered by the sess engine',
    'plugins registered before the routes exist; each plugin has one of three stage profiles (all / header stages / body+reply stages); at most one vetoing (plugin, stage) per scenario',
    'raw (default) wire protocol and JSON body codec',
]

def c_disp(prop, tier, verdict):
    cov, _ = eng_disp.run(prop, tier, verdict)
    return 'model_checking', cov, DISP_ASSUME

def c01(prop, tier, verdict):
    cov, _ = eng_corr.run(prop, tier, verdict)
    return 'exploration', cov, ['protocols raw, json, pb, thrift-binary; codecs json, xml, form, plain, protobuf; pipes over gzip and md5; http / websocket / thrift-struct protocols are not in the workload driver',
                                'schedules are those the Go scheduler produces under the load profiles (sampled, not enumerated)']

def _vecdiff(case):
    d = {'seq': 'one', 'mtype': '1', 'method': 'short', 'status': 'nil', 'meta': 'none', 'codec': 'j', 'body': 'b1', 'pipe': 'none'}
    return ','.join('%s=%s' % (k, v) for k, v in sorted((case.get('vec') or {}).items()) if d.get(k) != v)

def c05(prop, tier, verdict):
    def sig(line):
        c = line.get('case', {})
        what = 'escaped' if line.get('escaped') else ('err' if line.get('err') else 'diff:' + '+'.join(sorted(set(('reused-' if x.startswith('reused:') else '') + x.split(':')[-1 if not x.startswith('size') else 0].split('(')[0].split('=')[0].split('#')[0] for x in line.get('diffs', [])))))
        return 'wire:%s:%s/%s' % (c.get('proto'), what, _vecdiff(c))
    cov, _ = eng_data.run(prop, tier, verdict, 'Wire', {'K': '3' if tier == 'thorough' else '2'}, sig, 5000,
                          sample=None if tier == 'thorough' else None, nontrivial=lambda c: _vecdiff(c) != '', seeds=3 if tier == 'thorough' else 1)
    return 'exploration', cov, ['protocols raw, json, pb, thrift-binary and the websocket json/pb sub-protocols; http and thrift-struct are not driven',
                                'bodies are byte slices (codec bypass), so the codec id is carried but not exercised here (see C11)',
                                'small-scope hypothesis: every vector differing from the default message in at most K fields']

def c12(prop, tier, verdict):
    def sig(line):
        c = line.get('case', {})
        return 'xfer:%s:%s:pipe=%s:payload=%s:%s' % (c.get('kind'), c.get('proto', '-'), c.get('pipe') if len(c.get('pipe', '')) < 8 else 'len%d' % len(c.get('pipe')), c.get('payload'),
                                                   'escaped' if line.get('escaped') else ('err' if line.get('err') else 'bad'))
    cov, _ = eng_data.run(prop, tier, verdict, 'Xfer', {'MaxLen': '4'}, sig, 800, seeds=3 if tier == 'thorough' else 1,
                          nontrivial=lambda c: c.get('pipe') != '')
    return 'exploration', cov, ['filters gzip (two levels) and md5; pipes of length <= 4 exhaustively, longer ones by pattern',
                                'single-byte corruptions (3 masks per position) plus truncation/extension of payloads up to 200 bytes']

def c11(prop, tier, verdict):
    def sig(line):
        c = line.get('case', {})
        return 'codec:%s:%s%s:%s' % (c.get('codec'), c.get('kind'), (':' + c.get('gclass')) if c.get('gclass') else '',
                                    'escaped' if line.get('escaped') else ('err' if line.get('err') else 'unequal'))
    cov, _ = eng_data.run(prop, tier, verdict, 'Codec', {'MaxFields': '3'}, sig, 1500, seeds=3 if tier == 'thorough' else 1)
    return 'exploration', cov, ['value domain = shape grammar of spec/Codec.tla (scalars at their extremes, strings by class, slices 0..3, arrays 1..3, structs of up to 3 representative fields, nesting 2) within the capability matrix of each codec',
                                'protobuf / thrift values are the message types shipped in the repository',
                                'garbage: empty, random, every truncation, one bit flipped at every offset, overflowing element counts, wrongly typed tokens; memory safety is observed through two sentinel words around the destination']

def c09(prop, tier, verdict):
    cov, _ = eng_disp.run(prop, tier, verdict)
    pcov, _ = eng_plug.run(prop, tier, verdict)
    cov.update(pcov)
    cov['traces_validated_against_impl'] += pcov['plug_traces']
    cov['evaluations'] += pcov['plug_scenarios']
    cov['distinct_nontrivial'] += pcov['plug_nontrivial']
    # hooks must also fire at most once when a message is re-written after a redial
    rcov, _ = eng_generic.run(prop, tier, verdict, 'Redial', 'redial', 'PRedial', lambda line, s: 'redialhooks:%s:%s.%s' % (line.get('ev'), line.get('pl'), line.get('stage')),
                              consts={'MaxOps': '7', 'Budgets': '{0, 2, 3, 99}'}, extra_cfg='VIEW view', min_count=500, label='redial')
    cov['redial_traces'] = rcov['traces_validated_against_impl']
    cov['traces_validated_against_impl'] += rcov['traces_validated_against_impl']
    return 'model_checking', cov, DISP_ASSUME + ['placement trees: 0-2 global-left, 0-2 global-right, 0-3 nested groups with 0-1 plugin, 1-2 sibling handlers with 0-1 plugin, optionally one global plugin appended after the routes exist (its hooks on route chains are unconstrained)',
                                  'origin of the global lists: literal arguments, a slice with spare capacity, a plugin removed by name before the routes exist (left or right list, either end), two plugins appended at once (left or right) x the placements above with two sibling handlers that differ in their handler-level plugins; both routes are called, in either order; a Fatalf of the framework during such a configuration is recorded as an event and rejected']

def c16(prop, tier, verdict):
    def cl(line, s):
        return 'auth:%s/first=%s,pipe=%s,timing=%s,hook=%s-%s%s' % (line.get('ev'), s.get('first'), s.get('pipe'), s.get('timing'), s.get('hookpos'), s.get('hookverdict'), (',neighbour' if s.get('neighbour') == 'good' else '') + (',cut=%s' % s.get('cut') if s.get('timing') == 'split' else '') + (',neighbour=before' if s.get('neighbour') == 'before' else ''))
    cov, _ = eng_generic.run(prop, tier, verdict, 'Accept', 'auth', 'PAuth', cl, mc_cfg='Accept_mc.cfg', min_count=2000, repeats=3 if tier == 'thorough' else 1,
                             nontrivial=lambda s: s['first'] != 'authgood' or s['pipe'] != 'none')
    return 'model_checking', cov, ['both establishment paths over in-memory connections with the shipped auth checker plugin: peer.ServeConn and the accept loop behind ListenAndServe (hook H2 on an in-memory listener); real TCP/TLS/QUIC listeners are not driven',
                                   'client behaviours: 16 first-message classes (string and byte tokens, checker panic, checker SetID) x 4 pipelining classes x 2 timings x 5 placements/verdicts of another accept hook x 2 paths, plus for byte tokens a neighbouring connection that authenticates with a valid token of the same length between receive and compare (GOMAXPROCS 1 during that scenario): 1440 scenarios, all replayed',
                                   'timing class split: the first frame delivered in two pieces (cut inside the size field / inside the header / right after the header / after the public part of the credential) with a pause in which the scripted client watches for any response; no checker verdict, hook or handler may be recorded before the frame is complete; also with a neighbouring connection that authenticated with a valid byte token of the same length just before and left (its credential is what the pooled receive buffer still holds): 1200 scenarios more, all replayed']

def c17(prop, tier, verdict):
    def cl(line, s):
        return 'secure:%s/kind=%s,marker=%s,accept=%s,enforce=%s,keys=%s,codec=%s%s' % (line.get('ev'), s.get('kind'), s.get('marker'), s.get('accept'), s.get('enforce'), s.get('keys'), s.get('codec'), (',hret=okstatus' if s.get('hret') == 'okstatus' else '') + (',nbr=%s/%s' % (s.get('nbr'), s.get('nret')) if s.get('nbr', 'none') != 'none' else ''))
    cov, _ = eng_generic.run(prop, tier, verdict, 'Secure', 'secure', 'PSecure', cl, mc_cfg='Secure_mc.cfg', min_count=1000, repeats=3 if tier == 'thorough' else 1,
                             nontrivial=lambda s: s['marker'] != 'none' or s['accept'] != 'absent' or s['enforce'])
    return 'model_checking', cov, ['matrix complete: kind x secure marker x accept-secure x enforced secure reply x equal/different keys x key length 16/24/32 x codec json/protobuf x 4 body classes',
                                   'clear-text detection searches the captured bytes for the 31-character random tag (and the head of the padding); the cipher itself is not analysed',
                                   'the combination secure request + accept-secure=false is left unconstrained (statement and plugin disagree)',
                                   'neighbouring plugin: a second plugin of both peers before / after the secure plugin or on the serving routes, all of whose read and write hooks report success with nil or with a status object of code 0 (key length 16, short body); the oracle is the same as without it']

def c18(prop, tier, verdict):
    import vlib
    wd = vlib.scratch('ovat')
    ra = vlib.tlc_must_hold('OverloadAtomic', 'OverloadAtomic_mc.cfg', workdir=wd, workers=4, timeout=300)
    vlib.cleanup(wd)
    def cl(line, s):
        ops = [x['op'] for x in s.get('steps', [])]
        if s.get('rate'):
            return 'overload:rate:%s' % line.get('ev')
        # which kind of operation preceded the rejected event
        return 'overload:%s:after-%s%s' % (line.get('ev'), line.get('op') or (ops[-1] if ops else '?'), ':rejected-before' if any(x['op'] in ('connect', 'burst') and x['admitted'] < x['k'] for x in s.get('steps', [])) else '')
    rates = [{'rate': {'cap': c, 'interval_ms': 50, 'bursts': b, 'waits_ms': w}, 'steps': []}
             for c in (1, 3) for b, w in (([6, 6, 6], [120, 30]), ([2, 8, 3, 8], [10, 160, 10]))]
    # a refill of more than one token per tick: capacity 10, interval 500 ms (5 per tick): partial drain, one tick, burst
    rates += [{'rate': {'cap': 10, 'interval_ms': 500, 'bursts': b, 'waits_ms': w}, 'steps': []}
              for b, w in (([1, 24], [560]), ([3, 20, 20], [540, 20]))]
    # a limit update on a live plugin that lengthens the refill interval (5 ms -> 100 ms, 2 tokens per tick): the bursts after the first
    # find only what the NEW refill can have added
    rates += [{'rate': {'cap': 20, 'interval_ms': 100, 'from': {'cap': 20, 'interval_ms': 5}, 'bursts': b, 'waits_ms': w}, 'steps': []}
              for b, w in (([30, 30, 30], [100, 100]), ([30, 16, 16, 16], [40, 60, 40]))]
    # concurrent takes: the burst is spread over 8 sessions (8 reader goroutines take tokens at the same moment), small bucket, slow refill
    rates += [{'rate': {'cap': 2, 'interval_ms': 1000, 'bursts': [24], 'waits_ms': [], 'sessions': 8}, 'steps': []} for _ in range(60 if tier == 'thorough' else 30)]
    # the take() interleavings of spec/QpsAtomic.tla on the real bucket: 8 goroutines released from a spin barrier into the plugin's header hook, a fresh bucket of 2 per round
    rates += [{'rate': {'cap': 2, 'interval_ms': 1000, 'bursts': [2000 if tier == 'thorough' else 400], 'waits_ms': [], 'hammer': 8}, 'steps': []}]
    rq = vlib.tlc_must_hold('QpsAtomic', 'QpsAtomic_mc.cfg', workdir=vlib.scratch('qpsat'), workers=2, timeout=120)
    cov, _ = eng_generic.run(prop, tier, verdict, 'Overload', 'overload', 'POverload', cl, consts={'MaxOps': '8' if tier == 'thorough' else '7', 'GuardRelease': 'TRUE', 'Limits': '{0, 1, 2}'},
                             mc_cfg='Overload_mc.cfg', extra_cfg='VIEW view', min_count=3000, nontrivial=lambda s: len(s.get('steps', [])) > 2, extra_scenarios=rates)
    cov['qps_atomic_model'] = 'spec/QpsAtomic.tla: 4 concurrent takers on a bucket of 2 at atomic-operation granularity: %d distinct states, NeverOver holds' % rq['distinct']
    cov['atomic_model'] = 'spec/OverloadAtomic.tla: 3 concurrent take/release threads at atomic-operation granularity, limit 2: %d distinct states, NeverOver holds' % ra['distinct']
    return 'model_checking', cov, ['connection limit none / 1..3, histories of at most 7 operations (connect, concurrent burst of 2-3 connects, disconnect, close, raise or first configuration of the limit) on the accepting side over both accept paths, one scenario per transition of the model',
                                   'the interleavings of the limiter\'s atomic operations are model-checked (design level) and exercised by the concurrent bursts, not replayed step by step',
                                   'rate limit: real ticker (50 ms .. 1 s), bursts of concurrent calls and pushes over 1 or 8 sessions, a live update that lengthens the refill interval, bound = tokens that can be in the bucket with one tick of slack',
                                   'dialling side: the plugin on a peer that dials over loopback TCP and re-dials lost connections (operations connect, burst, close, raise, blip = connection dropped by the remote end and re-dialled); a remote disconnect that ends a session (failing re-dial) is not among the operations of that path']

def c19(prop, tier, verdict):
    def cl(line, s):
        return 'proxy:%s/kind=%s,method=%s,codec=%s,reqmeta=%s,replymeta=%s,failure=%s' % (line.get('ev'), s.get('kind'), s.get('method'), s.get('codec'), s.get('reqmeta'), s.get('replymeta'), s.get('failure')) + (',earlier=%s' % s.get('earlier') if s.get('earlier', 'none') != 'none' else '')
    cov, _ = eng_generic.run(prop, tier, verdict, 'Proxy', 'proxy', 'PProxy', cl, mc_cfg='Proxy_mc.cfg', min_count=200, repeats=3 if tier == 'thorough' else 1,
                             nontrivial=lambda s: s['reqmeta'] != 'none' or s['replymeta'] != 'none' or s['failure'] != 'none' or s['method'] != 'echo' or s.get('earlier', 'none') != 'none')
    return 'exploration', cov, ['three real peers (caller, proxy with the shipped plugin, backend) over in-memory connections, plus the same caller connected directly to the backend as the reference',
                                'request space of spec/Proxy.tla: kind x method (served / failing / missing at the backend) x codec json/protobuf x request metadata classes x reply metadata classes x body classes x backend failure (down before, cut during) x what happened earlier on the forwarder session of the proxy (nothing, a message written under a context deadline that has since passed, an exchange under a context age that was then switched off; healthy short-body cases only)',
                                'metamorphic oracle: proxied outcome = direct outcome; every case executed in both tiers']

def c15(prop, tier, verdict):
    def cl(line, s):
        what = line.get('ev')
        if what == 'Sentinels':
            exp = dict(x.split(':', 1) for x in line.get('expected', '').split(';') if ':' in x)
            got = dict(x.split(':', 1) for x in line.get('v', '').split(';') if ':' in x)
            what += ':' + ','.join(sorted(k for k in got if got.get(k) != exp.get(k)))
        elif what == 'Probe':
            what += ':' + str(line.get('name'))
        return 'hist:%s' % what
    cov, _ = eng_generic.run(prop, tier, verdict, 'History', 'hist', 'PHistory', cl, consts={'MaxLen': '3' if tier == 'thorough' else '2'}, min_count=150,
                             nontrivial=lambda s: len(s.get('ops', [])) > 1)
    return 'model_checking', cov, ['alphabet of 20 whole-process operations (direct and proxied calls and pushes, backend down / cut, closed sessions, unknown route, undecodable body, handler panic, auth reject, overload reject, secure key mismatch, PreReceive on a PreSession kept beyond the preparing phase with the message recycled, an accept hook that sends and returns a status object of its own, and five calls whose REPLY WRITE fails with something other than connection-closed: result that cannot be encoded, known / unknown route under a context age that has run out, known / unknown route on a connection whose writes fail while it looks healthy); every history of length <= 2 (quick) / 3 (thorough) in ONE process, so a mutated shared status is seen by everything after it',
                                   'after every operation the verif accessor snapshots every package-level status; before and after every history four failing probes are repeated and their (code, msg, cause) compared; what the caller of an unencodable / aged operation observes is compared between its repetitions as well']

def c20(prop, tier, verdict):
    def sig(line):
        c = line.get('case', {})
        return 'pool:%s:next=%s:muts=%s:%s' % (c.get('kind'), c.get('next'), '+'.join(c.get('muts') or []), 'escaped' if line.get('escaped') else 'differs')
    cov, _ = eng_data.run(prop, tier, verdict, 'Pool', {'MaxMut': '3' if tier == 'thorough' else '2'}, sig, 1000,
                          nontrivial=lambda c: len(c.get('muts') or []) > 0, seeds=2 if tier == 'thorough' else 1)
    return 'exploration', cov, ['pooled kinds: socket.Message (also obtained through GetMessage with up to 3 settings, one of which may panic), utils.Args, pooled socket.Socket, xfer.XferPipe, handler contexts (through a live session)',
                                'every sequence of at most 2 (quick) / 3 (thorough) mutators of the previous user, then one operation of the next user; recycling is made deterministic with GOMAXPROCS(1) and checked by pointer identity',
                                'differential oracle: observation vector / packed bytes of the recycled object equal those of a fresh one',
                                'handler contexts: previous uses include calls / pushes that ended not OK (handler error, not found, undecodable argument, unsupported frame type) on either side; the next user sends a call or a push, and the observation includes what the sending side\'s pre/post write hooks see through their WriteCtx (a pooled context for a push); the context pool is emptied (two collections) before the recycled and before the reference run']

def c06(prop, tier, verdict):
    import vlib
    wd = vlib.scratch('hrecv')
    ra = vlib.tlc_must_hold('HostileRecv', 'HostileRecv_mc.cfg', workdir=wd, workers=2, timeout=300)
    vlib.cleanup(wd)
    def sig(line):
        c = line.get('case', {})
        what = 'escaped' if line.get('escaped') else '+'.join(k for k in ('alive', 'boundok', 'stateok', 'controlok') if not line.get(k)) or 'err'
        return 'hostile:%s:%s%s%s:limit=%s:%s' % (c.get('proto'), c.get('class'), ('=' + c.get('lenval')) if c.get('class') in ('lenfield', 'logged') else '', ('@' + c.get('sess')) if c.get('sess') else '', c.get('limit'), what)
    cov, _ = eng_data.run(prop, tier, verdict, 'Hostile', {}, sig, 200, seeds=3 if tier == 'thorough' else 1)
    cov['receiver_automaton'] = 'spec/HostileRecv.tla: %d distinct states, BoundedAlloc and NoWedge hold' % ra['distinct']
    return 'fault_enumeration', cov, ['protocols raw, json, pb, thrift-binary, http; read limits 4 KiB and 64 KiB (process-global, set per case)',
                                      'input classes: random, zeros, every truncation of a valid frame, valid prefix + garbage, valid frame + garbage, length field at 7 boundary values, frames announcing 512 MiB / limit+1 with a few bytes following',
                                      'allocation is observed as the TotalAlloc delta around one input with 2 MiB of slack; a process crash is reported through the driver crash path; a control session on the same peer must answer before and after every case',
                                      'state of the attacked session (Hostile.tla sess): idle, one CALL of the attacked side pending (never answered), or such a CALL pending and a graceful Close() parked waiting for it, crossed with a representative subset of input classes (three truncations, random bytes, plain EOF, three bad length fields, a well-formed frame of an unsupported type); once the input is exhausted the call must have completed and Close() must have returned (10 s bound)']

def c10(prop, tier, verdict):
    def cl(line, s):
        ev = line.get('ev')
        if ev == 'MapCase':
            return 'router:map:%s:%s%s' % (line.get('mapper'), 'panic' if line.get('panicked') else ('table' if line.get('expected') else 'nondeterministic'), ':' + line.get('name') if line.get('expected') else '')
        if ev == 'Request':
            # live scenarios: when the configuration was installed relative to the session the request was made on
            live = ':live:when=%s,sess=%s' % (line.get('when'), line.get('sess')) if line.get('sess') else ''
            return 'router:request:%s:ran=%s%s' % (line.get('ns'), '+'.join(line.get('ran') or []) or 'none', live)
        return 'router:%s' % ev
    def sel(allc, rnd, tier):
        regs = [c for c in allc if c['kind'] == 'reg']
        rest = [c for c in allc if c['kind'] != 'reg']
        if tier != 'thorough':
            regs = rnd.sample(regs, 250)
        return rest + regs
    cov, _ = eng_generic.run(prop, tier, verdict, 'Router', 'router', 'PRouter', cl, consts={'MaxLen': '5' if tier == 'thorough' else '4'}, min_count=10000,
                             select=sel, nontrivial=lambda s: s['kind'] != 'map' or s.get('expected'), check_trace_count=False)
    return 'model_checking', cov, ['mapper: every identifier string of length <= 4 (quick) / 5 (thorough) over {A,B,a,b,_,1} x 4 prefixes x both mappers for totality and determinism, the 16 documented table rows for equality (the general rule is not transcribed)',
                                   'dispatch: subsets of a fixed handler inventory (3 controller structs, 2 functions, one CALL and one PUSH handler mapping to the same name) x 3 group prefixes x both mappers x unknown handlers on/off; every returned name, 8 near misses of it and unregistered names requested as CALL and as PUSH',
                                   'name conflicts are observed as the exit status of a child process',
                                   'live configuration: unknown handlers installed before / after / replaced after / never relative to the first session, any part of 3 route sets registered after it, 2 group prefixes, both mappers (320 scenarios, all replayed); rounds of requests on the old session before and after the late configuration and on a new session; configuration steps and requests alternate, they do not run concurrently']

def redialm(prop, tier, verdict, sample_quick, only=None):
    """Step-level redial model (spec/RedialM.tla) + schedule families forced with hold points (spec/RedialSched.tla,
    driver redialm) judged by spec/PRedialM.tla.  Returns coverage entries to merge."""
    import vlib
    wd = vlib.scratch('rdm_' + prop)
    # (the two-call configuration, 126 M states / about half an hour, and the as-is refutations belong to the check of C13)
    cfg = 'RedialM_mc2.cfg' if (tier == 'thorough' and prop == 'C13') else 'RedialM_mc.cfg'
    r = vlib.tlc_must_hold('RedialM', cfg, workdir=wd, workers=8, timeout=6000)
    known = []
    # the model still knows the repaired defects: with one repair switched off TLC must refute the named invariant
    # (in the quick tier only by the check of C13; the other checks that use the engine rely on it)
    asis = (('CloseLock', 'NoHangG'), ('LostClose', 'CloseEffectiveG'), ('StaleEnd', 'AliveOrEndedG'), ('StaleReader', 'AliveOrEndedG'), ('LateCancel', 'NoHangG'))
    # (LateCancel needs two calls: 17 M states before the refutation, thorough tier only)
    for fix, inv in ((asis if tier == 'thorough' else asis[:4]) if prop == 'C13' else ()):
        viol, _, rr = vlib.counterexample('RedialM', 'RedialM_asis_%s.cfg' % fix, var='status', workdir=wd, workers=6, timeout=2400)
        if not viol:
            raise vlib.Broken('RedialM with Fix%s = FALSE no longer violates %s: the model has lost the defect' % (fix, inv))
        known.append('%s -> %s refuted' % (fix, inv))
    vlib.cleanup(wd)
    def cl(line, s):
        ev = line.get('ev')
        what = ev
        if ev == 'QProbe':
            what += ':%s%s%s%s' % (line.get('status'), ':notified' if line.get('notified') else '', ':indexed' if line.get('indexed') else '', ':count=%s' % line.get('count'))
        if ev in ('CallDone', 'FreshCall'):
            what += ':code=%s' % line.get('code')
        return 'redialm:%s/kind=%s,loss=%s,park=%s,wpark=%s,during=%s,after=%s' % (what, s.get('kind'), s.get('loss'), s.get('park'), s.get('wpark'), '+'.join(s.get('during') or []) or '-', s.get('after'))
    DIRECTED = ('stalereader', 'latecancel', 'earlyreply')
    def sel(allc, rnd, tier):
        directed = [c for c in allc if c.get('kind') in DIRECTED] + [c for c in allc if c.get('kind') == 'nestedcall' and prop == 'C02']
        pool = [c for c in allc if c.get('kind') not in DIRECTED + ('nestedcall',) and (only is None or only(c))]
        if tier == 'thorough' or len(pool) <= sample_quick:
            return directed + pool
        # stratified: one scenario of every (kind, loss, park, caller parked, calls, Close) combination first, the rest at random
        strata = {}
        for c in pool:
            d = c.get('during') or []
            strata.setdefault((c.get('kind'), c.get('loss'), c.get('park'), c.get('wpark') != 'none', 'call' in d, 'close' in d), []).append(c)
        picked = [rnd.choice(v) for _, v in sorted(strata.items(), key=lambda kv: str(kv[0]))]
        rest = [c for c in pool if c not in picked]
        extra = rnd.sample(rest, max(0, min(len(rest), sample_quick - len(picked))))
        return directed + picked + extra
    cov, _ = eng_generic.run(prop, tier, verdict, 'RedialSched', 'redialm', 'PRedialM', cl, mc_cfg='RedialSched_mc.cfg', min_count=800, select=sel,
                             nontrivial=lambda s: s.get('park') != 'none' or s.get('wpark') != 'none' or len(s.get('during') or []) > 0,
                             repeats=2 if tier == 'thorough' else 1, label='redialm')
    return {'redialm_model': 'spec/RedialM.tla with %s: %d distinct states, %d generated; invariants TypeOK DoneAtMostOnce OkWasWritten and, outside the open observations O1-O3, NoHang CloseReturns NoStuckThread AliveOrEnded SurvivesLoss CloseEffective HookOnce HookIffEnded' % (cfg, r['distinct'], r['generated']),
            'redialm_asis': known,
            'redialm_scenarios': cov['evaluations'], 'redialm_traces': cov['traces_validated_against_impl'], 'redialm_nontrivial': cov['distinct_nontrivial'],
            'redialm_rejected': cov.get('rejected', 0), 'redialm_sample': cov['samples'][-1]}

REDIALM_ASSUME = 'redial machinery at step level: spec/RedialM.tla (reader per connection generation, callers, Close(), redial round under the session lock) is model-checked exhaustively (1 call x 3 generations x 2 losses; 2 calls in the thorough tier of C13); the real code is driven through the schedule families of spec/RedialSched.tla (the loss-handling goroutine parked at each action boundary, callers parked at call.stored / write.refused, calls / Close() / server back / rejecting dial hook issued meanwhile) over loopback TCP and judged at quiescence by spec/PRedialM.tla; schedules that the hold points cannot force (the open observations O1-O3 of RedialM.tla) are not replayed'

def c13(prop, tier, verdict):
    def cl(line, s):
        ops = '-'.join(x['op'] for x in s.get('steps', []))
        extra = ''
        if line.get('ev') == 'Probe' and line.get('expect') == 'healthy' and not line.get('health'):
            # how the session failed to be healthy: its status, whether it was notified, whether both the reader and a caller redialed
            extra = ':status=%s:notified=%s%s' % (line.get('status'), line.get('notified'), ':doubleredial' if (line.get('redialhooks') or 0) > (line.get('losses') or 0) else '')
        return 'redial:%s%s%s/budget=%s' % (line.get('ev'), ':expect=' + str(line.get('expect')) if line.get('expect') else '', extra, (s.get('steps') or [{}])[0].get('budget'))
    cov, _ = eng_generic.run(prop, tier, verdict, 'Redial', 'redial', 'PRedial', cl, consts={'MaxOps': '8' if tier == 'thorough' else '7', 'Budgets': '{0, 2, 3, 99}'},
                             mc_cfg='Redial_mc.cfg', extra_cfg='VIEW view', min_count=500, nontrivial=lambda s: any(x['op'] in ('cut', 'down') for x in s.get('steps', [])))
    mcov = redialm(prop, tier, verdict, 400)
    cov.update(mcov)
    cov['traces_validated_against_impl'] += mcov['redialm_traces']
    cov['evaluations'] += mcov['redialm_scenarios']
    cov['distinct_nontrivial'] += mcov['redialm_nontrivial']
    return 'model_checking', cov, [REDIALM_ASSUME, 'real loopback TCP through a forwarder that can refuse connections and cut existing ones; redial interval 3 ms; budgets 0, 2 and unlimited',
                                   'fault sequences = every transition of spec/Redial.tla (histories of at most 7 / 8 operations: call, in-flight call, cut, server down/up, SetID, quiescence wait), expectations only where the statement fixes the outcome (calls racing with a redial and calls on an ended session with the server back are left open)',
                                   'which goroutine (reader or writer) detects a loss is left to the run: a loss during an idle period is detected by the reader, a call issued right after a fault may detect it in its write']

def c14(prop, tier, verdict):
    cov, _ = eng_race.run(prop, tier, verdict)
    return 'exploration', cov, ['the verdict comes from the Go race detector observing real executions; TLA+ contributes the programs (workload cells, session behaviours, index histories)',
                                'a data race that needs a schedule the generated programs do not reach is not found',
                                'reports with a stack in the harness or in third-party modules are ignored']

CHECKS = {
    'C01': c01,
    'C14': c14,
    'C13': c13,
    'C10': c10,
    'C06': c06,
    'C20': c20,
    'C15': c15,
    'C19': c19,
    'C18': c18,
    'C17': c17,
    'C16': c16,
    'C11': c11,
    'C05': c05,
    'C12': c12,
    'C02': c02,
    'C08': c08,
    'C07': c07,
    'C03': c_disp,
    'C04': c_disp,
    'C09': c09,
}
