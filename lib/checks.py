"""Registry: property id -> check function(prop, tier, verdict) -> (level, coverage, assumptions)."""
import eng_sess

SESS_ASSUME = [
    'the in-memory connection of the harness behaves like a reliable byte stream (delivered bytes stay readable after the peer closes; writes fail after a close)',
    'hold points (build tag verif) add synchronisation only; waits-for rules are judged on free-running executions',
    'bounded model: at most 2 outbound calls, 2 inbound calls, 2 Close invocations per behaviour',
]

def c02(prop, tier, verdict):
    cov, _ = eng_sess.run(prop, tier, verdict)
    return 'model_checking', cov, SESS_ASSUME

CHECKS = {
    'C02': c02,
    'C08': c02,
    'C07': c02,
}
