"""Registry: property id -> check function(prop, tier, verdict) -> (level, coverage, assumptions)."""
import eng_sess, eng_hub, eng_disp, eng_corr

SESS_ASSUME = [
    'the in-memory connection of the harness behaves like a reliable byte stream (delivered bytes stay readable after the peer closes; writes fail after a close)',
    'hold points (build tag verif) add synchronisation only; waits-for rules are judged on free-running executions',
    'bounded model: at most 2 outbound calls, 2 inbound calls, 2 Close invocations per behaviour',
]

def c02(prop, tier, verdict):
    cov, _ = eng_sess.run(prop, tier, verdict)
    return 'model_checking', cov, SESS_ASSUME

def c07(prop, tier, verdict):
    cov, _ = eng_sess.run(prop, tier, verdict)
    hcov, _ = eng_hub.run(prop, tier, verdict)
    cov.update(hcov)
    cov['traces_validated_against_impl'] += hcov['hub_traces_validated']
    cov['evaluations'] += hcov['hub_scenarios']
    cov['distinct_nontrivial'] += hcov['hub_distinct_nontrivial']
    cov['samples'].append({'hub_history': hcov['hub_sample']})
    return 'model_checking', cov, SESS_ASSUME + ['session index: 3 sessions, 2 user ids, histories of at most 7 operations, one operation at a time (quiescent probes)']

DISP_ASSUME = [
    'one message per scenario between two real peers over the in-memory connection; concurrent arrivals are covered by the sess engine',
    'plugins registered before the routes exist; each plugin has one of three stage profiles (all / header stages / body+reply stages); at most one vetoing (plugin, stage) per scenario',
    'raw (default) wire protocol and JSON body codec',
]

def c_disp(prop, tier, verdict):
    cov, _ = eng_disp.run(prop, tier, verdict)
    return 'model_checking', cov, DISP_ASSUME

def c01(prop, tier, verdict):
    cov, _ = eng_corr.run(prop, tier, verdict)
    return 'exploration', cov, ['protocols raw, json, pb, thrift-binary; codecs json, xml, form, plain, protobuf; pipes over gzip and md5; http / websocket / thrift-struct protocols are not in the workload driver',
                                'schedules are those the Go scheduler produces under the load profiles (sampled, not enumerated)']

CHECKS = {
    'C01': c01,
    'C02': c02,
    'C08': c02,
    'C07': c07,
    'C03': c_disp,
    'C04': c_disp,
    'C09': c_disp,
}
