"""Registry: property id -> check function(prop, tier, verdict) -> (level, coverage, assumptions)."""
import eng_sess, eng_hub, eng_disp, eng_corr, eng_data, eng_plug

SESS_ASSUME = [
    'the in-memory connection of the harness behaves like a reliable byte stream (delivered bytes stay readable after the peer closes; writes fail after a close)',
    'hold points (build tag verif) add synchronisation only; waits-for rules are judged on free-running executions',
    'bounded model: at most 2 outbound calls, 2 inbound calls, 2 Close invocations per behaviour',
]

def c02(prop, tier, verdict):
    cov, _ = eng_sess.run(prop, tier, verdict)
    return 'model_checking', cov, SESS_ASSUME

def c07(prop, tier, verdict):
    cov, _ = eng_sess.run(prop, tier, verdict)
    hcov, _ = eng_hub.run(prop, tier, verdict)
    cov.update(hcov)
    cov['traces_validated_against_impl'] += hcov['hub_traces_validated']
    cov['evaluations'] += hcov['hub_scenarios']
    cov['distinct_nontrivial'] += hcov['hub_distinct_nontrivial']
    cov['samples'].append({'hub_history': hcov['hub_sample']})
    return 'model_checking', cov, SESS_ASSUME + ['session index: 3 sessions, 2 user ids, histories of at most 7 operations, one operation at a time (quiescent probes)']

DISP_ASSUME = [
    'one message per scenario between two real peers over the in-memory connection; concurrent arrivals are covered by the sess engine',
    'plugins registered before the routes exist; each plugin has one of three stage profiles (all / header stages / body+reply stages); at most one vetoing (plugin, stage) per scenario',
    'raw (default) wire protocol and JSON body codec',
]

def c_disp(prop, tier, verdict):
    cov, _ = eng_disp.run(prop, tier, verdict)
    return 'model_checking', cov, DISP_ASSUME

def c01(prop, tier, verdict):
    cov, _ = eng_corr.run(prop, tier, verdict)
    return 'exploration', cov, ['protocols raw, json, pb, thrift-binary; codecs json, xml, form, plain, protobuf; pipes over gzip and md5; http / websocket / thrift-struct protocols are not in the workload driver',
                                'schedules are those the Go scheduler produces under the load profiles (sampled, not enumerated)']

def _vecdiff(case):
    d = {'seq': 'one', 'mtype': '1', 'method': 'short', 'status': 'nil', 'meta': 'none', 'codec': 'j', 'body': 'b1', 'pipe': 'none'}
    return ','.join('%s=%s' % (k, v) for k, v in sorted((case.get('vec') or {}).items()) if d.get(k) != v)

def c05(prop, tier, verdict):
    def sig(line):
        c = line.get('case', {})
        what = 'escaped' if line.get('escaped') else ('err' if line.get('err') else 'diff:' + '+'.join(sorted(set(x.split(':', 1)[-1].split('(')[0].split('=')[0].split('#')[0] for x in line.get('diffs', [])))))
        return 'wire:%s:%s/%s' % (c.get('proto'), what, _vecdiff(c))
    cov, _ = eng_data.run(prop, tier, verdict, 'Wire', {'K': '3' if tier == 'thorough' else '2'}, sig, 5000,
                          sample=None if tier == 'thorough' else None, nontrivial=lambda c: _vecdiff(c) != '', seeds=3 if tier == 'thorough' else 1)
    return 'exploration', cov, ['protocols raw, json, pb, thrift-binary and the websocket json/pb sub-protocols; http and thrift-struct are not driven',
                                'bodies are byte slices (codec bypass), so the codec id is carried but not exercised here (see C11)',
                                'small-scope hypothesis: every vector differing from the default message in at most K fields']

def c12(prop, tier, verdict):
    def sig(line):
        c = line.get('case', {})
        return 'xfer:%s:%s:pipe=%s:payload=%s:%s' % (c.get('kind'), c.get('proto', '-'), c.get('pipe') if len(c.get('pipe', '')) < 8 else 'len%d' % len(c.get('pipe')), c.get('payload'),
                                                   'escaped' if line.get('escaped') else ('err' if line.get('err') else 'bad'))
    cov, _ = eng_data.run(prop, tier, verdict, 'Xfer', {'MaxLen': '4'}, sig, 800, seeds=3 if tier == 'thorough' else 1,
                          nontrivial=lambda c: c.get('pipe') != '')
    return 'exploration', cov, ['filters gzip (two levels) and md5; pipes of length <= 4 exhaustively, longer ones by pattern',
                                'single-byte corruptions (3 masks per position) plus truncation/extension of payloads up to 200 bytes']

def c11(prop, tier, verdict):
    def sig(line):
        c = line.get('case', {})
        return 'codec:%s:%s%s:%s' % (c.get('codec'), c.get('kind'), (':' + c.get('gclass')) if c.get('gclass') else '',
                                    'escaped' if line.get('escaped') else ('err' if line.get('err') else 'unequal'))
    cov, _ = eng_data.run(prop, tier, verdict, 'Codec', {'MaxFields': '3'}, sig, 1500, seeds=3 if tier == 'thorough' else 1)
    return 'exploration', cov, ['value domain = shape grammar of spec/Codec.tla (scalars at their extremes, strings by class, slices 0..3, arrays 1..3, structs of up to 3 representative fields, nesting 2) within the capability matrix of each codec',
                                'protobuf / thrift values are the message types shipped in the repository',
                                'garbage: empty, random, every truncation, one bit flipped at every offset, overflowing element counts, wrongly typed tokens; memory safety is observed through two sentinel words around the destination']

def c09(prop, tier, verdict):
    cov, _ = eng_disp.run(prop, tier, verdict)
    pcov, _ = eng_plug.run(prop, tier, verdict)
    cov.update(pcov)
    cov['traces_validated_against_impl'] += pcov['plug_traces']
    cov['evaluations'] += pcov['plug_scenarios']
    cov['distinct_nontrivial'] += pcov['plug_nontrivial']
    return 'model_checking', cov, DISP_ASSUME + ['placement trees: 0-2 global-left, 0-2 global-right, 0-3 nested groups with 0-1 plugin, 1-2 sibling handlers with 0-1 plugin, optionally one global plugin appended after the routes exist (its hooks on route chains are unconstrained)']

CHECKS = {
    'C01': c01,
    'C11': c11,
    'C05': c05,
    'C12': c12,
    'C02': c02,
    'C08': c02,
    'C07': c07,
    'C03': c_disp,
    'C04': c_disp,
    'C09': c09,
}
