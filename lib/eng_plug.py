"""Engine `plug` (C09): Plugins.tla enumerates plugin placement trees with the
documented expected hook sequence of one CALL; drv_plug.go builds each tree on a
real peer and records the hooks; TLC validates against PPlug.tla."""
import json, os, random, time, hashlib
import vlib
from vlib import Broken, log


def cases(wd):
    h = hashlib.sha1(open(os.path.join(vlib.SPEC, 'Plugins.tla'), 'rb').read()).hexdigest()[:16]
    cache = os.path.join(vlib.OUT, 'cache', 'plugins_%s.ndjson' % h)
    if not os.path.exists(cache):
        exp = os.path.join(wd, 'p.ndjson')
        open(os.path.join(wd, 'Plugins_gen.cfg'), 'w').write(
            'SPECIFICATION Spec\nCONSTANTS\n  Export = "%s"\nINVARIANT NoDup\nACTION_CONSTRAINT Emit\nCHECK_DEADLOCK FALSE\n' % exp)
        r = vlib.tlc('Plugins', 'Plugins_gen.cfg', workdir=wd, workers=1, timeout=900)
        if r['violations'] or r['errors'] or not os.path.exists(exp):
            raise Broken('Plugins.tla generation failed: %s' % (r['errors'] or r['out'][-1000:]))
        os.makedirs(os.path.dirname(cache), exist_ok=True)
        os.replace(exp, cache + '.%d' % os.getpid())
        os.replace(cache + '.%d' % os.getpid(), cache)
    return [json.loads(l) for l in open(cache) if l.strip()]


def run(prop, tier, verdict):
    t0 = time.time()
    seedv = vlib.seed()
    wd = vlib.scratch('plug_' + prop)
    allc = cases(wd)
    if len(allc) < 40000:
        raise Broken('Plugins.tla exported only %d trees' % len(allc))
    # second class of Plugins.tla (how the global lists came into being; both sibling routes called): sampled on its own
    origc = [c for c in allc if c.get('origin')]
    treec = [c for c in allc if not c.get('origin')]
    if len(treec) < 40000 or len(origc) < 20000:
        raise Broken('Plugins.tla exported only %d placement trees and %d list-origin scenarios' % (len(treec), len(origc)))
    rnd = random.Random(seedv)
    scen = treec + origc if tier == 'thorough' else rnd.sample(treec, 2500) + rnd.sample(origc, 1500)
    for i, s in enumerate(scen):
        s['id'] = 'p%d' % i
    scfile = os.path.join(wd, 'scen.ndjson')
    with open(scfile, 'w') as f:
        for s in scen:
            f.write(json.dumps(s) + '\n')
    binary = vlib.build_harness()
    trfile = os.path.join(wd, 'trace.ndjson')
    rc, out, err, wall = vlib.run_harness(binary, ['plug', '-in', scfile, '-out', trfile], timeout=3000)
    if rc != 0:
        cr = vlib.crash_report(err)
        if cr and cr[1] == 'repo':
            verdict.report('%s:crash:%s' % (prop, cr[0][:80]), {'panic': cr[0]}, {'engine': 'plug', 'seed': seedv})
            return {'plug_scenarios': len(scen), 'plug_traces': 0, 'plug_nontrivial': 0}, time.time() - t0
        raise Broken('plug driver failed rc=%d: %s' % (rc, err[-2000:]))
    log('[plug] %d of %d placement trees replayed in %.0fs' % (len(scen), len(allc), wall))
    acc, rej, _ = vlib.validate_traces('PPlug', 'PPlug.cfg', trfile, workdir=wd, max_reject=10, timeout=1500)
    by_id = {s['id']: s for s in scen}
    lines_by_t = {}
    for l in open(trfile):
        if l.strip():
            lines_by_t.setdefault(json.loads(l).get('t'), []).append(l)
    if len(lines_by_t) != len(scen):
        raise Broken('plug driver recorded %d of %d traces' % (len(lines_by_t), len(scen)))
    for rj in rej:
        s = by_id.get(rj['t'], {})
        line = rj['line']
        what = line.get('ev') + (':%s.%s' % (line.get('pl'), line.get('stage')) if line.get('ev') == 'Hook' else '')
        if line.get('ev') == 'Fatal':
            what += ':' + str(line.get('msg')).split(':')[0].strip().replace(' ', '-')[:40]
        sig = '%s:tree:%s/nl=%s,nr=%s,depth=%s,sib=%s,late=%s,veto=%s' % (prop, what, s.get('nl'), s.get('nr'), s.get('depth'), s.get('sib'), s.get('late'), s.get('vetopl'))
        if s.get('origin'):
            sig += ',origin=%s' % s.get('origin')
        verdict.report(sig, {'rejected_event': line, 'previous_event': rj['prev']},
                       {'engine': 'plug', 'scenario': s, 'trace': [json.loads(x) for x in lines_by_t.get(rj['t'], [])]})
    nontriv = [s for s in scen if s['depth'] > 0 or s['late'] != 'none' or s['vetopl'] != 'none' or s.get('origin')]
    cov = {'plug_scenarios': len(scen), 'plug_trees_total': len(allc), 'plug_traces': acc + len(rej), 'plug_rejected': len(rej),
           'plug_nontrivial': len(nontriv), 'plug_exhaustive': tier == 'thorough',
           'plug_sample': {k: scen[0][k] for k in ('nl', 'nr', 'depth', 'gp', 'sib', 'hp', 'late', 'target', 'vetopl', 'vstage', 'exphooks')},
           'plug_origin_scenarios': len([s for s in scen if s.get('origin')]), 'plug_origin_total': len(origc),
           'plug_origin_sample': {k: scen[-1].get(k) for k in ('origin', 'build', 'left', 'right', 'depth', 'gp', 'hp', 'late', 'order', 'vetopl', 'vstage', 'calls')}}
    vlib.cleanup(wd)
    return cov, time.time() - t0
