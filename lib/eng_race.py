"""Engine `race` (C14): the concurrent programs generated from Workload.tla
(correlation workloads), SessionGen.tla (free-running session behaviours with
Close / disconnect races) and Hub.tla (index histories with SetID / takeover)
are executed on a harness built with the Go race detector.  A report whose two
access stacks both lie in the repository's packages is a violation."""
import json, os, random, re, time
import vlib
from vlib import Broken, log
import eng_generic

REPO = 'github.com/henrylee2cn/erpc/v6'


STD_OK = ('runtime.', 'sync.', 'sync/atomic', 'internal/')


def _origin(frames):
    """First frame of an access stack that is not Go runtime / standard library: who performed the access.
    Returns (kind, frame): kind is 'repo', 'harness' or 'other' (a third-party module)."""
    for fn, path, line in frames:
        if fn.startswith('verifharness') and fn.split('.')[-1].startswith('Owned'):
            # "owned read": the harness, in the role of the application, reads a value the framework has handed over for
            # good (handler argument while the handler runs, InputBodyBytes of an unknown-message handler, result of a
            # completed call) through one of its vh.Owned* functions.  Such memory has no accessor in the repository;
            # if the repository still writes to it, the other access of the report is the repository's.
            return 'owned', (fn.replace('verifharness/', 'harness:'), os.path.basename(path), line)
        if fn.startswith('verifharness') or fn.startswith('main.'):
            return 'harness', (fn, os.path.basename(path), line)
        first = fn.split('/')[0]
        if '/' not in fn or '.' not in first:   # standard library (bufio.(*Reader).Read, net/http..., runtime...): look at its caller
            continue
        if fn.startswith(REPO):
            return 'repo', (fn, os.path.basename(path), line)
        return 'other', (fn, os.path.basename(path), line)
    return 'other', None


def parse_reports(stderr):
    """A report is attributed, per access, to the first non-standard-library frame of its stack: a race on a
    standard-library object (a bufio.Reader, a bytes.Buffer) used from two places of the repository is a race
    of the repository."""
    reports = []
    for blk in re.split(r'={18,}\n', stderr):
        if 'WARNING: DATA RACE' not in blk:
            continue
        secs = re.split(r'\n\n', blk)
        acc = [s for s in secs if re.match(r'\s*(WARNING: DATA RACE\n)?(Read|Write|Previous read|Previous write|Atomic|Previous atomic)', s.strip())]
        tops, kinds = [], []
        for s in acc[:2]:
            frames = re.findall(r'^\s{2}(\S+)\(.*\)\n\s+(\S+):(\d+)', s, re.M)
            frames = [f for f in frames if not f[0].startswith('main.main')]
            kind, top = _origin(frames)
            tops.append(top)
            kinds.append(kind)
        if len(tops) == 2 and all(tops):
            reports.append({'a': tops[0], 'b': tops[1], 'kinds': kinds, 'text': blk[:2500]})
    return reports


def run(prop, tier, verdict):
    t0 = time.time()
    seedv = vlib.seed()
    wd = vlib.scratch('race_' + prop)
    binary = vlib.build_harness(race=True)
    rnd = random.Random(seedv)
    env = {'GORACE': 'halt_on_error=0 history_size=3'}
    stderr_all = ''
    runs = []
    # 1. correlation workloads (true concurrency over protocols / codecs / pipes)
    cells = eng_generic.export(wd, 'Workload', {}, extra_cfg='INVARIANT CapOK')
    conc = [c for c in cells if c['gor'] >= 4]
    plain = [c for c in conc if not c.get('observe')]
    sel = rnd.sample(plain, 60 if tier == 'thorough' else 24)
    # peers with an observing plugin whose write hooks read what their WriteCtx documents (status, output message, swap)
    # while the replies arrive: binary protocols without pipe always, plus a sample of the other cells of the profile
    obs = [c for c in conc if c.get('observe')]
    core = [c for c in obs if c['pipe'] == '' and c['proto'] in ('raw', 'pb', 'thriftbin') and c['codec'] in ('j', 'p', 'b')]
    sel += core + rnd.sample([c for c in obs if c not in core], 12 if tier == 'thorough' else 4)
    # raw byte bodies (handler arguments, InputBodyBytes of the unknown-message handlers, call results that are read again
    # when the whole workload is over) on the raw protocol without transfer filter: every concurrent profile
    sel += [c for c in plain if c['codec'] == 'b' and c['proto'] == 'raw' and c['pipe'] == '' and c not in sel]
    sel = [dict(c) for c in sel]
    for i, c in enumerate(sel):
        c['id'] = 'w%d' % i
        c['ops'] = 6
    f1 = os.path.join(wd, 'corr.ndjson')
    open(f1, 'w').write(''.join(json.dumps(c) + '\n' for c in sel))
    rc, out, err, wall = vlib.run_harness(binary, ['corr', '-in', f1, '-out', os.path.join(wd, 'corr.tr')], timeout=1800, env=env)
    runs.append(('corr', len(sel), rc, wall))
    stderr_all += err
    # 2. session behaviours, free-running (calls, pushes, replies, Close, disconnect)
    hists, _ = vlib.sim_behaviours('SessionGen', 'SessionGen_sim.cfg', 400 if tier == 'thorough' else 120, 80, seedv + 13, workdir=wd)
    f2 = os.path.join(wd, 'sess.ndjson')
    open(f2, 'w').write(''.join(json.dumps({'id': 'f%d' % i, 'mode': 'free', 'steps': h}) + '\n' for i, h in enumerate(hists)))
    rc2, out2, err2, wall2 = vlib.run_harness(binary, ['sess', '-in', f2, '-out', os.path.join(wd, 'sess.tr'), '-summary', os.path.join(wd, 'sess.sum'), '-seed', str(seedv)], timeout=1800, env=env)
    runs.append(('sess', len(hists), rc2, wall2))
    stderr_all += err2
    # 3. index histories (SetID, takeover, close, disconnect with running handlers)
    hub = eng_generic.export(wd, 'Hub', {'S': '{"s1", "s2", "s3"}', 'U': '{"x", "y"}', 'MaxOps': '7', 'GuardedDelete': 'TRUE'}, extra_cfg='VIEW view')
    hsel = rnd.sample([s for s in hub if len(s['steps']) >= 4], 800 if tier == 'thorough' else 250)
    for i, s in enumerate(hsel):
        s['id'] = 'h%d' % i
    f3 = os.path.join(wd, 'hub.ndjson')
    open(f3, 'w').write(''.join(json.dumps(s) + '\n' for s in hsel))
    rc3, out3, err3, wall3 = vlib.run_harness(binary, ['hub', '-in', f3, '-out', os.path.join(wd, 'hub.tr'), '-summary', os.path.join(wd, 'hub.sum')], timeout=1800, env=env)
    runs.append(('hub', len(hsel), rc3, wall3))
    stderr_all += err3
    # 4. peer-level histories (ServeConn / accept loop / Dial, hook verdicts, Close, cut, Peer.Close) and
    #    5. redial fault sequences (loopback TCP), 6. accept-phase scenarios with the auth checker
    extra = [('peerlife', 'Peer', {'MaxOps': '5', 'Slots': '{1, 2}'}, 'VIEW view', 260 if tier == 'thorough' else 90, lambda s: len(s.get('steps', [])) >= 4),
             ('redial', 'Redial', {'MaxOps': '7', 'Budgets': '{0, 2, 3, 99}'}, 'VIEW view', 200 if tier == 'thorough' else 60, lambda s: len(s.get('steps', [])) >= 5 and s['steps'][0].get('budget') != 3),
             ('auth', 'Accept', {}, '', 300 if tier == 'thorough' else 100, lambda s: s.get('pipe') != 'none')]
    for drv, module, consts, xcfg, k, pick in extra:
        allc = [s for s in eng_generic.export(wd, module, consts, extra_cfg=xcfg) if pick(s)]
        selx = rnd.sample(allc, min(k, len(allc)))
        for i, s in enumerate(selx):
            s['id'] = '%s%d' % (drv[0], i)
        fx = os.path.join(wd, drv + '.ndjson')
        open(fx, 'w').write(''.join(json.dumps(s) + '\n' for s in selx))
        rcx, outx, errx, wallx = vlib.run_harness(binary, [drv, '-in', fx, '-out', os.path.join(wd, drv + '.tr'), '-seed', str(seedv)], timeout=1800, env=env)
        runs.append((drv, len(selx), rcx, wallx))
        stderr_all += errx
    for name, n, rc_, w in runs:
        log('[race] %s: %d programs, rc=%d, %.0fs' % (name, n, rc_, w))
        if rc_ not in (0, 66):
            cr = vlib.crash_report(stderr_all)
            if cr and cr[1] == 'repo':
                verdict.report('%s:crash:%s' % (prop, cr[0][:80]), {'panic': cr[0]}, {'engine': 'race'})
            else:
                raise Broken('race run %s failed rc=%d: %s' % (name, rc_, stderr_all[-1500:]))
    reps = parse_reports(stderr_all)
    seen = {}
    ignored = 0
    for r in reps:
        fa, fb = r['a'][0], r['b'][0]
        if sorted(r['kinds']) not in (['repo', 'repo'], ['owned', 'repo']):
            ignored += 1
            continue
        key = ' | '.join(sorted(['%s(%s)' % (fa.replace(REPO + '/', '').replace(REPO, 'erpc'), r['a'][1]), '%s(%s)' % (fb.replace(REPO + '/', '').replace(REPO, 'erpc'), r['b'][1])]))
        if key in seen:
            seen[key]['n'] += 1
            continue
        seen[key] = {'n': 1, 'text': r['text']}
    for key, v in seen.items():
        verdict.report('%s:race:%s' % (prop, key), {'occurrences': v['n'], 'report': v['text']}, {'engine': 'race', 'seed': seedv})
    programs = sum(n for _, n, _, _ in runs)
    cov = {'evaluations': programs, 'distinct_nontrivial': programs,
           'rule': 'concurrent programs generated from Workload.tla (>= 4 goroutines per session), SessionGen.tla behaviours (free-running), Hub.tla histories, Peer.tla histories, Redial.tla fault sequences and Accept.tla scenarios, executed under the Go race detector; a report counts when, in both access stacks, the first frame that is not Go runtime / standard library belongs to the repository, or when one of them is an owned read of the harness (vh.Owned*: a value the framework handed over for good) and the other belongs to the repository',
           'race_reports': len(reps), 'reports_outside_repo_ignored': ignored, 'distinct_repo_races': len(seen),
           'samples': [{'engine': n, 'programs': k} for n, k, _, _ in runs]}
    vlib.cleanup(wd)
    return cov, time.time() - t0
