"""Engine `corr` (C01): Workload.tla enumerates the configuration space
(protocol x codec x pipe within the capability matrix, x load profile); each
selected cell is run as a truly concurrent workload between two real peers
(drv_corr.go) with unique tags in every body and metadata value; the recorded
events are validated by TLC against PCorr.tla."""
import json, os, random, time
import vlib
from vlib import Broken, log


def run(prop, tier, verdict):
    t0 = time.time()
    seedv = vlib.seed()
    wd = vlib.scratch('corr_' + prop)
    exp = os.path.join(wd, 'wl.ndjson')
    open(os.path.join(wd, 'Workload_gen.cfg'), 'w').write(
        'SPECIFICATION Spec\nCONSTANTS\n  Export = "%s"\nINVARIANT CapOK\nACTION_CONSTRAINT Emit\nCHECK_DEADLOCK FALSE\n' % exp)
    r = vlib.tlc('Workload', 'Workload_gen.cfg', workdir=wd, workers=1, timeout=300)
    if r['violations'] or not os.path.exists(exp):
        raise Broken('Workload.tla failed: ' + r['out'][-1500:])
    cells = [json.loads(l) for l in open(exp) if l.strip()]
    if len(cells) < 500:
        raise Broken('Workload.tla exported only %d cells' % len(cells))
    rnd = random.Random(seedv)
    if tier == 'thorough':
        sel = cells
        ops = 10
    else:
        # every (protocol, codec) pair once with the concurrent mid-size profile and no pipe, plus a seeded sample
        core = [c for c in cells if c['pipe'] == '' and c['gor'] == 4 and c['size'] == 255]
        rest = [c for c in cells if c not in core]
        sel = core + core + rnd.sample(rest, 110)
        # the barrier profile (32 goroutines released together on one session): raw and json protocols, always included
        sel += [c for c in cells if c.get('barrier') and c['pipe'] == '' and c['codec'] == 'j' and c['proto'] in ('raw', 'pb')]
        # the mixed-outcome profile (handler statuses and unknown routes among the concurrent calls): text codecs, always included
        sel += [c for c in cells if c.get('mixed') and c['pipe'] == '' and c['codec'] in ('j', 'x', 'f') and c['proto'] in ('raw', 'json', 'pb', 'thriftbin')]
        # the secure-plugin profile (per-message plugin state in the message swap, seeded session swap): always included
        sel += [c for c in cells if c.get('secure')]
        # raw byte bodies with handlers that stay inside while other frames arrive: always included
        sel += [c for c in cells if c['codec'] == 'b' and c['hold'] == 3 and c['pipe'] in ('', 'm')]
        ops = 10
    scen = []
    for i, c in enumerate(sel):
        c = dict(c)
        c['id'] = 'w%d' % i
        c['ops'] = (ops if c['size'] < 70000 else 3) if not c.get('barrier') else 60
        scen.append(c)
    scfile = os.path.join(wd, 'scen.ndjson')
    with open(scfile, 'w') as f:
        for s in scen:
            f.write(json.dumps(s) + '\n')
    binary = vlib.build_harness()
    trfile = os.path.join(wd, 'trace.ndjson')
    rc, out, err, wall = vlib.run_harness(binary, ['corr', '-in', scfile, '-out', trfile], timeout=3000)
    if rc != 0:
        cr = vlib.crash_report(err)
        if cr and cr[1] == 'repo':
            verdict.report('%s:crash:%s' % (prop, cr[0][:80]), {'panic': cr[0], 'stack': err[err.find(cr[0]):][:3000]}, {'engine': 'corr', 'seed': seedv})
            return {'traces_validated_against_impl': 0, 'evaluations': len(scen), 'distinct_nontrivial': len(scen), 'rule': 'crash', 'samples': [cr[0]]}, time.time() - t0
        raise Broken('corr driver failed rc=%d: %s' % (rc, err[-2000:]))
    nev = sum(1 for _ in open(trfile))
    log('[corr] %d of %d workload cells run in %.0fs (%d events)' % (len(scen), len(cells), wall, nev))
    acc, rej, _ = vlib.validate_traces('PCorr', 'PCorr.cfg', trfile, workdir=wd, max_reject=10, timeout=1500)
    by_id = {s['id']: s for s in scen}
    lines_by_t = {}
    for l in open(trfile):
        if l.strip():
            lines_by_t.setdefault(json.loads(l).get('t'), []).append(l)
    if len(lines_by_t) != len(scen):
        raise Broken('corr driver recorded %d of %d traces' % (len(lines_by_t), len(scen)))
    for rj in rej:
        s = by_id.get(rj['t'], {})
        sig = '%s:%s/proto=%s,codec=%s,pipe=%s' % (prop, rj['line'].get('ev'), s.get('proto'), s.get('codec'), s.get('pipe'))
        verdict.report(sig, {'rejected_event': rj['line'], 'previous_event': rj['prev']},
                       {'engine': 'corr', 'scenario': s, 'seed': seedv, 'trace_tail': [json.loads(x) for x in lines_by_t.get(rj['t'], [])][-40:]})
    nontriv = [s for s in scen if s['gor'] > 1 or s['sessions'] > 1]
    cov = {'evaluations': len(scen), 'distinct_nontrivial': len(set(json.dumps({k: s[k] for k in s if k != 'id'}, sort_keys=True) for s in nontriv)),
           'rule': 'one workload per selected cell of Workload.tla (protocol x codec x pipe x load profile, capability matrix applied); every body and metadata value is a unique tag; non-trivial = more than one goroutine or session (true concurrency)',
           'cells_total': len(cells), 'exhaustive': tier == 'thorough', 'events': nev,
           'traces_validated_against_impl': acc + len(rej), 'rejected': len(rej),
           'samples': [scen[0], scen[-1]]}
    vlib.cleanup(wd)
    return cov, time.time() - t0
