"""Engine `disp`: Dispatch.tla enumerates every single-message scenario
(kind x route x plugin profiles x vetoing (plugin, stage) x handler outcome x
decodability); each terminal state is replayed between two real peers
(drv_disp.go) and the recorded public events are validated by TLC against
PDispatch.tla.  Serves C03, C04, C09."""
import json, os, random, time
import vlib
from vlib import Broken, log

GEN = '''SPECIFICATION Spec
CONSTANTS
  ReplyDecodeFix = TRUE
  Export = "%s"
  Kinds = {"call", "push", "badtype"}
  Routes = {"reg", "unreg", "unknown"}
  Houts = {"ok", "status", "panic", "unpackable"}
ACTION_CONSTRAINT Emit
CHECK_DEADLOCK FALSE
'''


def classify(prop, rej, lines):
    evs = [json.loads(l) for l in lines]
    cfg = evs[0] if evs else {}
    line = rej['line']
    ev = line.get('ev')
    what = ev
    if ev == 'Hook':
        what += ':%s.%s' % (line.get('pl'), line.get('stage'))
    elif ev == 'CallDone':
        if line.get('code') == 0 and cfg.get('rdec') == 'bad':
            what += ':ok-with-undecodable-reply'
        else:
            what += ':code=%s' % line.get('code')
    elif ev == 'Quiesce':
        what += ':nreply=%s,enters=%s' % (line.get('nreply'), line.get('enters'))
    return '%s/%s,%s,veto=%s.%s,hout=%s' % (what, cfg.get('kind'), cfg.get('route'), cfg.get('vetopl'), cfg.get('vetostage'), cfg.get('hout'))


def run(prop, tier, verdict):
    t0 = time.time()
    seedv = vlib.seed()
    wd = vlib.scratch('disp_' + prop)
    r = vlib.tlc_must_hold('Dispatch', 'Dispatch_mc.cfg', workdir=wd, workers=8, timeout=900)
    cov = {'states': r['distinct'], 'transitions': r['generated'],
           'model': 'spec/Dispatch.tla: all scenarios (initial states) of the single-message pipeline; invariants AtMostOneHandler OneReply HookOnce VetoStops CallerVetoStops OKIff Scoped'}
    exp = os.path.join(wd, 'disp_sc.ndjson')
    open(os.path.join(wd, 'Dispatch_gen.cfg'), 'w').write(GEN % exp)
    vlib.tlc('Dispatch', 'Dispatch_gen.cfg', workdir=wd, workers=1, timeout=900)
    if not os.path.exists(exp):
        raise Broken('Dispatch.tla exported nothing')
    scen = [json.loads(l) for l in open(exp) if l.strip()]
    total = len(scen)
    if total < 30000:
        raise Broken('Dispatch.tla exported only %d scenarios' % total)
    exhaustive = tier == 'thorough'
    if not exhaustive:
        rnd = random.Random(seedv)
        few = lambda s: s['cfg'].get('wret') == 'late' or s['cfg'].get('kind') == 'badtype' or s['cfg'].get('pre', 'none') != 'none' or s['cfg'].get('res', 'std') != 'std'     # few: always replayed
        late = [s for s in scen if few(s)]
        scen = rnd.sample([s for s in scen if not few(s)], 3500) + late
    # the scenarios with an exhausted goroutine pool shrink the pool of the whole process: they are replayed last
    scen.sort(key=lambda s: s['cfg'].get('res') == 'poolfull')
    for i, s in enumerate(scen):
        s['id'] = 'd%d' % i
    scfile = os.path.join(wd, 'scen.ndjson')
    with open(scfile, 'w') as f:
        for s in scen:
            f.write(json.dumps(s) + '\n')
    binary = vlib.build_harness()
    trfile = os.path.join(wd, 'trace.ndjson')
    rc, out, err, wall = vlib.run_harness(binary, ['disp', '-in', scfile, '-out', trfile], timeout=3000)
    if rc != 0:
        cr = vlib.crash_report(err)
        if cr and cr[1] == 'repo':
            verdict.report('%s:crash:%s' % (prop, cr[0][:80]), {'panic': cr[0], 'stack': err[err.find(cr[0]):][:3000]}, {'engine': 'disp', 'seed': seedv})
            cov.update({'traces_validated_against_impl': 0, 'samples': [cr[0]], 'crashed': True})
            return cov, time.time() - t0
        raise Broken('disp driver failed rc=%d: %s' % (rc, err[-2000:]))
    log('[disp] %d of %d scenarios replayed in %.0fs' % (len(scen), total, wall))
    acc, rej, _ = vlib.validate_traces('PDispatch', 'PDispatch.cfg', trfile, workdir=wd, env={'VERIF_PROP': prop}, max_reject=12, timeout=1500)
    by_id = {s['id']: s for s in scen}
    lines_by_t = {}
    for l in open(trfile):
        if l.strip():
            lines_by_t.setdefault(json.loads(l).get('t'), []).append(l)
    if len(lines_by_t) != len(scen):
        raise Broken('disp driver recorded %d of %d traces' % (len(lines_by_t), len(scen)))
    for rj in rej:
        sig = '%s:%s' % (prop, classify(prop, rj, lines_by_t.get(rj['t'], [])))
        verdict.report(sig, {'rejected_event': rj['line'], 'previous_event': rj['prev']},
                       {'engine': 'disp', 'scenario': by_id.get(rj['t']), 'trace': [json.loads(x) for x in lines_by_t.get(rj['t'], [])]})
    nontriv = [s for s in scen if s['cfg']['veto'][0] != 'none' or s['cfg']['hout'] != 'ok' or s['cfg']['route'] != 'reg' or s['cfg']['dec'] != 'ok' or s['cfg']['rdec'] != 'ok']
    cov.update({'traces_validated_against_impl': acc + len(rej), 'evaluations': len(scen),
                'distinct_nontrivial': len(set(json.dumps(s['cfg'], sort_keys=True) for s in nontriv)),
                'rule': 'one scenario per initial state of Dispatch.tla (kind, route class, plugin stage profiles, at most one vetoing (plugin, stage), handler outcome, decodability); non-trivial = has a veto, a failing handler, an unregistered route or an undecodable body',
                'scenarios_total': total, 'exhaustive': exhaustive, 'rejected': len(rej),
                'samples': [scen[0]['cfg'], {'exp_hooks': scen[0]['hooks'], 'exp_caller_status': scen[0]['cstat']}]})
    vlib.cleanup(wd)
    return cov, time.time() - t0
