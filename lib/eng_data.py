"""Engine `data`: data-plane families (C05 wire, C11 codec, C12 filter pipes,
C20 pooled objects).  A generator specification enumerates the abstract case
space together with the expectation class of every case; drv_data.go
concretises and executes each case on the real code; TLC validates the recorded
outcomes against PCase.tla."""
import json, os, random, time
import vlib
from vlib import Broken, log


def gen_cases(wd, module, consts):
    exp = os.path.join(wd, module + '_cases.ndjson')
    if os.path.exists(exp):
        os.remove(exp)
    cfg = module + '_gen.cfg'
    with open(os.path.join(wd, cfg), 'w') as f:
        f.write('SPECIFICATION Spec\nCONSTANTS\n  Export = "%s"\n' % exp)
        for k, v in consts.items():
            f.write('  %s = %s\n' % (k, v))
        f.write('INVARIANT OracleSane\nACTION_CONSTRAINT Emit\nCHECK_DEADLOCK FALSE\n')
    r = vlib.tlc(module, cfg, workdir=wd, workers=1, timeout=1200)
    if r['violations'] or r['errors'] or not os.path.exists(exp):
        raise Broken('%s generation failed: %s' % (module, (r['errors'] or [r['out'][-1500:]])[:3]))
    return [json.loads(l) for l in open(exp) if l.strip()], r


def run(prop, tier, verdict, module, consts, signature, min_cases, sample=None, nontrivial=None, seeds=1):
    t0 = time.time()
    seedv = vlib.seed()
    wd = vlib.scratch('data_' + prop)
    cases, r = gen_cases(wd, module, consts)
    total = len(cases)
    if total < min_cases:
        raise Broken('%s exported only %d cases' % (module, total))
    if sample and total > sample:
        cases = random.Random(seedv).sample(cases, sample)
    scfile = os.path.join(wd, 'cases.ndjson')
    with open(scfile, 'w') as f:
        for c in cases:
            f.write(json.dumps(c) + '\n')
    binary = vlib.build_harness()
    acc_total, rej_total, executed = 0, 0, 0
    for k in range(seeds):
        trfile = os.path.join(wd, 'trace%d.ndjson' % k)
        rc, out, err, wall = vlib.run_harness(binary, ['data', '-in', scfile, '-out', trfile, '-seed', str(seedv * 31 + k)], timeout=3000)
        if rc != 0:
            cr = vlib.crash_report(err)
            if cr and cr[1] == 'repo':
                verdict.report('%s:crash:%s' % (prop, cr[0][:80]), {'panic': cr[0], 'stack': err[err.find(cr[0]):][:3000]}, {'engine': 'data', 'seed': seedv})
                break
            raise Broken('data driver failed rc=%d: %s' % (rc, err[-2000:]))
        evs = [json.loads(l) for l in open(trfile) if l.strip()]
        ncase = sum(1 for e in evs if e.get('ev') == 'Case')
        if ncase != len(cases):
            raise Broken('data driver executed %d of %d cases' % (ncase, len(cases)))
        executed += ncase
        ncases, failed = vlib.validate_cases('PCase', 'PCase.cfg', trfile, workdir=wd, timeout=1500)
        acc_total += ncases - len(failed)
        rej_total += len(failed)
        rej = failed
        for line in failed:
            verdict.report('%s:%s' % (prop, signature(line)), {'case': line.get('case'), 'outcome': {k: v for k, v in line.items() if k not in ('case',)}},
                           {'engine': 'data', 'case': line.get('case'), 'seed': seedv * 31 + k})
        log('[data] %s: %d of %d cases executed in %.0fs (seed %d), %d rejected' % (module, len(cases), total, wall, seedv * 31 + k, len(rej)))
    nt = [c for c in cases if (nontrivial(c) if nontrivial else True)]
    cov = {'evaluations': executed, 'distinct_nontrivial': len(set(json.dumps(c, sort_keys=True) for c in nt)),
           'rule': 'cases enumerated by spec/%s.tla (TLC, one initial state per case) with the expectation class of each case; every case concretised with seeded concrete values and executed on the real code; outcome validated by TLC against spec/PCase.tla' % module,
           'cases_total': total, 'exhaustive': not sample or total <= sample, 'states': r.get('distinct', 0),
           'traces_validated_against_impl': acc_total + rej_total, 'rejected': rej_total,
           'samples': cases[:2]}
    vlib.cleanup(wd)
    return cov, time.time() - t0
