#!/usr/bin/env python3
"""Prints the prompt given to an independent sub-agent that seeds a property-breaking change."""
import json, sys
pid = sys.argv[1]
wt = sys.argv[2] if len(sys.argv) > 2 else '/tmp/wt/' + pid
variant = sys.argv[3] if len(sys.argv) > 3 else ''
extra = ''
if variant == 'v2':
    extra = (' Look beyond the most obvious function for this property: prefer the less obvious code that contributes to it '
             '(helpers and utility packages, object pools, plugins and their containers, protocol and codec packages, error and '
             'retry paths, configuration updates) and mechanisms a first reading would not suspect.')
if variant == 'v3':
    extra = (' Look beyond the most obvious function for this property, and prefer a trigger that is an INTERACTION rather than a '
             'single input: state left behind by an earlier operation on the same session, peer or process (deadlines, pooled '
             'objects, counters, timers, cached values); a neighbouring connection or session of the same process; a plugin or '
             'hook doing something legitimate with the object it is given; a configuration update at run time; a retry, re-dial '
             'or error path meeting a second feature; a boundary value of a length, counter or sequence field.')
for l in open('/verif/properties.jsonl'):
    p = json.loads(l)
    if p['id'] == pid:
        break
print(f"""You are helping to evaluate a verification effort by playing the adversary. You work ONLY inside the git worktree {wt} (a scratch checkout of the Go RPC framework henrylee2cn/teleport, module path github.com/henrylee2cn/erpc/v6). Do not read or touch /repo or /verif, and do not create files outside {wt}.

Here is a semantic property the framework is supposed to satisfy:

TITLE: {p['title']}
STATEMENT: {p['statement']}
QUANTIFIER: {p['quantifier']['text']}
RELEVANT FILES (anchors): {', '.join(p['anchors']['files'])}

Your task: produce TWO independent, realistic source changes (call them m1 and m2) to the framework's non-test Go code, each of which BREAKS this property while the code still compiles and the existing test suite still passes. Think of the kind of regression a maintainer could plausibly introduce in a refactoring or an optimisation: e.g. dropping or reordering a step, weakening a condition, an off-by-one, a missing lock/wait, forgetting a case, reusing a buffer, mishandling an edge value. Prefer changes that need something specific to manifest — a particular interleaving, a fault at a particular point, a multi-step sequence of operations, an unusual input, or two cooperating sites that each look fine alone — NOT changes that any ordinary use (a single simple call) would expose at once. The two changes should be different in nature and touch different mechanisms.{extra}

Facts about the environment (offline sandbox):
- Use: export GOFLAGS=-mod=mod GOPROXY=off GOSUMDB=off GOTOOLCHAIN=local   (no network; nothing can be downloaded).
- The root package (session.go, peer.go, context.go, ...) only links when built with `-tags verif` (a stub replaces the QUIC transport, whose dependency panics at init under this Go version). So build/test anything that imports the root package with `-tags verif`. Lines of the form `vp("...", ...)` in the source are inert tracing hooks; leave them alone (do not remove or move them) and do not rely on them.
- The existing (pinned) test suite that must still pass after your change is: cd {wt} && go test -mod=mod -vet=off -count=1 ./codec ./socket ./utils ./xfer/gzip ./mixer/websocket/websocket
- Also make sure `go build -tags verif . ./socket ./codec ./utils ./xfer/... ./proto/... ./plugin/... ./mixer/websocket/...` and `go build . ./socket ./codec ./utils ./xfer/... ./proto/... ./plugin/...` succeed (both with and without the tag).
- In-memory connections: net.Pipe works, but both ends have the address "pipe", and the framework's default session id is the remote address, so two sessions on one peer collide unless you wrap the conns to give unique LocalAddr/RemoteAddr; loopback TCP (127.0.0.1:0) also works. Call erpc.SetLoggerLevel("OFF") to silence logging. Handlers are registered e.g. with peer.RouteCall(new(Ctrl)) where `type Ctrl struct{{ erpc.CallCtx }}` and `func (c *Ctrl) Method(arg *T) (*R, *erpc.Status)`; the route is "/ctrl/method". A session is obtained with peer.ServeConn(conn) on both ends of a connection (or Dial/ListenAndServe over TCP).

For EACH change (m1, m2) deliver, under {wt}/_out/m1 and {wt}/_out/m2:
  1. patch.diff — a unified diff (git diff format, paths relative to the repository root) of the change to non-test source files only; it must apply with `git apply` to a clean checkout of this worktree's HEAD.
  2. a demonstration: a Go test file (demo_test.go, to be dropped into the package directory you name) or a small main program, that FAILS (or hangs past a timeout you set inside it, or panics) with the change applied and PASSES without it. It should be deterministic or nearly so (you may loop / use sleeps / hooks of your own inside the test file, but not in the patch). State the exact command to run it (with -tags verif where needed, and a -timeout).
  3. meta.json — {{"property": "{pid}", "summary": "...what the change does...", "needs": "...what is needed for the breakage to manifest (interleaving / fault / sequence / input)...", "demo_cmd": "...", "demo_pkg_dir": "...where demo_test.go must be placed..."}}.

Procedure you must follow for each change: start from a clean tree (git -C {wt} checkout -- . ; remove stray files except _out), write the demo, run it on the UNCHANGED tree and confirm it passes (run it at least 3 times), apply your change, confirm build (both tag settings) and the pinned suite pass, run the demo and confirm it fails (at least 2 of 3 runs), save `git diff` (excluding the demo file and _out) as patch.diff, then revert the change. Leave the worktree clean at the end except for the _out directory. Do not commit anything.

Finish by reporting, for m1 and m2: the summary, what it needs to manifest, and the observed demo results (pass without / fail with). If you cannot make a change satisfy all the constraints, say so honestly rather than delivering something unverified.""")
